#!/bin/sh
# Builds /verif/.venv (python 3.12 + z3/cvc5/icontract/deal/crosshair/jsonschema from the
# offline wheelhouse, overlaid on /venv's site-packages so `import malt` resolves to /repo).
set -e
cd "$(dirname "$0")"
if [ -x .venv/bin/python ] && .venv/bin/python -c "import z3, jsonschema, malt" 2>/dev/null; then
  exit 0
fi
rm -rf .venv
PY=/root/.pyenv/versions/3.12.1/bin/python3.12
[ -x "$PY" ] || PY=$(command -v python3.12 || echo /venv/bin/python)
"$PY" -m venv .venv
PIP_NO_INDEX=1 .venv/bin/pip install -q --no-index --find-links /opt/veriftools/wheels \
  z3-solver cvc5 icontract deal crosshair-tool jsonschema >/dev/null
SP=$(.venv/bin/python -c "import sysconfig; print(sysconfig.get_paths()['purelib'])")
echo "import site; site.addsitedir('/venv/lib/python3.12/site-packages')" > "$SP/_malt_overlay.pth"
.venv/bin/python -c "import z3, jsonschema, malt; print('venv ok', z3.get_version_string(), malt.__file__)"
