"""C15 -- lambda disambiguation by signature (malt/pyct/parser.py)."""
from pvc.world import Contract, ClassInfo

P = 'malt.pyct.parser.'


def register(w):
  w.add_class(ClassInfo('arg', bases=['AST'], fields={'arg': 'str'}))
  w.add_class(ClassInfo('arguments', bases=['AST'], fields={
      'posonlyargs': 'List[arg]', 'args': 'List[arg]', 'vararg': 'Opt[arg]', 'kwarg': 'Opt[arg]',
      'kwonlyargs': 'List[arg]'}))
  w.add_class(ClassInfo('LambdaNode', bases=['AST'], fields={'args': 'arguments'}))
  # what inspect.getfullargspec reports (T: CPython lists positional-only and positional-or-keyword names,
  # in order, in `.args`; the other kinds in their own fields)
  w.add_class(ClassInfo('FullArgSpec', fields={
      'args': 'List[str]', 'varargs': 'Opt[str]', 'varkw': 'Opt[str]', 'kwonlyargs': 'List[str]'}))
  PURE = {'inspect.getfullargspec': 'FullArgSpec'}

  w.add(Contract(
      P + '_arg_name', serves=['C15'], types={'node': 'Opt[arg]', 'return': 'Opt[str]'},
      modifies=[],
      ensures=['implies(node is None, result is None)',
               'implies(node is not None, result is not None and result == node.arg)']))

  # property C15: "a different lambda is never silently substituted": a candidate is accepted exactly when
  # its parameter names agree, kind by kind and in order, with the function object's signature; positional
  # names are the positional-only ones followed by the positional-or-keyword ones
  w.macros['OptName'] = (['s', 'a'], '((s is None) == (a is None) and implies(a is not None, s == a.arg))')
  SPEC = 'inspect.getfullargspec(func)'
  CONJ = [
      'len(%s.args) == len(node.args.posonlyargs) + len(node.args.args)' % SPEC,
      'forall(lambda i: implies(0 <= i and i < len(node.args.posonlyargs), '
      '%s.args[i] == node.args.posonlyargs[i].arg), "int")' % SPEC,
      'forall(lambda i: implies(0 <= i and i < len(node.args.args), '
      '%s.args[len(node.args.posonlyargs) + i] == node.args.args[i].arg), "int")' % SPEC,
      'OptName(%s.varargs, node.args.vararg)' % SPEC,
      'OptName(%s.varkw, node.args.kwarg)' % SPEC,
      'len(%s.kwonlyargs) == len(node.args.kwonlyargs)' % SPEC,
      'forall(lambda i: implies(0 <= i and i < len(node.args.kwonlyargs), '
      '%s.kwonlyargs[i] == node.args.kwonlyargs[i].arg), "int")' % SPEC,
  ]
  w.add(Contract(
      P + '_node_matches_argspec', serves=['C15'], pure=PURE,
      types={'node': 'LambdaNode', 'func': 'Any', 'return': 'bool'}, modifies=[],
      # accepted => every kind agrees (one clause per kind); every kind agrees => accepted
      ensures=['implies(result, %s)' % c for c in CONJ] + ['implies(%s, result)' % ' and '.join('(%s)' % c for c in CONJ)],
      assumes=['T: inspect.getfullargspec(func).args = positional-only names then positional-or-keyword names']))
