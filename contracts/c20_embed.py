"""C20 -- the place where the options are embedded into generated code (malt/converters/functions.py).

property C20: "conversion options survive embedding": the expression placed in the generated FunctionScope /
with_function_scope call is, for the top-level function of the converted entity (state level 2), the to_ast()
rendering of the options the conversion was REQUESTED with, and for every nested function the rendering of their
call_options() (proved under C20: same recursive / features, user_requested False).  With the exhaustive to_ast
round trip this gives: the options the generated code evaluates are the requested ones.  Event mode: the state
stack, annotations, namer and templates are opaque; their calls are the observable events, so a rendering taken
from anywhere else (a cache slot, another scope's options) changes the trace."""
from pvc.world import Contract, ClassInfo

F = 'malt.converters.functions.'


def register(w):
  w.add_class(ClassInfo('FunctionTransformer', module='malt.converters.functions',
                        fields={'ctx': 'EntityContext', 'state': 'Any'}))
  w.add(Contract(
      F + 'FunctionTransformer.visit_FunctionDef', mode='event', serves=['C20', 'C16'],
      inline=[F + 'FunctionTransformer._function_scope_options'], callbacks=['to_ast', 'call_options', 'malt.pyct.parser.parse_expression'],
      spec='''
def spec(self, node):
  with self.state[_Function] as fn_scope:
    scope = anno.getanno(node, annos.NodeAnno.BODY_SCOPE)
    function_context_name = self.ctx.namer.new_symbol('fscope', scope.referenced)
    fn_scope.context_name = function_context_name
    anno.setanno(node, 'function_context_name', function_context_name)
    node = self.generic_visit(node)
    if fn_scope.level <= 2:
      node.decorator_list = []
    else:
      node.decorator_list.append(parser.parse_expression('ag__.autograph_artifact'))
    docstring_node = None
    if node.body:
      first_statement = node.body[0]
      if (isinstance(first_statement, ast.Expr) and isinstance(first_statement.value, ast.Constant)):
        docstring_node = first_statement
        node.body = node.body[1:]
    wrapped_body = templates.replace(
        """
        with ag__.FunctionScope(
            function_name, context_name, options) as function_context:
          body
      """,
        function_name=ast.Constant(node.name),
        context_name=ast.Constant(function_context_name),
        options=(self.ctx.user.options if fn_scope.level == 2 else self.ctx.user.options.call_options()).to_ast(),
        function_context=function_context_name,
        body=node.body)
    if docstring_node is not None:
      wrapped_body = [docstring_node] + wrapped_body
    node.body = wrapped_body
    return node
'''))

  w.add(Contract(
      F + 'FunctionTransformer.visit_Lambda', mode='event', serves=['C20', 'C16'],
      inline=[F + 'FunctionTransformer._function_scope_options'], callbacks=['to_ast', 'call_options'],
      spec='''
def spec(self, node):
  with self.state[_Function] as fn_scope:
    node = self.generic_visit(node)
    if fn_scope.level > 2:
      return templates.replace_as_expression('ag__.autograph_artifact(l)', l=node)
    scope = anno.getanno(node, anno.Static.SCOPE)
    function_context_name = self.ctx.namer.new_symbol('lscope', scope.referenced)
    fn_scope.context_name = function_context_name
    anno.setanno(node, 'function_context_name', function_context_name)
    if fn_scope.level == 2:
      options = self.ctx.user.options
    else:
      options = self.ctx.user.options.call_options()
    node.body = templates.replace_as_expression(
        """
        ag__.with_function_scope(
            lambda function_context: body, function_context_name, options)
      """,
        options=options.to_ast(),
        function_context=function_context_name,
        function_context_name=ast.Constant(function_context_name),
        body=node.body)
    return node
'''))
