"""C20 -- ConversionOptions value type (malt/core/converter.py) and its consumers."""
from pvc.world import Contract, ClassInfo

M = 'malt.core.converter.'
FIELDS = ['self.recursive', 'self.user_requested', 'self.internal_convert_user_code',
          'self.optional_features']


def register(w):
  w.add_class(ClassInfo('ConversionOptions', module='malt.core.converter', eq='method', fields={
      'recursive': 'bool', 'user_requested': 'bool', 'internal_convert_user_code': 'bool',
      'optional_features': 'FrozenSet[Feature]'}))
  w.add_class(ClassInfo('Feature', module='malt.core.converter', eq='identity'))

  w.add(Contract(
      M + 'ConversionOptions.__init__', serves=['C20'],
      types={'recursive': 'bool', 'user_requested': 'bool', 'internal_convert_user_code': 'bool',
             'optional_features': 'Any'},
      modifies=FIELDS,
      ensures=[
          'self.recursive == recursive',
          'self.user_requested == user_requested',
          'self.internal_convert_user_code == internal_convert_user_code',
          'implies(optional_features is None, isempty(self.optional_features))',
          'implies(isinstance(optional_features, Feature), seteq(self.optional_features, {optional_features}))',
          'implies(optional_features is not None and not isinstance(optional_features, Feature),'
          ' seteq(self.optional_features, optional_features))',
      ]))

  w.add(Contract(
      M + 'ConversionOptions.as_tuple', serves=['C20'],
      types={'return': 'Tuple[bool,bool,bool,FrozenSet[Feature]]'},
      ensures=[
          'len(result) == 4',
          'result[0] == self.recursive', 'result[1] == self.user_requested',
          'result[2] == self.internal_convert_user_code',
          'result[3] is self.optional_features',
      ]))

  w.add(Contract(
      M + 'ConversionOptions.__eq__', serves=['C20'],
      types={'other': 'ConversionOptions', 'return': 'bool'},
      ensures=[
          'result == (self.recursive == other.recursive and self.user_requested == other.user_requested'
          ' and self.internal_convert_user_code == other.internal_convert_user_code'
          ' and seteq(self.optional_features, other.optional_features))',
      ]))

  w.add(Contract(
      M + 'ConversionOptions.__hash__', serves=['C20'], types={'return': 'int'},
      ensures=[
          'result == hash((self.recursive, self.user_requested, self.internal_convert_user_code,'
          ' self.optional_features))',
      ]))

  w.add(Contract(
      M + 'ConversionOptions.uses', serves=['C20'], types={'feature': 'Feature', 'return': 'bool'},
      ensures=['result == (Feature.ALL in self.optional_features or feature in self.optional_features)']))

  w.add(Contract(
      M + 'ConversionOptions.call_options', serves=['C20'], types={'return': 'ConversionOptions'},
      modifies=[],
      ensures=[
          'fresh(result)',
          'result.recursive == self.recursive',
          'result.user_requested == False',
          'result.internal_convert_user_code == self.recursive',
          'seteq(result.optional_features, self.optional_features)',
      ]))

  # ---- lemma layer (ghost code, verified against the contracts above only)
  w.add(Contract(
      'lemma.C20.equal_options_hash_equally', serves=['C20'], in_module='malt.core.converter',
      types={'a': 'ConversionOptions', 'b': 'ConversionOptions'},
      requires=[
          # T: frozenset hashing is value based (CPython): equal contents => same abstract value
          'implies(seteq(a.optional_features, b.optional_features),'
          ' same(setvalue(a.optional_features), setvalue(b.optional_features)))'],
      assumes=['T: hash/== of tuples, frozensets, bools and enum members are value based (CPython)'],
      source='''
def lemma(a, b):
  if a == b:
    assert hash(a) == hash(b)
'''))
  w.add(Contract(
      'lemma.C20.unequal_options_compare_unequal', serves=['C20'], in_module='malt.core.converter',
      types={'a': 'ConversionOptions', 'b': 'ConversionOptions'},
      source='''
def lemma(a, b):
  differ = (a.recursive != b.recursive or a.user_requested != b.user_requested
            or a.internal_convert_user_code != b.internal_convert_user_code)
  if differ:
    assert not (a == b)
  if a == b:
    assert a.recursive == b.recursive and a.user_requested == b.user_requested
    assert a.internal_convert_user_code == b.internal_convert_user_code
'''))
  w.add(Contract(
      'lemma.C20.call_options_policy', serves=['C20'], in_module='malt.core.converter',
      types={'o': 'ConversionOptions', 'f': 'Feature'}, modifies=[],
      source='''
def lemma(o, f):
  c = o.call_options()
  assert c.recursive == o.recursive
  assert not c.user_requested
  assert c.internal_convert_user_code == o.recursive
  assert c.uses(f) == o.uses(f)
  assert o.uses(f) == (Feature.ALL in o.optional_features or f in o.optional_features)
'''))
