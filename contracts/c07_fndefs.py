"""C07 / C19 -- reaching function definitions (malt/pyct/static_analysis/reaching_fndefs.py): the value type is
concrete here (proved, not assumed) and the transfer function is an accumulating union."""
from pvc.world import Contract, ClassInfo

F = 'malt.pyct.static_analysis.reaching_fndefs.'


def register(w):
  w.add_class(ClassInfo('FnState', pyname='_NodeState', module='malt.pyct.static_analysis.reaching_fndefs', eq='method',
                        fields={'value': 'Set[AST]'}))
  w.add_class(ClassInfo('FnAnalyzer', pyname='Analyzer', module='malt.pyct.static_analysis.reaching_fndefs',
                        bases=['GraphVisitor'],
                        fields={'in_': 'Dict[Node,FnState]', 'out': 'Dict[Node,FnState]', 'external_defs': 'Set[AST]'}))
  w.add_class(ClassInfo('FunctionDef', bases=['AST']))
  SAME = 'forall(lambda e: (e in self.value) == old(e in self.value), "AST")'
  w.add(Contract(
      F + '_NodeState.__init__', serves=['C07', 'C19'], types={'init_from': 'Opt[Set[AST]]'},
      modifies=['self.value'],
      ensures=['fresh(self.value)',
               'forall(lambda e: (e in self.value) == (init_from is not None and e in init_from), "AST")']))
  w.add(Contract(
      F + '_NodeState.__or__', serves=['C07', 'C19'], types={'other': 'FnState', 'return': 'FnState'},
      modifies=[], asserts='raise',
      ensures=['fresh(result)', 'fresh(result.value)',
               'forall(lambda e: (e in result.value) == (e in self.value or e in other.value), "AST")']))
  w.add(Contract(
      F + '_NodeState.__add__', serves=['C07', 'C19'], types={'value': 'AST', 'return': 'FnState'},
      modifies=[],
      ensures=['fresh(result)', 'fresh(result.value)',
               'forall(lambda e: (e in result.value) == (e in self.value or e is value), "AST")']))
  w.add(Contract(
      F + '_NodeState.__eq__', serves=['C07', 'C19'], types={'other': 'FnState', 'return': 'bool'}, modifies=[],
      ensures=['result == seteq(self.value, other.value)']))
  w.add(Contract(
      F + '_NodeState.__ne__', serves=['C07', 'C19'], types={'other': 'FnState', 'return': 'bool'}, modifies=[],
      ensures=['result == (not seteq(self.value, other.value))']))

  ISDEF = '(isinstance(node.ast_node, ast.Lambda) or isinstance(node.ast_node, ast.FunctionDef))'
  JOIN = 'exists(lambda p: p in node.prev and old(e in self.out[p].value), "Node")'
  # property C07 (closure clause) / C19 rely on DEFINED_FNS_IN over-approximating the local functions that may
  # have been defined when a statement runs: what reaches a node only grows (it keeps what reached it before),
  # contains everything that leaves a predecessor, the external definitions at the entry, and a def / lambda
  # statement adds itself to what leaves it.
  w.add(Contract(
      F + 'Analyzer.visit_node', serves=['C07', 'C19'], types={'node': 'Node', 'return': 'bool'},
      requires=['node in self.out', 'self.out[node] is not None', 'self.in_ is not self.out',
                'forall(lambda p: implies(p in node.prev, p in self.out and self.out[p] is not None), "Node")',
                # states own their sets; the analyzer's tables and the external definitions are not state sets
                'forall(lambda p: implies(p in self.out, self.out[p].value is not self.external_defs), "Node")'],
      modifies=['contents(self.in_)', 'contents(self.out)'],
      loops={0: dict(modifies=[], inv=[
          'defs_in is not None', 'fresh(defs_in.value) or defs_in is old(self.out[node])',
          'forall(lambda e: implies((node is self.graph.entry and e in self.external_defs) or '
          'exists(lambda p: p in _done and old(e in self.out[p].value), "Node"), e in defs_in.value), "AST")',
          'forall(lambda e: implies(e in defs_in.value, (node is self.graph.entry and e in self.external_defs) or '
          'old(e in self.out[node].value) or exists(lambda p: p in _done and old(e in self.out[p].value), "Node")), "AST")'])},
      ensures=[
          'node in self.in_ and node in self.out',
          # lower bound (what the properties need): everything that leaves a predecessor, the external definitions at the entry
          'forall(lambda e: implies((node is self.graph.entry and e in self.external_defs) or %s, e in self.in_[node].value), "AST")' % JOIN,
          # upper bound (no invented definitions; keeping what reached the node before is allowed, not required)
          'forall(lambda e: implies(e in self.in_[node].value, (node is self.graph.entry and e in self.external_defs) or '
          'old(e in self.out[node].value) or %s), "AST")' % JOIN,
          'forall(lambda e: (e in self.out[node].value) == (e in self.in_[node].value or (%s and e is node.ast_node)), "AST")' % ISDEF,
          'result == (not seteq(self.out[node].value, old(self.out[node].value)))',
          'forall(lambda m: implies(m is not node, (m in self.in_) == old(m in self.in_) and (m in self.out) == old(m in self.out)), "Node")',
          'forall(lambda m: implies(m is not node and old(m in self.out), self.out[m] is old(self.out[m])), "Node")',
          'forall(lambda m: implies(m is not node and old(m in self.in_), self.in_[m] is old(self.in_[m])), "Node")',
          'self.in_[node] is not None and self.out[node] is not None',
          # the new states own their sets
          'fresh(self.out[node].value) or self.out[node] is self.in_[node]', 'fresh(self.in_[node].value) or self.in_[node] is old(self.out[node])',
      ]))

  # ---- refinement lemma: visit_node satisfies the abstract contract of cfg.GraphVisitor.visit_node with
  # stable := {m | FnEq(self, m)} (direction forward), FnEq = "m's in state covers the entry's external
  # definitions and everything leaving its predecessors, and m's out state is its in state plus its own def"
  ISDEF_M = '(isinstance(m.ast_node, ast.Lambda) or isinstance(m.ast_node, ast.FunctionDef))'
  w.macros['FnDom'] = (['self', 'm'], '(m in self.in_ and m in self.out and self.out[m] is not None and self.in_[m] is not None and '
                       'forall(lambda p: implies(p in m.prev, p in self.out and self.out[p] is not None), "Node"))')
  w.macros['FnIn'] = (['self', 'm'],
                      'forall(lambda e: implies((m is self.graph.entry and e in self.external_defs) or '
                      'exists(lambda p: p in m.prev and e in self.out[p].value, "Node"), e in self.in_[m].value), "AST")')
  w.macros['FnOut'] = (['self', 'm'],
                       'forall(lambda e: (e in self.out[m].value) == (e in self.in_[m].value or (%s and e is m.ast_node)), "AST")' % ISDEF_M)
  w.macros['FnEq'] = (['self', 'm'], 'FnDom(self, m) and FnIn(self, m) and FnOut(self, m)')
  INV_G = 'forall(lambda a, b: (b in a.next) == (a in b.prev), "Node", "Node")'
  UNLESS = 'not (truthy(result) and m in node.next)'
  w.add(Contract(
      'lemma.C07.fndefs_visit_node_refines_abstract', serves=['C07', 'C19'],
      in_module='malt.pyct.static_analysis.reaching_fndefs',
      types={'self': 'FnAnalyzer', 'node': 'Node'},
      requires=[INV_G] + list(w.contracts[F + 'Analyzer.visit_node'].requires)
               + ['forall(lambda p: implies(p in self.out, self.out[p] is not None), "Node")',
                  'forall(lambda p: implies(p in self.in_, self.in_[p] is not None), "Node")',
                  # states own their sets (every state is built by _NodeState.__init__ / | / +)
                  'forall(lambda p, q: implies(p in self.in_ and q in self.out and p is not q, self.in_[p].value is not self.out[q].value), "Node", "Node")'],
      modifies=['contents(self.in_)', 'contents(self.out)'],
      ensures=[
          'forall(lambda a, b: (b in a.next) == old(b in a.next) and (b in a.prev) == old(b in a.prev), "Node", "Node")',
          'implies(not (truthy(result) and node in node.next), FnDom(self, node))',
          'implies(not (truthy(result) and node in node.next), FnIn(self, node))',
          'implies(not (truthy(result) and node in node.next), FnOut(self, node))',
          'forall(lambda m: implies(m is not node and old(FnEq(self, m)) and %s, FnDom(self, m)), "Node")' % UNLESS,
          'forall(lambda m: implies(m is not node and old(FnEq(self, m)) and %s, FnIn(self, m)), "Node")' % UNLESS,
          'forall(lambda m: implies(m is not node and old(FnEq(self, m)) and %s, FnOut(self, m)), "Node")' % UNLESS,
      ],
      source='''
def lemma(self, node):
  return self.visit_node(node)
'''))
