"""C08 -- the Scope algebra of the activity analysis (malt/pyct/static_analysis/activity.py)."""
from pvc.world import Contract

S = 'malt.pyct.static_analysis.activity.Scope.'
SETS = ['read', 'modified', 'deleted', 'bound', 'globals', 'nonlocals', 'annotations', 'isolated_names']


def register(w):
  own = ', '.join('self.%s' % f for f in SETS)
  par = ', '.join('self.parent.%s' % f for f in SETS)
  # representation invariant: every Scope owns its eight sets (established by __init__, kept by
  # copy_from / merge_from / finalize, which only ever call update on them or rebind them to fresh copies)
  w.macros['ScopeOwnsSets'] = (['self'], 'distinct((%s))' % own)
  w.macros['ScopeSeparate'] = (['self'], 'distinct((%s, %s))' % (own, par))

  w.add(Contract(
      S + '__init__', serves=['C08'], types={'parent': 'Opt[Scope]', 'isolated': 'bool', 'function_name': 'Any'},
      pure={'weakref.WeakValueDictionary': 'new:dict'},
      modifies=['self.parent', 'self.isolated', 'self.function_name', 'self.is_final', 'self.params']
               + ['self.%s' % f for f in SETS],
      ensures=['self.parent is parent', 'self.isolated == isolated', 'not self.is_final', 'ScopeOwnsSets(self)']
              + ['fresh(self.%s) and isempty(self.%s)' % (f, f) for f in SETS]))

  # property C08, mechanism "Scope objects merged upward on finalize; isolated scopes export only read - bound":
  # a block scope (not isolated) reports everything it reads / modifies / binds / declares to its parent, except
  # its isolated names; a function-like scope (isolated) exports only its free reads (read - locally bound names;
  # names it declares nonlocal are free, cf. C08 "free variables are exactly those CPython's compiler assigns") and the
  # annotations it does not bind; nothing else of the parent and nothing of the scope itself changes.
  def exp(f, minus):
    return ('implies(self.parent is not None and not self.isolated, seteq(self.parent.%s, old(self.parent.%s) | '
            '(old(self.%s)%s)))' % (f, f, f, minus))
  w.add(Contract(
      S + 'finalize', serves=['C08', 'C07', 'C02'], asserts='raise',
      requires=['not self.is_final',
                'implies(self.parent is not None, not self.parent.is_final and self.parent is not self '
                'and ScopeSeparate(self))'],
      modifies=['self.is_final'] + ['contents(self.parent.%s)' % f for f in
                                    ('read', 'modified', 'bound', 'globals', 'nonlocals', 'annotations')],
      ensures=['self.is_final',
               exp('read', ' - old(self.isolated_names)'), exp('modified', ' - old(self.isolated_names)'),
               exp('bound', ' - old(self.isolated_names)'), exp('globals', ''), exp('nonlocals', ''),
               exp('annotations', ''),
               # (names the function declares nonlocal are free in it: their reads are exported too)
               'implies(self.parent is not None and self.isolated, '
               'seteq(self.parent.read, old(self.parent.read) | (old(self.read) - (old(self.bound) - old(self.nonlocals)))))',
               'implies(self.parent is not None and self.isolated, '
               'seteq(self.parent.annotations, old(self.parent.annotations) | (old(self.annotations) - old(self.bound))))',
               'implies(self.parent is not None and self.isolated, unchanged(self.parent.modified) and '
               'unchanged(self.parent.bound) and unchanged(self.parent.globals) and unchanged(self.parent.nonlocals))',
               'implies(self.parent is not None, unchanged(self.parent.deleted) and unchanged(self.parent.isolated_names))']))

  # copy_from / merge_from, ROOT case (a scope without parent; the recursive step over the parent chain is the same
  # statement one level up and is not proved here -- its frame needs a chain predicate): the seven activity
  # containers are replaced by fresh copies of / grow by the other scope's; the DECLARATION sets (globals,
  # nonlocals) are not activity of a block and are never reset (C08: "declared global or nonlocal ... exactly those
  # CPython's compiler assigns": a declaration seen once holds for the whole function) -- frame.
  COPIED = ['isolated_names', 'modified', 'read', 'deleted', 'bound', 'annotations']
  w.add(Contract(
      S + 'copy_from', serves=['C08'], asserts='raise', types={'other': 'Scope'},
      pure={},
      requires=['not self.is_final', 'self.parent is None', 'other is not self', 'ScopeOwnsSets(self)', 'ScopeOwnsSets(other)'],
      modifies=['self.%s' % f for f in COPIED] + ['self.params'],
      ensures=['fresh(self.%s) and seteq(self.%s, old(other.%s))' % (f, f, f) for f in COPIED]
              + ['fresh(self.params)',
                 'forall(lambda k: (k in self.params) == old(k in other.params), "QN")',
                 'unchanged(self.globals)', 'unchanged(self.nonlocals)']
              + ['unchanged(other.%s)' % f for f in SETS]))
  w.add(Contract(
      S + 'merge_from', serves=['C08'], asserts='raise', types={'other': 'Scope'},
      requires=['not self.is_final', 'self.parent is None', 'other is not self', 'ScopeOwnsSets(self)', 'ScopeOwnsSets(other)',
                'distinct((%s, %s))' % (own, ', '.join('other.%s' % f for f in SETS)), 'self.params is not other.params'],
      modifies=['contents(self.%s)' % f for f in COPIED] + ['contents(self.params)'],
      ensures=['seteq(self.%s, old(self.%s) | old(other.%s))' % (f, f, f) for f in COPIED]
              + ['forall(lambda k: (k in self.params) == (old(k in self.params) or old(k in other.params)), "QN")',
                 'unchanged(self.globals)', 'unchanged(self.nonlocals)']
              + ['unchanged(other.%s)' % f for f in SETS]))

  # --- derived views -------------------------------------------------------------------------------
  # `referenced` is what the Namer reserves (C11): every name read OR bound in the scope or an ancestor.
  # Referenced(s) is the specification function defined by the unfolding
  #     Referenced(s) = s.read | s.bound | (Referenced(s.parent) if s.parent is not None else {})
  # (unique on the finite parent chain); the unfolding for `self` is assumed at exit as its definition.
  w.pure['prop.referenced'] = 'Set[QN]'
  UNFOLD = ('forall(lambda q: (q in self.referenced) == (q in self.read or q in self.bound or '
            '(self.parent is not None and q in self.parent.referenced)), "QN")')
  w.add(Contract(
      S + 'referenced', serves=['C08', 'C11'], types={'return': 'Set[QN]'}, modifies=[],
      exit_lemmas=[UNFOLD],
      ensures=['forall(lambda q: (q in result) == (q in self.referenced), "QN")',
               'subset(self.read, result)', 'subset(self.bound, result)'],
      assumes=['definition of the specification function Referenced (one unfolding, at exit)']))
  w.add(Contract(
      S + 'enclosing_scope', serves=['C08'], types={'return': 'Scope'}, modifies=[], asserts='raise',
      requires=['self.is_final'],
      ensures=['implies(self.parent is not None and not self.isolated, result is self.parent)',
               'implies(self.parent is None or self.isolated, result is self)']))
  w.add(Contract(
      S + 'free_vars', serves=['C08'], types={'return': 'Set[QN]'}, modifies=[], asserts='raise',
      requires=['self.is_final'],
      ensures=['implies(self.parent is not None and not self.isolated, '
               'seteq(result, self.parent.read - self.parent.bound))',
               'implies(self.parent is None or self.isolated, seteq(result, self.read - self.bound))']))
  w.add(Contract(
      S + 'mark_param', serves=['C08'], types={'name': 'QN', 'owner': 'AST'}, modifies=['contents(self.params)'],
      ensures=['name in self.params and self.params[name] is owner',
               'forall(lambda k: implies(k != name, (k in self.params) == old(k in self.params)), "QN")']))

  # --- the recorder ----------------------------------------------------------------------------------
  from pvc.world import ClassInfo
  w.add_class(ClassInfo('CompFrame', fields={'targets': 'Set[QN]', 'level': 'int'}))
  w.add_class(ClassInfo('TransformerState', fields={}))
  w.add_class(ClassInfo('ActivityAnalyzer', module='malt.pyct.static_analysis.activity', fields={
      'scope': 'Scope', '_in_aug_assign': 'bool', '_in_annotation': 'bool', '_track_annotations_only': 'bool',
      'state': 'TransformerState'}))
  w.add_class(ClassInfo('NameLike', bases=['AST'], fields={'ctx': 'AST'}))
  for cn in ('Store', 'Load', 'Del'):
    w.add_class(ClassInfo(cn, bases=['AST'], final=True))
  w.classes['QN'].fields['_parent'] = __import__('pvc.core', fromlist=['parse_type']).parse_type('Opt[QN]')
  w.field_types.setdefault('_parent', w.classes['QN'].fields['_parent'])
  w.classes['QN'].properties = list(getattr(w.classes['QN'], 'properties', [])) + ['parent']
  Q = 'malt.pyct.qual_names.QN.'
  w.add(Contract(
      Q + 'parent', serves=['C08'], types={'return': 'QN'}, modifies=[], pure={'str.%': 'str'},
      requires=['len(self.qn) >= 1'],
      raises={'ValueError': 'self._parent is None'},
      ensures=['result is self._parent']))

  A = 'malt.pyct.static_analysis.activity.ActivityAnalyzer.'
  PURE = {'malt.pyct.anno.hasanno': 'bool', 'malt.pyct.anno.getanno': 'QN',
          'TransformerState.__getitem__': 'List[CompFrame]', 'str.format': 'str', 'builtins.type': 'Any'}
  QNOF = 'anno.getanno(node, anno.Basic.QN)'
  ACTIVE = ('(not (self._track_annotations_only and not self._in_annotation) and anno.hasanno(node, anno.Basic.QN))')
  SC = ['read', 'modified', 'bound', 'deleted', 'annotations']

  def adds(setname, cond):
    """scope.<setname> afterwards = before + {qn} when cond, unchanged otherwise"""
    return ['implies(%s and (%s), seteq(self.scope.%s, old(self.scope.%s) | {%s}))' % (ACTIVE, cond, setname, setname, QNOF),
            'implies(not (%s and (%s)), unchanged(self.scope.%s))' % (ACTIVE, cond, setname)]
  ST, LD, DL = ('isinstance(node.ctx, ast.Store)', 'isinstance(node.ctx, ast.Load)', 'isinstance(node.ctx, ast.Del)')
  # property C08: "every variable [a statement] reads is in the statement's read set and every variable it
  # rebinds or deletes is in its modified or deleted set": outside comprehensions, a Name/Attribute/Subscript
  # node with a qualified name is recorded according to its context --
  #   Store: modified and bound (and read when part of an augmented assignment),
  #   Load:  read (and annotations inside an annotation),
  #   Del:   read, bound and deleted;
  # nothing is recorded when only annotations are tracked and this is not one, or when the node has no QN.
  w.add(Contract(
      A + '_track_symbol', serves=['C08'], pure=PURE,
      types={'node': 'NameLike', 'composite_writes_alter_parent': 'bool'},
      requires=['len(self.state[_Comprehension]) == 0 and self.state[_Comprehension].level == 0',
                'not self.scope.is_final', 'ScopeOwnsSets(self.scope)',
                'len(%s.qn) >= 1' % QNOF,
                '%s or %s or %s' % (ST, LD, DL)],
      modifies=['contents(self.scope.%s)' % f for f in SC],
      loops={0: dict(inv=[], modifies=[])},
      raises={'ValueError': '%s and %s and composite_writes_alter_parent and %s._parent is None' % (ACTIVE, ST, QNOF)},
      ensures=['implies(%s and %s and not composite_writes_alter_parent, seteq(self.scope.modified, old(self.scope.modified) | {%s}))'
               % (ACTIVE, ST, QNOF),
               # (`qn.is_composite` is a bound method, always true: with the flag the parent is recorded for every store)
               'implies(%s and %s and composite_writes_alter_parent, seteq(self.scope.modified, old(self.scope.modified) | {%s, %s._parent}))'
               % (ACTIVE, ST, QNOF, QNOF),
               'implies(not (%s and %s), unchanged(self.scope.modified))' % (ACTIVE, ST)]
              + adds('bound', '%s or %s' % (ST, DL))
              + adds('read', '%s or %s or (%s and self._in_aug_assign)' % (LD, DL, ST))
              + adds('deleted', DL) + adds('annotations', '%s and self._in_annotation' % LD),
      assumes=['anno.hasanno / anno.getanno are pure lookups', 'comprehension contexts are excluded (requires)',
               ]))
  w.add(Contract(
      A + '_enter_scope', serves=['C08'], types={'isolated': 'bool', 'f_name': 'Any'},
      inline=[S + '__init__'], modifies=['self.scope'], pure={'weakref.WeakValueDictionary': 'new:dict'},
      ensures=['fresh(self.scope)', 'self.scope.parent is old(self.scope)', 'self.scope.isolated == isolated',
               'not self.scope.is_final', 'ScopeOwnsSets(self.scope)']))

  w.add(Contract(
      A + '_exit_scope', serves=['C08'], types={'return': 'Scope'},
      requires=['not self.scope.is_final', 'self.scope.parent is not None',
                'not self.scope.parent.is_final and self.scope.parent is not self.scope and ScopeSeparate(self.scope)'],
      modifies=['self.scope', 'self.scope.is_final'] + ['contents(self.scope.parent.%s)' % f for f in
                                                        ('read', 'modified', 'bound', 'globals', 'nonlocals', 'annotations')],
      ensures=['result is old(self.scope)', 'result.is_final', 'self.scope is old(self.scope.parent)',
               'implies(not result.isolated, seteq(self.scope.read, old(self.scope.parent.read) | '
               '(old(self.scope.read) - old(self.scope.isolated_names))))',
               'implies(result.isolated, seteq(self.scope.read, old(self.scope.parent.read) | '
               '(old(self.scope.read) - (old(self.scope.bound) - old(self.scope.nonlocals)))))',
               'implies(result.isolated, seteq(self.scope.modified, old(self.scope.parent.modified)) '
               'and seteq(self.scope.bound, old(self.scope.parent.bound)))']))
