"""C06 -- reaching definitions: the _NodeState value type (assumed, run-time checked) and the transfer function."""
from pvc.world import Contract, ClassInfo

R = 'malt.pyct.static_analysis.reaching_definitions.'
PURE = {'malt.pyct.anno.hasanno': 'bool', 'malt.pyct.anno.getanno': 'Any', 'weakref.ref': 'Any',
        'method._definition_factory': 'new:Definition'}
SCOPE = 'anno.getanno(node.ast_node, anno.Static.SCOPE)'
HAS = 'anno.hasanno(node.ast_node, anno.Static.SCOPE)'
SAMEKEYS = 'forall(lambda k: (k in {a}.value) == (k in {b}.value))'


def register(w):
  w.add_class(ClassInfo('_NodeState', module='malt.pyct.static_analysis.reaching_definitions', eq='method',
                        fields={'value': 'Dict[QN,Set[Definition]]'}))
  w.add_class(ClassInfo('Definition', module='malt.pyct.static_analysis.reaching_definitions',
                        fields={'param_of': 'Any', 'directives': 'Any'}))
  w.add_class(ClassInfo('RDAnalyzer', pyname='Analyzer', module='malt.pyct.static_analysis.reaching_definitions',
                        bases=['GraphVisitor'], fields={
                            'in_': 'Dict[Node,_NodeState]', 'out': 'Dict[Node,_NodeState]',
                            'gen_map': 'Dict[Node,_NodeState]', '_definition_factory': 'Callable'}))
  # Defs(X, k, d): definition d of symbol k is in state X
  # _NodeState is a value type: its dict is written only inside its own methods, on the object being built
  # (syntactic frame obligation frame-scan/rd-nodestate-value, checked on every run), so what a state
  # contains is a function of the state object alone -- two ghost predicates, independent of the heap.
  w.pure['rd_defs'] = 'bool'
  w.pure['rd_haskey'] = 'bool'
  w.macros['Defs'] = (['X', 'k', 'd'], 'rd_defs(X, k, d)')
  w.macros['HasKey'] = (['X', 'k'], 'rd_haskey(X, k)')

  ASSUMED = ['assumed contract of the _NodeState value type, evaluated at run time by bounded/rt_nodestate.py '
             '(exhaustive over small states)']
  w.add(Contract(
      R + '_NodeState.__init__', abstract=True, serves=['C06'],
      ghost={'params': ['self', 'init_from'], 'defaults': {'init_from': None}},
      modifies=['self.value'],
      ensures=[
          'fresh(self.value)',
          'implies(init_from is None, forall(lambda k: not HasKey(self, k)))',
          'implies(init_from is None, forall(lambda k, d: not Defs(self, k, d)))',
          'implies(isinstance(init_from, _NodeState), forall(lambda k, d: Defs(self, k, d) == Defs(init_from, k, d)))',
          'implies(isinstance(init_from, _NodeState), forall(lambda k: HasKey(self, k) == HasKey(init_from, k)))',
          # from a plain dict symbol -> definition: one singleton set per key
          'implies(init_from is not None and not isinstance(init_from, _NodeState), '
          'forall(lambda k, d: Defs(self, k, d) == (k in init_from and d is init_from[k])))',
          'implies(init_from is not None and not isinstance(init_from, _NodeState), '
          'forall(lambda k: HasKey(self, k) == (k in init_from)))',
      ], assumes=ASSUMED))
  w.add(Contract(
      R + '_NodeState.__or__', abstract=True, serves=['C06'], ghost={'params': ['self', 'other']},
      types={'return': '_NodeState'}, modifies=[],
      ensures=['fresh(result)', 'result is not None',
               'forall(lambda k, d: Defs(result, k, d) == (Defs(self, k, d) or Defs(other, k, d)))',
               'forall(lambda k: HasKey(result, k) == (HasKey(self, k) or HasKey(other, k)))'],
      assumes=ASSUMED))
  w.add(Contract(
      R + '_NodeState.__sub__', abstract=True, serves=['C06'], ghost={'params': ['self', 'other']},
      types={'return': '_NodeState'}, modifies=[],
      ensures=['fresh(result)', 'result is not None',
               'forall(lambda k, d: Defs(result, k, d) == (Defs(self, k, d) and k not in other))',
               'forall(lambda k: HasKey(result, k) == (HasKey(self, k) and k not in other))'],
      assumes=ASSUMED))
  w.add(Contract(
      R + '_NodeState.__eq__', abstract=True, serves=['C06'], ghost={'params': ['self', 'other']},
      types={'return': 'bool'},
      ensures=['result == (forall(lambda k: HasKey(self, k) == HasKey(other, k)) and '
               'forall(lambda k, d: Defs(self, k, d) == Defs(other, k, d)))'],
      assumes=ASSUMED))

  GENKEY = ('((k in %s.bound or k in %s.globals) and k not in %s.deleted) or k in %s.params' % ((SCOPE,) * 4))
  INPRE = 'exists(lambda p: p in node.prev and old(Defs(self.out[p], k, d)), "Node")'
  INPREK = 'exists(lambda p: p in node.prev and old(HasKey(self.out[p], k)), "Node")'
  w.add(Contract(
      R + 'Analyzer.visit_node', serves=['C06'],
      types={'node': 'Node', 'return': 'bool'}, pure=PURE,
      asserts='raise', raises={'AssertionError': 'not %s' % HAS},
      requires=['node in self.out', 'self.in_ is not self.out', 'self.in_ is not self.gen_map',
                'self.out is not self.gen_map',
                # the scope annotation's parameter table is not one of the analyzer's own tables
                'implies(%s, %s.params is not self.in_ and %s.params is not self.out and %s.params is not self.gen_map)'
                % (HAS, SCOPE, SCOPE, SCOPE),
                'forall(lambda p: implies(p in node.prev, p in self.out), "Node")',
                'forall(lambda p: implies(p in self.out, self.out[p] is not None), "Node")',
                'forall(lambda p: implies(p in self.gen_map, self.gen_map[p] is not None), "Node")'],
      modifies=['contents(self.in_)', 'contents(self.out)', 'contents(self.gen_map)'],
      locals_={'node_scope': 'Scope', 'newly_defined': 'Set[QN]'},
      loops={
          0: dict(modifies=[], inv=[
              'defs_in is not None', 'fresh(defs_in)',
              'forall(lambda k, d: Defs(defs_in, k, d) == exists(lambda p: p in _done and Defs(self.out[p], k, d), "Node"))',
              'forall(lambda k: HasKey(defs_in, k) == exists(lambda p: p in _done and HasKey(self.out[p], k), "Node"))']),
          1: dict(modifies=['node_symbols'], inv=[
              'fresh(node_symbols)',
              'forall(lambda k: (k in node_symbols) == (k in _done))',
              'forall(lambda k: implies(k in node_symbols, fresh(node_symbols[k])))']),
          2: dict(modifies=['node_symbols'], inv=[
              'fresh(node_symbols)',
              'forall(lambda k: (k in node_symbols) == (k in newly_defined or k in _done))',   # _done = processed keys of params
              'forall(lambda k: implies(k in node_symbols, fresh(node_symbols[k])))']),
      },
      ensures=[
          'node in self.in_ and node in self.out',
          # in_[node] = join of the (pre-state) out states of the predecessors
          'forall(lambda k, d: Defs(self.in_[node], k, d) == %s)' % INPRE,
          'forall(lambda k: HasKey(self.in_[node], k) == %s)' % INPREK,
          # the generated definitions of a node are created once
          'implies(%s, node in self.gen_map)' % HAS,
          'implies(%s and old(node in self.gen_map), self.gen_map[node] is old(self.gen_map[node]))' % HAS,
          'implies(%s and not old(node in self.gen_map), forall(lambda k: HasKey(self.gen_map[node], k) == (%s)))'
          % (HAS, GENKEY),
          # out[node] = gen | (in - kill)
          'implies(%s, forall(lambda k, d: Defs(self.out[node], k, d) == (Defs(self.gen_map[node], k, d) or '
          '(Defs(self.in_[node], k, d) and k not in %s.modified and k not in %s.deleted))))' % (HAS, SCOPE, SCOPE),
          'implies(not %s, self.out[node] is self.in_[node])' % HAS,
          # nothing else in the three tables is touched
          'forall(lambda m: implies(m is not node, (m in self.in_) == old(m in self.in_) and (m in self.out) == old(m in self.out) '
          'and (m in self.gen_map) == old(m in self.gen_map)), "Node")',
          'forall(lambda m: implies(m is not node and old(m in self.in_), self.in_[m] is old(self.in_[m])), "Node")',
          'forall(lambda m: implies(m is not node and old(m in self.out), self.out[m] is old(self.out[m])), "Node")',
          'forall(lambda m: implies(m is not node and old(m in self.gen_map), self.gen_map[m] is old(self.gen_map[m])), "Node")',
          'self.in_[node] is not None and self.out[node] is not None',
          'implies(%s, self.gen_map[node] is not None)' % HAS,
          # revisit request <=> the out state changed
          'result == (not (forall(lambda k: HasKey(self.out[node], k) == old(HasKey(self.out[node], k))) and '
          'forall(lambda k, d: Defs(self.out[node], k, d) == old(Defs(self.out[node], k, d)))))',
      ],
      assumes=['definition_factory returns a fresh Definition object', 'weakref.ref is pure']))

  # ---- refinement lemma: the concrete transfer function satisfies the abstract visit_node contract of
  # cfg.GraphVisitor with  stable := {m | RDEq(self, m)}  and direction = forward
  def at(m, t):
    return t.replace('node', m)
  SCOPE_M = 'anno.getanno(m.ast_node, anno.Static.SCOPE)'
  HAS_M = 'anno.hasanno(m.ast_node, anno.Static.SCOPE)'
  w.macros['RDDom'] = (['self', 'm'], '(m in self.in_ and m in self.out and self.out[m] is not None and self.in_[m] is not None and '
                       'forall(lambda p: implies(p in m.prev, p in self.out and self.out[p] is not None), "Node"))')
  w.macros['RDIn'] = (['self', 'm'],
                      '(forall(lambda k, d: Defs(self.in_[m], k, d) == exists(lambda p: p in m.prev and Defs(self.out[p], k, d), "Node")) '
                      'and forall(lambda k: HasKey(self.in_[m], k) == exists(lambda p: p in m.prev and HasKey(self.out[p], k), "Node")))')
  w.macros['RDOut'] = (['self', 'm'],
                       '(implies(%s, m in self.gen_map and self.gen_map[m] is not None and forall(lambda k, d: Defs(self.out[m], k, d) == '
                       '(Defs(self.gen_map[m], k, d) or (Defs(self.in_[m], k, d) and k not in %s.modified and k not in %s.deleted)))) '
                       'and implies(not %s, self.out[m] is self.in_[m]))' % (HAS_M, SCOPE_M, SCOPE_M, HAS_M))
  w.macros['RDEq'] = (['self', 'm'], 'RDDom(self, m) and RDIn(self, m) and RDOut(self, m)')
  INV_G = 'forall(lambda a, b: (b in a.next) == (a in b.prev), "Node", "Node")'
  UNLESS = 'not (truthy(result) and m in node.next)'
  w.add(Contract(
      'lemma.C06.rd_visit_node_refines_abstract', serves=['C06'],
      in_module='malt.pyct.static_analysis.reaching_definitions',
      types={'self': 'RDAnalyzer', 'node': 'Node'}, pure=PURE,
      requires=[INV_G] + [r for r in w.contracts[R + 'Analyzer.visit_node'].requires] + [HAS + ' or True'],
      raises={'AssertionError': True},
      modifies=['contents(self.in_)', 'contents(self.out)', 'contents(self.gen_map)'],
      ensures=[
          'forall(lambda a, b: (b in a.next) == old(b in a.next) and (b in a.prev) == old(b in a.prev), "Node", "Node")',
          'forall(lambda x, e: implies(not fresh(x), (e in x.modified) == old(e in x.modified) and '
          '(e in x.deleted) == old(e in x.deleted)), "Scope", "Any")',
          # the visited node satisfies its equation (unless it is its own successor and its out state changed)
          'implies(not (truthy(result) and node in node.next), RDDom(self, node))',
          'implies(not (truthy(result) and node in node.next), RDIn(self, node))',
          'implies(not (truthy(result) and node in node.next), RDOut(self, node))',
          # every other node keeps its equation unless it reads the out state that changed
          'forall(lambda m: implies(m is not node and old(RDEq(self, m)) and %s, RDDom(self, m)), "Node")' % UNLESS,
          'forall(lambda m: implies(m is not node and old(RDEq(self, m)) and %s, RDIn(self, m)), "Node")' % UNLESS,
          'forall(lambda m: implies(m is not node and old(RDEq(self, m)) and %s, RDOut(self, m)), "Node")' % UNLESS,
      ],
      source='''
def lemma(self, node):
  return self.visit_node(node)
'''))
