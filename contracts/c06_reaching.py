"""C06 -- reaching definitions: the _NodeState value type (assumed, run-time checked) and the transfer function."""
from pvc.world import Contract, ClassInfo

R = 'malt.pyct.static_analysis.reaching_definitions.'
PURE = {'malt.pyct.anno.hasanno': 'bool', 'malt.pyct.anno.getanno': 'Any', 'weakref.ref': 'Any',
        'method._definition_factory': 'new:Definition'}
SCOPE = 'anno.getanno(node.ast_node, anno.Static.SCOPE)'
HAS = 'anno.hasanno(node.ast_node, anno.Static.SCOPE)'
SAMEKEYS = 'forall(lambda k: (k in {a}.value) == (k in {b}.value))'


def register(w):
  w.add_class(ClassInfo('_NodeState', module='malt.pyct.static_analysis.reaching_definitions', eq='method',
                        fields={'value': 'Dict[QN,Set[Definition]]'}))
  w.add_class(ClassInfo('Definition', module='malt.pyct.static_analysis.reaching_definitions',
                        fields={'param_of': 'Any', 'directives': 'Any'}))
  w.add_class(ClassInfo('RDAnalyzer', pyname='Analyzer', module='malt.pyct.static_analysis.reaching_definitions',
                        bases=['GraphVisitor'], fields={
                            'in_': 'Dict[Node,_NodeState]', 'out': 'Dict[Node,_NodeState]',
                            'gen_map': 'Dict[Node,_NodeState]', '_definition_factory': 'Callable'}))
  # Defs(X, k, d): definition d of symbol k is in state X
  w.macros['Defs'] = (['X', 'k', 'd'], '(k in X.value and d in X.value[k])')
  w.macros['HasKey'] = (['X', 'k'], '(k in X.value)')

  ASSUMED = ['assumed contract of the _NodeState value type, evaluated at run time by bounded/rt_nodestate.py '
             '(exhaustive over small states)']
  w.add(Contract(
      R + '_NodeState.__init__', abstract=True, serves=['C06'],
      ghost={'params': ['self', 'init_from'], 'defaults': {'init_from': None}},
      modifies=['self.value'],
      ensures=[
          'fresh(self.value)',
          'implies(init_from is None, forall(lambda k: not HasKey(self, k)))',
          'implies(isinstance(init_from, _NodeState), forall(lambda k, d: Defs(self, k, d) == Defs(init_from, k, d)))',
          'implies(isinstance(init_from, _NodeState), forall(lambda k: HasKey(self, k) == HasKey(init_from, k)))',
          # from a plain dict symbol -> definition: one singleton set per key
          'implies(init_from is not None and not isinstance(init_from, _NodeState), '
          'forall(lambda k, d: Defs(self, k, d) == (k in init_from and d is init_from[k])))',
          'implies(init_from is not None and not isinstance(init_from, _NodeState), '
          'forall(lambda k: HasKey(self, k) == (k in init_from)))',
      ], assumes=ASSUMED))
  w.add(Contract(
      R + '_NodeState.__or__', abstract=True, serves=['C06'], ghost={'params': ['self', 'other']},
      types={'return': '_NodeState'}, modifies=[],
      ensures=['fresh(result)', 'result is not None',
               'forall(lambda k, d: Defs(result, k, d) == (Defs(self, k, d) or Defs(other, k, d)))',
               'forall(lambda k: HasKey(result, k) == (HasKey(self, k) or HasKey(other, k)))'],
      assumes=ASSUMED))
  w.add(Contract(
      R + '_NodeState.__sub__', abstract=True, serves=['C06'], ghost={'params': ['self', 'other']},
      types={'return': '_NodeState'}, modifies=[],
      ensures=['fresh(result)', 'result is not None',
               'forall(lambda k, d: Defs(result, k, d) == (Defs(self, k, d) and k not in other))',
               'forall(lambda k: HasKey(result, k) == (HasKey(self, k) and k not in other))'],
      assumes=ASSUMED))
  w.add(Contract(
      R + '_NodeState.__eq__', abstract=True, serves=['C06'], ghost={'params': ['self', 'other']},
      types={'return': 'bool'},
      ensures=['result == (forall(lambda k: HasKey(self, k) == HasKey(other, k)) and '
               'forall(lambda k, d: Defs(self, k, d) == Defs(other, k, d)))'],
      assumes=ASSUMED))

  GENKEY = ('((k in %s.bound or k in %s.globals) and k not in %s.deleted) or k in %s.params' % ((SCOPE,) * 4))
  INPRE = 'exists(lambda p: p in node.prev and old(Defs(self.out[p], k, d)), "Node")'
  INPREK = 'exists(lambda p: p in node.prev and old(HasKey(self.out[p], k)), "Node")'
  w.add(Contract(
      R + 'Analyzer.visit_node', serves=[],   # DISABLED: the VCs are generated but z3 does not decide them yet (see DESIGN.md)
      types={'node': 'Node', 'return': 'bool'}, pure=PURE,
      asserts='raise', raises={'AssertionError': 'not %s' % HAS},
      requires=['node in self.out', 'self.in_ is not self.out', 'self.in_ is not self.gen_map',
                'self.out is not self.gen_map',
                'forall(lambda p: implies(p in node.prev, p in self.out), "Node")',
                'forall(lambda p: implies(p in self.out, self.out[p] is not None), "Node")',
                'forall(lambda p: implies(p in self.gen_map, self.gen_map[p] is not None), "Node")'],
      modifies=['contents(self.in_)', 'contents(self.out)', 'contents(self.gen_map)'],
      locals_={'node_scope': 'Scope', 'newly_defined': 'Set[QN]'},
      loops={
          0: dict(modifies=[], inv=[
              'defs_in is not None', 'fresh(defs_in)',
              'forall(lambda k, d: Defs(defs_in, k, d) == exists(lambda p: p in _done and Defs(self.out[p], k, d), "Node"))',
              'forall(lambda k: HasKey(defs_in, k) == exists(lambda p: p in _done and HasKey(self.out[p], k), "Node"))']),
          1: dict(modifies=['node_symbols'], inv=[
              'fresh(node_symbols)',
              'forall(lambda k: (k in node_symbols) == (k in _done))',
              'forall(lambda k: implies(k in node_symbols, fresh(node_symbols[k])))']),
          2: dict(modifies=['node_symbols'], inv=[
              'fresh(node_symbols)',
              'forall(lambda k: (k in node_symbols) == (k in newly_defined or k in _done))',   # _done = processed keys of params
              'forall(lambda k: implies(k in node_symbols, fresh(node_symbols[k])))']),
      },
      ensures=[
          'node in self.in_ and node in self.out',
          # in_[node] = join of the (pre-state) out states of the predecessors
          'forall(lambda k, d: Defs(self.in_[node], k, d) == %s)' % INPRE,
          'forall(lambda k: HasKey(self.in_[node], k) == %s)' % INPREK,
          # the generated definitions of a node are created once
          'implies(%s, node in self.gen_map)' % HAS,
          'implies(%s and old(node in self.gen_map), self.gen_map[node] is old(self.gen_map[node]))' % HAS,
          'implies(%s and not old(node in self.gen_map), forall(lambda k: HasKey(self.gen_map[node], k) == (%s)))'
          % (HAS, GENKEY),
          # out[node] = gen | (in - kill)
          'implies(%s, forall(lambda k, d: Defs(self.out[node], k, d) == (Defs(self.gen_map[node], k, d) or '
          '(Defs(self.in_[node], k, d) and k not in %s.modified and k not in %s.deleted))))' % (HAS, SCOPE, SCOPE),
          'implies(not %s, self.out[node] is self.in_[node])' % HAS,
          # revisit request <=> the out state changed
          'result == (not (forall(lambda k: HasKey(self.out[node], k) == old(HasKey(self.out[node], k))) and '
          'forall(lambda k, d: Defs(self.out[node], k, d) == old(Defs(self.out[node], k, d)))))',
      ],
      assumes=['definition_factory returns a fresh Definition object', 'weakref.ref is pure']))
