"""C19 -- closure types accumulate (malt/pyct/static_analysis/type_inference.py Analyzer._update_closure_types)."""
from pvc.world import Contract, ClassInfo

T = 'malt.pyct.static_analysis.type_inference.'
KEY = 'malt.pyct.anno.Static.CLOSURE_TYPES.'


def register(w):
  w.add_class(ClassInfo('_TypeMap', module='malt.pyct.static_analysis.type_inference', eq='method',
                        fields={'types': 'Dict[QN,Set[Any]]'}))
  w.add_class(ClassInfo('TIAnalyzer', pyname='Analyzer', module='malt.pyct.static_analysis.type_inference',
                        bases=['GraphVisitor']))
  # the CLOSURE_TYPES annotation of a function definition node, as a ghost field of the node
  # (T: anno.setanno / getanno store and return the annotation object itself)
  w.classes['AST'].fields['closure_types'] = __import__('pvc.core', fromlist=['parse_type']).parse_type('Opt[Dict[QN,Set[Any]]]')
  w.field_types.setdefault('closure_types', w.classes['AST'].fields['closure_types'])
  w.add(Contract(KEY + 'of', abstract=True, serves=['C19'], ghost={'params': ['node', 'default'], 'defaults': {'default': None}},
                 types={'node': 'AST', 'return': 'Opt[Dict[QN,Set[Any]]]'}, modifies=[],
                 ensures=['implies(node.closure_types is not None, result is node.closure_types)',
                          'implies(node.closure_types is None, result is default)'],
                 assumes=['T: annotation keys read the annotation that was stored (anno.getanno)']))
  w.add(Contract(KEY + 'add_to', abstract=True, serves=['C19'], ghost={'params': ['node', 'value']},
                 types={'node': 'AST', 'value': 'Dict[QN,Set[Any]]'}, modifies=['node.closure_types'],
                 ensures=['node.closure_types is value'],
                 assumes=['T: annotation keys store the object itself (anno.setanno)']))

  HAS = '(k in %s and t in %s[k])'
  NOW = HAS % ('ast_node.closure_types', 'ast_node.closure_types')
  NEW = HAS % ('types.types', 'types.types')
  EX = HAS % ('existing_types', 'existing_types')
  # property C19: "closure types recorded for a local function cover the types of the captured variables at
  # each call": recording never forgets a type that was recorded before, and afterwards every type of
  # every variable of the current map is recorded
  w.add(Contract(
      T + 'Analyzer._update_closure_types', serves=['C19'],
      types={'ast_node': 'AST', 'types': '_TypeMap'},
      locals_={'existing_types': 'Dict[QN,Set[Any]]'},
      requires=['types.types is not ast_node.closure_types',
                # a recorded set is never one of the sets of the map being recorded (ownership: set(v) copies)
                'forall(lambda a, b: implies(a in types.types and ast_node.closure_types is not None and b in ast_node.closure_types, '
                'types.types[a] is not ast_node.closure_types[b]), "QN", "QN")'],
      modifies=['*'],
      loops={0: dict(inv=[
          'existing_types is not None', 'ast_node.closure_types is existing_types',
          'unchanged(types.types)',
          'forall(lambda k, t: implies(k in types.types, (t in types.types[k]) == old(t in types.types[k])), "QN", "Any")',
          'types.types is not existing_types',
          'forall(lambda a, b: implies(a in types.types and b in existing_types, types.types[a] is not existing_types[b]), "QN", "QN")',
          # nothing recorded before is lost
          'forall(lambda k, t: implies(old(ast_node.closure_types is not None and %s), %s), "QN", "Any")' % (NOW, EX),
          # the entries handled so far are covered
          'forall(lambda k, t: implies(k in _done and %s, %s), "QN", "Any")' % (NEW, EX)])},
      ensures=['ast_node.closure_types is not None',
               'forall(lambda k, t: implies(old(ast_node.closure_types is not None and %s), %s), "QN", "Any")' % (NOW, NOW),
               'forall(lambda k, t: implies(old(%s), %s), "QN", "Any")' % (NEW, NOW)]))
