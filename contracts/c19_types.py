"""C19 -- closure types accumulate (malt/pyct/static_analysis/type_inference.py Analyzer._update_closure_types)."""
from pvc.world import Contract, ClassInfo

T = 'malt.pyct.static_analysis.type_inference.'
KEY = 'malt.pyct.anno.Static.CLOSURE_TYPES.'


def register(w):
  w.add_class(ClassInfo('_TypeMap', module='malt.pyct.static_analysis.type_inference', eq='method',
                        fields={'types': 'Dict[QN,Set[Any]]'}))
  w.add_class(ClassInfo('TIAnalyzer', pyname='Analyzer', module='malt.pyct.static_analysis.type_inference',
                        bases=['GraphVisitor']))
  # the CLOSURE_TYPES annotation of a function definition node, as a ghost field of the node
  # (T: anno.setanno / getanno store and return the annotation object itself)
  w.classes['AST'].fields['closure_types'] = __import__('pvc.core', fromlist=['parse_type']).parse_type('Opt[Dict[QN,Set[Any]]]')
  w.field_types.setdefault('closure_types', w.classes['AST'].fields['closure_types'])
  w.add(Contract(KEY + 'of', abstract=True, serves=['C19'], ghost={'params': ['node', 'default'], 'defaults': {'default': None}},
                 types={'node': 'AST', 'return': 'Opt[Dict[QN,Set[Any]]]'}, modifies=[],
                 ensures=['implies(node.closure_types is not None, result is node.closure_types)',
                          'implies(node.closure_types is None, result is default)'],
                 assumes=['T: annotation keys read the annotation that was stored (anno.getanno)']))
  w.add(Contract(KEY + 'add_to', abstract=True, serves=['C19'], ghost={'params': ['node', 'value']},
                 types={'node': 'AST', 'value': 'Dict[QN,Set[Any]]'}, modifies=['node.closure_types'],
                 ensures=['node.closure_types is value'],
                 assumes=['T: annotation keys store the object itself (anno.setanno)']))

  HAS = '(k in %s and t in %s[k])'
  NOW = HAS % ('ast_node.closure_types', 'ast_node.closure_types')
  NEW = HAS % ('types.types', 'types.types')
  EX = HAS % ('existing_types', 'existing_types')
  # property C19: "closure types recorded for a local function cover the types of the captured variables at
  # each call": recording never forgets a type that was recorded before, and afterwards every type of
  # every variable of the current map is recorded
  w.add(Contract(
      T + 'Analyzer._update_closure_types', serves=['C19'],
      types={'ast_node': 'AST', 'types': '_TypeMap'},
      locals_={'existing_types': 'Dict[QN,Set[Any]]'},
      requires=['types.types is not ast_node.closure_types',
                # a recorded set is never one of the sets of the map being recorded (ownership: set(v) copies)
                'forall(lambda a, b: implies(a in types.types and ast_node.closure_types is not None and b in ast_node.closure_types, '
                'types.types[a] is not ast_node.closure_types[b]), "QN", "QN")'],
      modifies=['*'],
      loops={0: dict(inv=[
          'existing_types is not None', 'ast_node.closure_types is existing_types',
          'unchanged(types.types)',
          'forall(lambda k, t: implies(k in types.types, (t in types.types[k]) == old(t in types.types[k])), "QN", "Any")',
          'types.types is not existing_types',
          'forall(lambda a, b: implies(a in types.types and b in existing_types, types.types[a] is not existing_types[b]), "QN", "QN")',
          # nothing recorded before is lost
          'forall(lambda k, t: implies(old(ast_node.closure_types is not None and %s), %s), "QN", "Any")' % (NOW, EX),
          # the entries handled so far are covered
          'forall(lambda k, t: implies(k in _done and %s, %s), "QN", "Any")' % (NEW, EX)])},
      ensures=['ast_node.closure_types is not None',
               'forall(lambda k, t: implies(old(ast_node.closure_types is not None and %s), %s), "QN", "Any")' % (NOW, NOW),
               'forall(lambda k, t: implies(old(%s), %s), "QN", "Any")' % (NEW, NOW)]))

  # ---- the value type of the type-inference states: joins are pointwise unions
  HASX = '(k in %s.types and t in %s.types[k])'
  w.add(Contract(
      T + '_TypeMap.__init__', serves=['C19'], types={'init_from': 'Opt[_TypeMap]'}, modifies=['self.types'], asserts='raise',
      ensures=['fresh(self.types)',
               'forall(lambda k: (k in self.types) == (init_from is not None and k in init_from.types), "QN")',
               'forall(lambda k, t: %s == (init_from is not None and %s), "QN", "Any")' % (HASX % ('self', 'self'), HASX % ('init_from', 'init_from')),
               # a copy owns its sets
               'forall(lambda k: implies(k in self.types, fresh(self.types[k])), "QN")',
               'forall(lambda a, b: implies(a in self.types and b in self.types and a is not b, self.types[a] is not self.types[b]), "QN", "QN")']))

  UNION = '(%s or %s)' % (HASX % ('self', 'self'), HASX % ('other', 'other'))
  w.add(Contract(
      T + '_TypeMap.__or__', serves=['C19'], types={'other': '_TypeMap', 'return': '_TypeMap'}, modifies=[], asserts='raise',
      requires=['self is not other',
                # states own their sets (established by __init__'s copy)
                'forall(lambda a, b: implies(a in self.types and b in other.types, self.types[a] is not other.types[b]), "QN", "QN")'],
      locals_={'result': '_TypeMap', 'self_types': 'Set[Any]'},
      loops={0: dict(modifies=['fresh'], inv=[
          'result is not None', 'fresh(result)', 'fresh(result.types)',
          'forall(lambda k: implies(k in result.types, fresh(result.types[k])), "QN")',
          'forall(lambda a, b: implies(a in result.types and b in result.types and a is not b, result.types[a] is not result.types[b]), "QN", "QN")',
          'unchanged(other.types)', 'unchanged(self.types)',
          'forall(lambda k, t: implies(k in other.types, (t in other.types[k]) == old(t in other.types[k])), "QN", "Any")',
          'forall(lambda k, t: implies(k in self.types, (t in self.types[k]) == old(t in self.types[k])), "QN", "Any")',
          'forall(lambda k, t: %s == (%s or (k in _done and %s)), "QN", "Any")'
          % (HASX % ('result', 'result'), HASX % ('self', 'self'), HASX % ('other', 'other'))])},
      ensures=['fresh(result)', 'forall(lambda k, t: %s == %s, "QN", "Any")' % (HASX % ('result', 'result'), UNION),
               'forall(lambda k, t: %s == old(%s), "QN", "Any")' % (HASX % ('self', 'self'), HASX % ('self', 'self')),
               'forall(lambda k, t: %s == old(%s), "QN", "Any")' % (HASX % ('other', 'other'), HASX % ('other', 'other'))]))
