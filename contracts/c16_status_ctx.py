"""C16 -- conversion-status context stack (malt/core/ag_ctx.py, function_wrappers.py, api wrappers).

Ghost view of the state: the current thread's stack is the list stored in the attribute
`control_status` of the threading.local object `stacks` (T: threading.local gives each thread its
own attribute namespace, so everything proved here about `stacks.control_status` is per thread).
"""
from pvc.world import Contract, ClassInfo

A = 'malt.core.ag_ctx.'
STK = 'stacks.control_status'
HAS = 'hasattr(stacks, "control_status")'
WF = 'implies(%s, len(%s) >= 1)' % (HAS, STK)          # well-formed: an initialised stack is never empty

PUSHED = ('implies(old({has}), {s} is old({s}) and len({s}) == old(len({s})) + 1 and '
          'forall(lambda i: implies(0 <= i and i < old(len({s})), {s}[i] is old({s}[i])), "int"))').format(has=HAS, s=STK)
POPPED = ('{s} is old({s}) and len({s}) == old(len({s})) - 1 and '
          'forall(lambda i: implies(0 <= i and i < len({s}), {s}[i] is old({s}[i])), "int")').format(s=STK)
# what "the callee leaves the stack as it found it" means (induction hypothesis over call depth)
CALLEE_BALANCED = [HAS, 'unchanged(%s)' % STK]
RESTORED = ['implies(old(%s), unchanged(%s))' % (HAS, STK),
            'implies(not old(%s), %s and len(%s) == 1)' % (HAS, HAS, STK)]


def Q(s):
  return s.replace('stacks', 'ag_ctx.stacks')


def register(w):
  w.global_objects['malt.core.ag_ctx.stacks'] = 'ThreadLocal'
  w.add_class(ClassInfo('ThreadLocal', fields={'control_status': 'List[ControlStatusCtx]'}))
  w.add_class(ClassInfo('ControlStatusCtx', module='malt.core.ag_ctx',
                        fields={'status': 'Any', 'options': 'Any'}))
  w.add_class(ClassInfo('NullCtx', module='malt.core.ag_ctx'))
  w.add_class(ClassInfo('FunctionScope', module='malt.operators.function_wrappers', fields={
      'name': 'Any', 'options': 'ConversionOptions', 'autograph_ctx': 'ControlStatusCtx',
      'callopts': 'ConversionOptions', 'use_name_scope': 'bool', 'use_auto_deps': 'bool'}))

  w.add(Contract(
      A + '_control_ctx', serves=['C16'], types={'return': 'List[ControlStatusCtx]'},
      inline=[A + '_default_control_status_ctx'],
      requires=[WF],
      modifies=['stacks.control_status'],
      ensures=[HAS, 'result is ' + STK, 'len(result) >= 1',
               'implies(old(%s), unchanged(%s))' % (HAS, STK),
               'implies(not old(%s), fresh(result) and len(result) == 1 and '
               'result[0].status is Status.UNSPECIFIED)' % HAS],
      assumes=['T: threading.local attributes are per thread']))

  w.add(Contract(
      A + 'control_status_ctx', serves=['C16'], types={'return': 'ControlStatusCtx'},
      requires=[WF], modifies=['stacks.control_status'],
      ensures=[HAS, 'result is %s[-1]' % STK,
               'implies(old(%s), unchanged(%s))' % (HAS, STK),
               'implies(not old(%s), len(%s) == 1)' % (HAS, STK)]))

  w.add(Contract(
      A + 'ControlStatusCtx.__enter__', serves=['C16'], types={'return': 'ControlStatusCtx'},
      requires=[WF],
      modifies=['stacks.control_status', 'contents(%s)' % STK],
      ensures=[HAS, 'result is self', '%s[-1] is self' % STK, 'len(%s) >= 2' % STK, PUSHED,
               'implies(not old(%s), len(%s) == 2 and fresh(%s))' % (HAS, STK, STK)]))

  w.add(Contract(
      A + 'ControlStatusCtx.__exit__', serves=['C16'],
      requires=[HAS, 'len(%s) >= 2' % STK, '%s[-1] is self' % STK],
      modifies=['contents(%s)' % STK],
      ensures=[HAS, POPPED]))

  w.add(Contract(A + 'NullCtx.__enter__', serves=['C16'], ensures=['result is None']))
  w.add(Contract(A + 'NullCtx.__exit__', serves=['C16'], ensures=['result is None'],
                 types={'unused_type': 'Any', 'unused_value': 'Any', 'unused_traceback': 'Any'}))

  F = 'malt.operators.function_wrappers.'
  NOSCOPES = ['Feature.ALL not in options.optional_features',
              'Feature.NAME_SCOPES not in options.optional_features',
              'Feature.AUTO_CONTROL_DEPS not in options.optional_features']
  w.add(Contract(
      F + 'FunctionScope.__init__', serves=['C16', 'C20'],
      types={'options': 'ConversionOptions', 'function_name': 'Any', 'scope_name': 'Any'},
      requires=[r.replace('Feature.', 'converter.Feature.') for r in NOSCOPES],
      modifies=['self.name', 'self.options', 'self.autograph_ctx', 'self.callopts', 'self.use_name_scope',
                'self.use_auto_deps'],
      ensures=['self.options is options', 'self.name is scope_name',
               'not self.use_name_scope', 'not self.use_auto_deps',
               'implies(options.user_requested, fresh(self.autograph_ctx) and '
               'self.autograph_ctx.status is ag_ctx.Status.ENABLED and self.autograph_ctx.options is options)',
               # C20: the options handed to callees
               'fresh(self.callopts)', 'self.callopts.recursive == options.recursive',
               'self.callopts.user_requested == False',
               'self.callopts.internal_convert_user_code == options.recursive',
               'seteq(self.callopts.optional_features, options.optional_features)']))

  FS_PRE = [Q(WF), 'not self.use_name_scope', 'not self.use_auto_deps']
  w.add(Contract(
      F + 'FunctionScope.__enter__', serves=['C16'], types={'return': 'FunctionScope'},
      requires=FS_PRE,
      modifies=['ag_ctx.stacks.control_status', 'contents(%s)' % Q(STK)],
      ensures=['result is self',
               'implies(self.options.user_requested, %s and %s[-1] is self.autograph_ctx and len(%s) >= 2)'
               % (Q(HAS), Q(STK), Q(STK)),
               'implies(self.options.user_requested, ' + Q(PUSHED) + ')',
               'implies(self.options.user_requested and not old(%s), len(%s) == 2)' % (Q(HAS), Q(STK)),
               'implies(not self.options.user_requested, iff(%s, old(%s)) and implies(%s, unchanged(%s)))'
               % (Q(HAS), Q(HAS), Q(HAS), Q(STK))]))

  w.add(Contract(
      F + 'FunctionScope.__exit__', serves=['C16'],
      types={'exc_type': 'Any', 'exc_val': 'Any', 'exc_tb': 'Any'},
      requires=['not self.use_name_scope', 'not self.use_auto_deps',
                'implies(self.options.user_requested, %s and len(%s) >= 2 and %s[-1] is self.autograph_ctx)'
                % (Q(HAS), Q(STK), Q(STK))],
      modifies=['contents(%s)' % Q(STK)],
      ensures=['implies(self.options.user_requested, ' + Q(POPPED) + ')',
               'implies(not self.options.user_requested, iff(%s, old(%s)) and implies(%s, unchanged(%s)))'
               % (Q(HAS), Q(HAS), Q(HAS), Q(STK)),
               'not truthy(result)']))

  # ---- with-rule users: the stack after the wrapper is the stack before, returning or raising
  w.add(Contract(
      F + 'with_function_scope', serves=['C16'],
      types={'thunk': 'Callable', 'options': 'ConversionOptions', 'scope_name': 'Any'},
      requires=[Q(WF)] + [r.replace('Feature.', 'converter.Feature.') for r in NOSCOPES],
      modifies=['*'], mode='vc',
      opaque_requires=['implies(options.user_requested, ag_ctx.stacks.control_status[-1].status is '
                       'ag_ctx.Status.ENABLED)'],
      opaque_preserves=CALLEE_BALANCED_IF_INIT() + [
          'not scope.use_name_scope', 'not scope.use_auto_deps', 'scope.options is old(scope.options)',
          'scope.autograph_ctx is old(scope.autograph_ctx)',
          'scope.options.user_requested == old(scope.options.user_requested)'],
      assumes=['induction hypothesis over call depth: the thunk leaves the status stack as it found it, '
               'returning or raising', 'the thunk does not assign attributes of its FunctionScope / options'],
      raises={'OpaqueException': True},
      ensures=RESTORED_FS(), exc_ensures={'OpaqueException': RESTORED_FS()}))

  I = 'malt.impl.api.'
  for fn, status in (('do_not_convert', 'DISABLED'), ('call_with_unspecified_conversion_status', 'UNSPECIFIED')):
    w.add(Contract(
        I + fn + '.<locals>.wrapper', serves=['C16'],
        locals_={'captured:func': 'Callable'},
        requires=[WF.replace('stacks', 'ag_ctx.stacks')],
        modifies=['*'],
        opaque_preserves=[p.replace('stacks', 'ag_ctx.stacks') for p in CALLEE_BALANCED],
        opaque_requires=['ag_ctx.stacks.control_status[-1].status is ag_ctx.Status.%s' % status],
        raises={'OpaqueException': True},
        ensures=[r.replace('stacks', 'ag_ctx.stacks') for r in RESTORED],
        exc_ensures={'OpaqueException': [r.replace('stacks', 'ag_ctx.stacks') for r in RESTORED]},
        ghost={'_status': 'Any'},
        assumes=['induction hypothesis over call depth: the wrapped callee leaves the status stack as it '
                 'found it, returning or raising (the only assumption about user code)']))


def CALLEE_BALANCED_IF_INIT():
  # inside with_function_scope the stack may be uninitialised when user_requested is false
  return ['iff(%s, old(%s))' % (HAS.replace('stacks', 'ag_ctx.stacks'), HAS.replace('stacks', 'ag_ctx.stacks')),
          'implies(%s, unchanged(%s))' % (HAS.replace('stacks', 'ag_ctx.stacks'), STK.replace('stacks', 'ag_ctx.stacks'))]


def RESTORED_FS():
  h, s = HAS.replace('stacks', 'ag_ctx.stacks'), STK.replace('stacks', 'ag_ctx.stacks')
  return ['implies(old(%s), unchanged(%s))' % (h, s),
          'implies(not old(%s) and options.user_requested, %s and len(%s) == 1)' % (h, h, s),
          'implies(not old(%s) and not options.user_requested, not %s)' % (h, h)]
