"""C01/C03 -- the default operator implementations ARE the native constructs (event mode)."""
from pvc.world import Contract, ClassInfo

O = 'malt.operators.'


def register(w):
  w.add_class(ClassInfo('Undefined', module='malt.operators.variables', fields={'symbol_name': 'Any'}))
  w.add_class(ClassInfo('UndefinedReturnValue', module='malt.operators.variables'))
  w.add_class(ClassInfo('TypeRegistry', module='malt.utils.type_registry'))
  w.global_objects['malt.operators.control_flow.for_loop_registry'] = 'TypeRegistry'
  # precondition of the fall-back path (property: "default (pure-Python) operator implementations"):
  # no override is registered, so the registry lookup raises LookupError
  w.add(Contract('malt.utils.type_registry.TypeRegistry.lookup', abstract=True, serves=[],
                 ghost={'params': ['self', 'o']}, modifies=[], raises={'LookupError': True},
                 ensures=['False'], note='registries are empty by default (assumed)'))

  def ev(name, spec, serves=('C01',), **kw):
    w.add(Contract(O + name, mode='event', spec=spec, serves=list(serves), **kw))

  ev('control_flow._py_if_stmt', '''
def spec(cond, body, orelse):
  return body() if cond else orelse()
''', serves=('C01', 'C03'))
  ev('control_flow.if_stmt', '''
def spec(cond, body, orelse, get_state, set_state, symbol_names, nouts):
  if cond:
    body()
  else:
    orelse()
''', serves=('C01', 'C03'), inline=[O + 'control_flow._py_if_stmt'])
  ev('control_flow._py_while_stmt', '''
def spec(test, body, get_state, set_state, opts):
  while test():
    body()
''', serves=('C01', 'C03'))
  ev('control_flow.while_stmt', '''
def spec(test, body, get_state, set_state, symbol_names, opts):
  while test():
    body()
''', serves=('C01', 'C03'), inline=[O + 'control_flow._py_while_stmt'])
  FOR_SPEC = '''
def spec(iter_, extra_test, body, get_state, set_state, symbol_names, opts):
  if extra_test is None:
    for target in iter_:
      body(target)
  else:
    # evaluate extra_test before the first fetch and after every body; once it is false nothing
    # more is fetched from the iterable
    if extra_test():
      for target in iter_:
        body(target)
        if not extra_test():
          break
'''
  ev('control_flow._py_for_stmt', FOR_SPEC, serves=('C01', 'C03'))
  ev('control_flow.for_stmt', FOR_SPEC, serves=('C01', 'C03'), inline=[O + 'control_flow._py_for_stmt'])
  ev('logical.and_', '''
def spec(a, b):
  return a() and b()
''', inline=[O + 'logical._py_lazy_and'])
  ev('logical.or_', '''
def spec(a, b):
  return a() or b()
''', inline=[O + 'logical._py_lazy_or'])
  ev('logical.not_', '''
def spec(a):
  return not a
''', inline=[O + 'logical._py_not'])
  ev('logical.eq', '''
def spec(a, b):
  return a == b
''', inline=[O + 'logical._py_equal'])
  ev('logical.not_eq', '''
def spec(a, b):
  return not (a == b)
''', inline=[O + 'logical._py_equal', O + 'logical._py_not', O + 'logical.not_', O + 'logical.eq'])
  ev('conditional_expressions.if_exp', '''
def spec(cond, if_true, if_false, expr_repr):
  return if_true() if cond else if_false()
''', inline=[O + 'conditional_expressions._py_if_exp'])
  ev('variables.ld', '''
def spec(v):
  if isinstance(v, Undefined):
    raise UnboundLocalError('used before assignment')
  return v
''', inline=[O + 'variables.Undefined.read'])
  ev('variables.ldu', '''
def spec(load_v, name):
  try:
    return load_v()
  except (KeyError, AttributeError, NameError):
    return Undefined(name)
''', serves=('C01', 'C03'), pure={O + 'variables.Undefined': 'Any'})
  ev('function_wrappers.FunctionScope.ret', '''
def spec(self, value, did_return):
  if isinstance(value, variables.UndefinedReturnValue):
    return None
  return value
''')
