"""Class tables shared by several contract modules (loaded first)."""
from pvc.world import ClassInfo


def register(w):
  w.add_class(ClassInfo('AST'))
  # attributes of arbitrary Python callables read by name
  w.add_class(ClassInfo('PyCallable', fields={
      '__code__': 'Any', '__func__': 'Any', '__self__': 'Any', '__closure__': 'Any', '__globals__': 'Any',
      '__defaults__': 'Any', '__kwdefaults__': 'Any', '__class__': 'Any', '__call__': 'Any', '__module__': 'Any',
      'func': 'Any', 'args': 'Any', 'keywords': 'Any', 'co_filename': 'Any', 'co_freevars': 'Any'}))
  w.add_class(ClassInfo('Scope', module='malt.pyct.static_analysis.activity', fields={
      'read': 'Set[QN]', 'modified': 'Set[QN]', 'deleted': 'Set[QN]', 'bound': 'Set[QN]',
      'globals': 'Set[QN]', 'nonlocals': 'Set[QN]', 'annotations': 'Set[QN]',
      'isolated_names': 'Set[QN]', 'params': 'Dict[QN,AST]', 'parent': 'Opt[Scope]',
      'isolated': 'bool', 'is_final': 'bool', 'function_name': 'Any'},
      properties=['enclosing_scope', 'referenced', 'free_vars']))
  w.add_class(ClassInfo('QN', module='malt.pyct.qual_names', eq='value', fields={'support_set': 'Set[QN]'}))
  w.add_class(ClassInfo('Lambda', bases=['AST']))
