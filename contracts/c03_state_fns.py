"""C03 -- "getter/setter generated from one ordered list of block variables" (converters/control_flow.py)."""
from pvc.world import Contract, ClassInfo

CF = 'malt.converters.control_flow.ControlFlowTransformer.'


def register(w):
  PURE = {'malt.pyct.templates.replace_as_expression': 'AST', 'malt.pyct.templates.replace': 'Any',
          'ast.Constant': 'AST', 'builtins.str': 'str', 'method.is_simple': 'bool'}
  WRAP = ("templates.replace_as_expression('ag__.ldu(lambda: var_, name)', name=ast.Constant(str(block_vars[i])), "
          "var_=block_vars[i])")
  # property C03: "the tuple returned by the state getter and the tuple accepted by the state setter have
  # equal length and denote, position by position, the same variables": the getter's list has one entry per
  # block variable, in the same order -- the variable itself when it is a simple name, its ldu-guarded read
  # when it is composite -- and the template receives that list for the getter and tuple(block_vars) for
  # the setter
  w.add(Contract(
      CF + '_create_state_functions', serves=['C03', 'C02'], pure=PURE,
      types={'block_vars': 'List[QN]', 'nonlocal_declarations': 'Any', 'getter_name': 'Any', 'setter_name': 'Any'},
      modifies=[],
      locals_={'guarded_block_vars': 'List[Any]'},
      loops={0: dict(modifies=['guarded_block_vars'], inv=[
          'fresh(guarded_block_vars)', 'len(guarded_block_vars) == _i',
          'forall(lambda i: implies(0 <= i and i < _i and block_vars[i].is_simple(), guarded_block_vars[i] is block_vars[i]), "int")',
          'forall(lambda i: implies(0 <= i and i < _i and not block_vars[i].is_simple(), guarded_block_vars[i] is %s), "int")' % WRAP])},
      ensures=[
          'implies(len(block_vars) > 0, len(final_guarded_block_vars) == len(block_vars))',
          'implies(len(block_vars) > 0, forall(lambda i: implies(0 <= i and i < len(block_vars) and block_vars[i].is_simple(), '
          'final_guarded_block_vars[i] is block_vars[i]), "int"))',
          'implies(len(block_vars) > 0, forall(lambda i: implies(0 <= i and i < len(block_vars) and not block_vars[i].is_simple(), '
          'final_guarded_block_vars[i] is %s), "int"))' % WRAP,
      ],
      assumes=['templates.replace / replace_as_expression / ast.Constant / str are pure constructors of AST values',
               'which list the final template call receives is compared by the bounded stand-in c03_opcontract (the proof '
               'covers the construction of the getter list)']))
