"""C02/C03 -- state-variable selection of control_flow.ControlFlowTransformer (DESIGN.md A.2)."""
from pvc.world import Contract, ClassInfo

CF = 'malt.converters.control_flow.ControlFlowTransformer.'
PURE = {'malt.pyct.anno.getanno': 'Any', 'malt.pyct.anno.hasanno': 'bool',
        'method.is_composite': 'bool', 'method.is_symbol': 'bool', 'method.is_simple': 'bool',
        'StateTracker.__getitem__': '_Function'}
NONLOC = 'self.state[_Function].scope.nonlocals'
GLOB = 'self.state[_Function].scope.globals'

def basic(v, live_in, live_out):
  return ('(%s in modified and not %s.is_composite() and (%s in %s or %s in %s or %s in %s))'
          % (v, v, v, live_in, v, live_out, v, NONLOC))


def composite(v, live_in):
  return ('(%s in modified and %s.is_composite() and '
          'forall(lambda q: implies(q in %s.support_set and q.is_symbol(), q in %s)))' % (v, v, v, live_in))


BASIC = basic('s', 'live_in', 'live_out')
COMPOSITE = composite('s', 'live_in')

DEF_IN = 'anno.getanno(node, anno.Static.DEFINED_VARS_IN)'
LIVE_IN = 'anno.getanno(node, anno.Static.LIVE_VARS_IN)'
LIVE_OUT = 'anno.getanno(node, anno.Static.LIVE_VARS_OUT)'


def sub(t, **kw):
  for k, v in kw.items():
    t = t.replace(k, v)
  return t


def register(w):
  w.add_class(ClassInfo('StateTracker'))
  w.add_class(ClassInfo('_Function', module='malt.converters.control_flow', fields={'scope': 'Scope'}))
  w.add_class(ClassInfo('ControlFlowTransformer', module='malt.converters.control_flow',
                        fields={'state': 'StateTracker'}))

  w.add(Contract(
      CF + '_get_block_basic_vars', serves=['C02', 'C03'],
      types={'modified': 'Set[QN]', 'live_in': 'Set[QN]', 'live_out': 'Set[QN]', 'return': 'FrozenSet[QN]'},
      pure=PURE, modifies=[],
      loops={0: dict(modifies=['basic_scope_vars'],
                     inv=['forall(lambda s: (s in basic_scope_vars) == (s in _done and %s), "QN")' % BASIC,
                          'fresh(basic_scope_vars)'])},
      ensures=['forall(lambda s: (s in result) == %s, "QN")' % BASIC, 'fresh(result)'],
      assumes=['QN.is_composite/is_symbol are pure functions of the qualified name']))

  w.add(Contract(
      CF + '_get_block_composite_vars', serves=['C02', 'C03'],
      types={'modified': 'Set[QN]', 'live_in': 'Set[QN]', 'return': 'FrozenSet[QN]'},
      pure=PURE, modifies=[],
      loops={0: dict(modifies=['composite_scope_vars'],
                     inv=['forall(lambda s: (s in composite_scope_vars) == (s in _done and %s), "QN")' % COMPOSITE,
                          'fresh(composite_scope_vars)'])},
      ensures=['forall(lambda s: (s in result) == %s, "QN")' % COMPOSITE, 'fresh(result)'],
      assumes=['QN.support_set is a pure function of the qualified name (modelled as a field)']))

  B = basic('v', LIVE_IN, LIVE_OUT)
  C = composite('v', LIVE_IN)
  R = 'result[0][i]'
  INPUT_ONLY = '(%s and %s in %s and %s not in %s)' % (basic(R, LIVE_IN, LIVE_OUT), R, LIVE_IN, R, LIVE_OUT)
  w.add(Contract(
      CF + '_get_block_vars', serves=['C02', 'C03'],
      types={'node': 'AST', 'modified': 'Set[QN]', 'return': 'Tuple[List[QN],Seq[QN],int]'},
      pure=PURE, modifies=[],
      locals_={'defined_in': 'Set[QN]', 'live_in': 'Set[QN]', 'live_out': 'Set[QN]'},
      exit_lemmas=[
          # trusted mathematics (finite sets): in a duplicate-free list whose elements not in T all precede
          # its elements in T, and which contains every element of T, the elements in T are the last |T| ones
          'implies(distinct(final_scope_vars) and subset(final_input_only, final_scope_vars) and '
          'forall(lambda i, j: implies(0 <= i and i < j and j < len(final_scope_vars), '
          'not (final_scope_vars[i] in final_input_only and final_scope_vars[j] not in final_input_only)), "int", "int"), '
          'len(final_input_only) <= len(final_scope_vars) and '
          'forall(lambda i: implies(0 <= i and i < len(final_scope_vars), '
          '(final_scope_vars[i] in final_input_only) == (i >= len(final_scope_vars) - len(final_input_only))), "int"))'],
      ensures=[
          'len(result) == 3',
          # the state tuple is exactly basic | composite, without repetition
          'forall(lambda v: (v in result[0]) == (%s or %s), "QN")' % (B, C),
          'distinct(result[0])',
          # outputs first: exactly the variables that are only inputs sit at index >= nouts
          '0 <= result[2] and result[2] <= len(result[0])',
          'forall(lambda i: implies(0 <= i and i < len(result[0]), '
          '(i >= result[2]) == %s), "int")' % INPUT_ONLY,
          # variables that must be pre-initialised as Undefined
          'forall(lambda v: (v in result[1]) == (v in modified and v not in %s and v not in %s and v not in %s '
          'and not v.is_composite()), "QN")' % (DEF_IN, GLOB, NONLOC),
      ],
      assumes=['trusted mathematics: finite-set partition lemma (exit_lemmas)',
               'sorted() is a permutation ordered by the key; tuple(set) enumerates without repetition']))
