"""C13 -- conversion policy helpers (config_lib rules)."""
from pvc.world import Contract, ClassInfo

CL = 'malt.core.config_lib.'


def register(w):
  w.add_class(ClassInfo('Rule', module='malt.core.config_lib', fields={'_prefix': 'str'}))
  w.add_class(ClassInfo('DoNotConvert', module='malt.core.config_lib', bases=['Rule']))
  w.add_class(ClassInfo('Convert', module='malt.core.config_lib', bases=['Rule']))
  w.add_class(ClassInfo('PyModule', fields={'__name__': 'str'}))

  # a rule for package `a.b` matches `a.b` and everything below it, but not `a.bc`
  w.add(Contract(
      CL + 'Rule.matches', serves=['C13'], types={'module_name': 'str', 'return': 'bool'},
      ensures=['result == (module_name == self._prefix or module_name.startswith(self._prefix + "."))']))
  w.add(Contract(
      CL + 'DoNotConvert.get_action', serves=['C13'], types={'module': 'PyModule'},
      ensures=['implies(module.__name__ == self._prefix or module.__name__.startswith(self._prefix + "."), '
               'result is Action.DO_NOT_CONVERT)',
               'implies(not (module.__name__ == self._prefix or module.__name__.startswith(self._prefix + ".")), '
               'result is Action.NONE)']))
  w.add(Contract(
      CL + 'Convert.get_action', serves=['C13'], types={'module': 'PyModule'},
      ensures=['implies(module.__name__ == self._prefix or module.__name__.startswith(self._prefix + "."), '
               'result is Action.CONVERT)',
               'implies(not (module.__name__ == self._prefix or module.__name__.startswith(self._prefix + ".")), '
               'result is Action.NONE)']))
