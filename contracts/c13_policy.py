"""C13 -- conversion policy helpers (config_lib rules)."""
from pvc.world import Contract, ClassInfo

CL = 'malt.core.config_lib.'


def register(w):
  w.add_class(ClassInfo('Rule', module='malt.core.config_lib', fields={'_prefix': 'str'}))
  w.add_class(ClassInfo('DoNotConvert', module='malt.core.config_lib', bases=['Rule']))
  w.add_class(ClassInfo('Convert', module='malt.core.config_lib', bases=['Rule']))
  w.add_class(ClassInfo('PyModule', fields={'__name__': 'str'}))

  # a rule for package `a.b` matches `a.b` and everything below it, but not `a.bc`
  w.add(Contract(
      CL + 'Rule.matches', serves=['C13'], types={'module_name': 'str', 'return': 'bool'},
      ensures=['result == (module_name == self._prefix or module_name.startswith(self._prefix + "."))']))
  w.add(Contract(
      CL + 'DoNotConvert.get_action', serves=['C13'], types={'module': 'PyModule'},
      ensures=['implies(module.__name__ == self._prefix or module.__name__.startswith(self._prefix + "."), '
               'result is Action.DO_NOT_CONVERT)',
               'implies(not (module.__name__ == self._prefix or module.__name__.startswith(self._prefix + ".")), '
               'result is Action.NONE)']))
  w.add(Contract(
      CL + 'Convert.get_action', serves=['C13'], types={'module': 'PyModule'},
      ensures=['implies(module.__name__ == self._prefix or module.__name__.startswith(self._prefix + "."), '
               'result is Action.CONVERT)',
               'implies(not (module.__name__ == self._prefix or module.__name__.startswith(self._prefix + ".")), '
               'result is Action.NONE)']))

  # ---------------------------------------------------------------- the call wrapper (event mode)
  A = 'malt.impl.api.'
  PUREP = {
      'malt.impl.conversion.is_in_allowlist_cache': 'bool', 'malt.impl.conversion.is_unsupported': 'bool',
      'malt.impl.conversion.is_allowlisted': 'bool', 'malt.pyct.inspect_utils.isbuiltin': 'bool',
      'inspect.ismethod': 'bool', 'inspect.isfunction': 'bool',
      'malt.impl.api.is_autograph_strict_conversion_mode': 'bool', 'malt.utils.ag_logging.has_verbosity': 'bool',
      'malt.core.ag_ctx.control_status_ctx': 'ControlStatusCtx',
  }
  w.add_class(ClassInfo('partial', fields={}))
  w.add(Contract(
      A + '_call_unconverted', mode='event', serves=['C13', 'C01'], pure=PUREP,
      spec='''
def spec(f, args, kwargs, options, update_cache=True):
  # the target is invoked exactly once with the caller's positional / keyword binding;
  # the decision is remembered first when asked to
  if update_cache:
    conversion.cache_allowlisted(f, options)
  if kwargs is not None:
    return f(*args, **kwargs)
  return f(*args)
'''))
  w.add(Contract(
      A + 'converted_call', mode='event', serves=['C13', 'C01'], pure=PUREP,
      inline=[A + '_call_unconverted', A + '_fall_back_unconverted', A + 'is_autograph_artifact'],
      callbacks=['malt.operators.py_builtins.overload_of'],   # (its own contract: contracts/c14_builtins.py)
      spec=CONVERTED_CALL_SPEC,
      assumes=['the policy predicates (allow-list cache, is_unsupported, is_allowlisted, isbuiltin, strict mode) are '
               'pure functions of their arguments', 'plain log lines are dropped; warnings are observable events']))


CONVERTED_CALL_SPEC = r'''
def spec(f, args, kwargs, caller_fn_scope=None, options=None):
  def unconverted(remember):
    if remember:
      conversion.cache_allowlisted(f, options)
    if kwargs is not None:
      return f(*args, **kwargs)
    return f(*args)

  def fall_back(exc):
    # run as-is with a warning (two documented silent cases), and remember the failure
    if isinstance(exc, errors.InaccessibleSourceCodeError):
      if ag_ctx.INSPECT_SOURCE_SUPPORTED:
        logging.warning('could not transform', f, '', exc)
    elif isinstance(exc, errors.UnsupportedLanguageElementError):
      if not conversion.is_in_allowlist_cache(f, options):
        logging.warning('could not transform', f, '', exc)
    else:
      logging.warning('could not transform', f, 'report', exc)
    return unconverted(True)

  if options is None:
    if caller_fn_scope is None:
      raise ValueError('either caller_fn_scope or options must have a value')
    options = caller_fn_scope.callopts

  # --- policy: when the target runs unconverted --------------------------------------------
  if conversion.is_in_allowlist_cache(f, options):        # remembered decision
    return unconverted(False)
  if ag_ctx.control_status_ctx().status == ag_ctx.Status.DISABLED:   # per call, never remembered
    return unconverted(False)
  if hasattr(f, 'autograph_info__'):                       # already converted artifact
    return unconverted(True)
  if isinstance(f, functools.partial):                     # the documented call of a partial
    new_kwargs = {}
    if f.keywords is not None:
      new_kwargs = f.keywords.copy()
    if kwargs is not None:
      new_kwargs.update(kwargs)
    return converted_call(f.func, f.args + args, new_kwargs, caller_fn_scope=caller_fn_scope, options=options)
  if inspect_utils.isbuiltin(f):                           # builtins go to their overloads
    if f is eval:
      return py_builtins.eval_in_original_context(f, args, caller_fn_scope)
    if f is super:
      return py_builtins.super_in_original_context(f, args, caller_fn_scope)
    if f is globals:
      return py_builtins.globals_in_original_context(caller_fn_scope)
    if f is locals:
      return py_builtins.locals_in_original_context(caller_fn_scope)
    if kwargs:
      return py_builtins.overload_of(f)(*args, **kwargs)
    return py_builtins.overload_of(f)(*args)
  if conversion.is_unsupported(f):
    return unconverted(True)
  if not options.user_requested and conversion.is_allowlisted(f):
    return unconverted(True)
  if not options.internal_convert_user_code:               # non-recursive mode
    return unconverted(True)

  # --- what gets converted and how it is called ----------------------------------------------
  try:
    if inspect.ismethod(f) or inspect.isfunction(f):
      target = f
      eff = args
      f_self = getattr(f, '__self__', None)
      if f_self is not None:
        eff = (f_self,) + eff
    elif hasattr(f, '__class__') and hasattr(f.__class__, '__call__'):
      target = f.__class__.__call__
      eff = (f,) + args
    else:
      raise NotImplementedError('unknown callable type')
  except Exception as e:
    if is_autograph_strict_conversion_mode():
      raise
    return fall_back(e)

  if not hasattr(target, '__code__'):                      # native binding
    return unconverted(True)
  if hasattr(target.__code__, 'co_filename') and target.__code__.co_filename == '<string>':
    return unconverted(True)                               # exec-defined: no source

  try:
    program_ctx = converter.ProgramContext(options=options)
    converted_f = _convert_actual(target, program_ctx)
    if logging.has_verbosity(2):
      _log_callargs(converted_f, eff, kwargs)
  except Exception as e:
    if is_autograph_strict_conversion_mode():
      raise
    return fall_back(e)

  # the converted target runs exactly once; its own exceptions are never swallowed
  try:
    if kwargs is not None:
      result = converted_f(*eff, **kwargs)
    else:
      result = converted_f(*eff)
  except Exception as e:
    _attach_error_metadata(e, converted_f)
    raise
  return result
'''
