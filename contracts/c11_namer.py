"""C11 -- the name generator never returns a name that is visible to user code (malt/pyct/naming.py)."""
from pvc.world import Contract, ClassInfo

RES = ('exists(lambda s: s in _done and ((isinstance(s, QN) and e in s.qn) or (isinstance(s, str) and not isinstance(s, QN) and e is s)))')


def register(w):
  w.add_class(ClassInfo('Namer', module='malt.pyct.naming', fields={
      'global_namespace': 'Dict[str,Any]', 'generated_names': 'Set[str]'}))
  w.classes['QN'].fields['qn'] = __import__('pvc.core', fromlist=['parse_type']).parse_type('Seq[Any]')
  w.field_types.setdefault('qn', w.classes['QN'].fields['qn'])

  w.add(Contract(
      'malt.pyct.naming.Namer.new_symbol', serves=['C11'],
      types={'name_root': 'str', 'reserved_locals': 'Set[Any]', 'return': 'str'},
      pure={'str.%': 'str'},
      requires=['self.generated_names is not reserved_locals'],
      modifies=['contents(self.generated_names)'],
      raises={'ValueError': 'exists(lambda s: s in reserved_locals and not isinstance(s, QN) and not isinstance(s, str))'},
      locals_={'pieces': 'Seq[str]'},
      loops={
          0: dict(modifies=['all_reserved_locals'],
                  inv=['forall(lambda e: (e in all_reserved_locals) == %s)' % RES, 'fresh(all_reserved_locals)']),
          1: dict(modifies=[], inv=[]),
      },
      ensures=[
          # not a name of the function's namespace
          'result not in self.global_namespace',
          # not one of the reserved names; qualified names reserve every component
          'forall(lambda s: implies(s in reserved_locals and isinstance(s, str) and not isinstance(s, QN), s != result))',
          'forall(lambda s, p: implies(s in reserved_locals and isinstance(s, QN) and p in s.qn, p != result))',
          # not generated before; remembered from now on
          'not old(result in self.generated_names)',
          'forall(lambda e: (e in self.generated_names) == (old(e in self.generated_names) or e == result))',
      ],
      assumes=['string helpers (split, isdigit, join, int, % formatting) are uninterpreted pure functions: the '
               'contract follows from the negated loop condition alone', 'termination of the search loop is not proved']))
