"""C07 -- liveness transfer function and block-level aggregation (malt/pyct/static_analysis/liveness.py)."""
from pvc.world import Contract, ClassInfo

L = 'malt.pyct.static_analysis.liveness.'
SCOPE = 'anno.getanno(node.ast_node, anno.Static.SCOPE)'
HAS = 'anno.hasanno(node.ast_node, anno.Static.SCOPE)'
FNS = 'anno.getanno(node.ast_node, anno.Static.DEFINED_FNS_IN)'
FNSCOPE = 'anno.getanno(fn, annos.NodeAnno.ARGS_AND_BODY_SCOPE)'
PURE = {'malt.pyct.anno.hasanno': 'bool', 'malt.pyct.anno.getanno': 'Any'}

# closure term: names read by a reaching, non-lambda local function and not bound by it
# (property C07: "... or by a local function that closes over it ... in particular for variables a nested
#  function declares nonlocal": nonlocal names are in the function's `bound` set but are not its locals)
CLOSURE = ('exists(lambda fn: fn in %s and not isinstance(fn, Lambda) and e in %s.read and '
           '(e not in %s.bound or e in %s.nonlocals))' % (FNS, FNSCOPE, FNSCOPE, FNSCOPE))

# the liveness equation of one node, over the current in_/out maps (spec macro LiveEq(self, node))
OUT_EQ = 'forall(lambda e: (e in self.out[node]) == exists(lambda s: s in node.next and e in self.in_[s], "Node"))'
IN_EQ = ('implies({has}, forall(lambda e: (e in self.in_[node]) == (e in {sc}.read or '
         '(e in self.out[node] and e not in {sc}.modified and e not in {sc}.deleted) or {clo}))) and '
         'implies(not {has}, seteq(self.in_[node], self.out[node]))').format(has=HAS, sc=SCOPE, clo=CLOSURE)

WF = ['forall(lambda n: implies(n in self.graph.index_nodes, n in self.in_ and n in self.out), "Node")']


def register(w):
  w.add_class(ClassInfo('LiveAnalyzer', pyname='Analyzer', module='malt.pyct.static_analysis.liveness',
                        bases=['GraphVisitor'], fields={'include_annotations': 'bool', 'in_': 'Dict[Node,Set[QN]]',
                                                      'out': 'Dict[Node,Set[QN]]'}))
  DOM = ('node in self.in_ and node in self.out and '
         'forall(lambda s: implies(s in node.next, s in self.in_), "Node")')
  w.macros['LiveDom'] = (['self', 'node'], DOM)
  w.macros['LiveOut'] = (['self', 'node'], OUT_EQ)
  w.macros['LiveIn'] = (['self', 'node'], IN_EQ)
  w.macros['LiveEq'] = (['self', 'node'], 'LiveDom(self, node) and LiveOut(self, node) and LiveIn(self, node)')

  w.add(Contract(
      L + 'Analyzer.visit_node', serves=['C07', 'C02'],
      types={'node': 'Node', 'return': 'bool'}, pure=PURE, asserts='raise',
      requires=['self.include_annotations',        # default path; the other path is finding D8
                'node in self.in_', 'node in self.out', 'self.in_ is not self.out',
                'forall(lambda s: implies(s in node.next, s in self.in_), "Node")',
               ],
      raises={'AssertionError': 'not %s' % HAS},
      modifies=['contents(self.in_)', 'contents(self.out)'],
      locals_={'reaching_functions': 'Set[AST]', 'node_scope': 'Scope', 'fn_scope': 'Scope'},
      loops={
          0: dict(modifies=['live_out'],
                  inv=['forall(lambda e: (e in live_out) == exists(lambda s: s in _done and e in self.in_[s], "Node"))']),
          1: dict(modifies=['live_in'],
                  inv=['forall(lambda e: (e in live_in) == (pre(e in live_in) or '
                       'exists(lambda fn: fn in _done and not isinstance(fn, Lambda) and e in %s.read '
                       'and (e not in %s.bound or e in %s.nonlocals))))' % (FNSCOPE, FNSCOPE, FNSCOPE),
                       # aliasing hints (proved like any other invariant)
                       'forall(lambda fn: %s.read is not live_in and %s.bound is not live_in and '
                       '%s.nonlocals is not live_in)' % (FNSCOPE, FNSCOPE, FNSCOPE),
                       'fresh(live_in)']),
          2: dict(modifies=['live_out'],
                  inv=['forall(lambda e: (e in live_out) == exists(lambda s: s in _done and e in self.in_[s], "Node"))']),
      },
      ensures=[
          # out[node] = union of the (pre-state) live-in sets of the successors
          'forall(lambda e: (e in self.out[node]) == exists(lambda s: s in node.next and old(e in self.in_[s]), "Node"))',
          # in_[node] = gen | (out - kill) | closures of reaching local functions
          IN_EQ,
          # only the two slots of `node` change
          'forall(lambda m: implies(m is not node, (m in self.in_) == old(m in self.in_) and '
          '(m in self.out) == old(m in self.out)), "Node")',
          'forall(lambda m: implies(m is not node, self.in_[m] is old(self.in_[m])), "Node")',
          'forall(lambda m: implies(m is not node, self.out[m] is old(self.out[m])), "Node")',
          'node in self.in_ and node in self.out',
          # revisit request <=> live-in changed
          'result == (not forall(lambda e: (e in self.in_[node]) == old(e in self.in_[node])))',
      ],
      assumes=['QN objects are identified with their qualified-name value (QN.__eq__/__hash__)',
               'anno.getanno/hasanno are pure lookups in the node annotation map']))

  # ---- refinement lemma: the concrete transfer function satisfies the abstract visit_node contract of
  # cfg.GraphVisitor with  stable := {m | LiveEq(self, m)}  and direction = reverse
  INV_G = 'forall(lambda a, b: (b in a.next) == (a in b.prev), "Node", "Node")'
  w.add(Contract(
      'lemma.C07.liveness_visit_node_refines_abstract', serves=['C07', 'C02'],
      in_module='malt.pyct.static_analysis.liveness',
      types={'self': 'LiveAnalyzer', 'node': 'Node'}, pure=PURE,
      requires=[INV_G, 'self.include_annotations', 'node in self.in_', 'node in self.out',
                'self.in_ is not self.out',
                'forall(lambda s: implies(s in node.next, s in self.in_), "Node")',
                HAS + ' or True'],
      raises={'AssertionError': True},
      modifies=['contents(self.in_)', 'contents(self.out)'],
      ensures=[
          # stepping stones (proved first, then available to the clauses below)
          'forall(lambda s, e: implies(s is not node and old(s in self.in_), '
          '(e in self.in_[s]) == old(e in self.in_[s])), "Node", "Any")',
          'forall(lambda s, e: implies(s is not node and old(s in self.out), '
          '(e in self.out[s]) == old(e in self.out[s])), "Node", "Any")',
          'implies(not truthy(result), forall(lambda e: (e in self.in_[node]) == old(e in self.in_[node])))',
          'forall(lambda a, b: (b in a.next) == old(b in a.next) and (b in a.prev) == old(b in a.prev), "Node", "Node")',
          'forall(lambda x, e: implies(not fresh(x), (e in x.read) == old(e in x.read) and '
          '(e in x.modified) == old(e in x.modified) and (e in x.deleted) == old(e in x.deleted) and '
          '(e in x.bound) == old(e in x.bound) and (e in x.nonlocals) == old(e in x.nonlocals)))',
          'forall(lambda x, e: implies(not fresh(x) and x is not self.in_ and x is not self.out, '
          '(e in x) == old(e in x)), "Set[Any]", "Any")',
          'implies(not (truthy(result) and node in node.prev), LiveDom(self, node))',
          'implies(not (truthy(result) and node in node.prev), LiveOut(self, node))',
          'implies(not (truthy(result) and node in node.prev), LiveIn(self, node))',
          'forall(lambda m: implies(m is not node and old(LiveEq(self, m)) and '
          'not (truthy(result) and m in node.prev), LiveDom(self, m)), "Node")',
          'forall(lambda m: implies(m is not node and old(LiveEq(self, m)) and '
          'not (truthy(result) and m in node.prev), LiveOut(self, m)), "Node")',
          'forall(lambda m: implies(m is not node and old(LiveEq(self, m)) and '
          'not (truthy(result) and m in node.prev), LiveIn(self, m)), "Node")',
      ],
      source='''
def lemma(self, node):
  return self.visit_node(node)
'''))
