"""C12 -- which exception reaches the caller (decision tables of create_exception, event mode)."""
from pvc.world import Contract, ClassInfo

E = 'malt.pyct.error_utils.'


def register(w):
  w.add_class(ClassInfo('ErrorMetadataBase', module='malt.pyct.error_utils',
                        fields={'translated_stack': 'Any', 'cause_message': 'Any'}))
  w.add_class(ClassInfo('_ErrorMetadata', module='malt.impl.api', bases=['ErrorMetadataBase']))
  w.global_objects['malt.pyct.error_utils.KNOWN_STRING_CONSTRUCTOR_ERRORS'] = 'Set[Any]'
  PURE = {'method.get_message': 'Any'}

  # property C12: "the same type whenever that type takes a plain message and defines no initialiser of
  # its own" -- read as the code documents it: T.__init__ is Exception.__init__, or T is one of the nine
  # listed message-only builtins (membership, NOT subclassing: a subclass may have its own constructor);
  # KeyError is re-created as its message-preserving subclass; anything else is left to the caller
  # (StagingError in api._ErrorMetadata).
  w.add(Contract(
      E + 'ErrorMetadataBase.create_exception', mode='event', serves=['C12'], pure=PURE,
      types={'source_error': 'Any'},
      spec='''
def spec(self, source_error):
  T = type(source_error)
  made = None
  if T.__init__ is Exception.__init__:
    made = T(self.get_message())
  if T in KNOWN_STRING_CONSTRUCTOR_ERRORS:
    made = T(self.get_message())
  elif T is KeyError:
    made = MultilineMessageKeyError(self.get_message(), self.cause_message)
  if made is not None:
    return made.with_traceback(source_error.__traceback__)
''',
      assumes=['get_message is a pure function of the metadata', 'type() is pure']))

  w.add(Contract(
      'malt.impl.api._ErrorMetadata.create_exception', mode='event', serves=['C12'], pure=PURE,
      types={'source_error': 'Any'}, inline=[E + 'ErrorMetadataBase.create_exception'],
      spec='''
def spec(self, source_error):
  T = type(source_error)
  if T in (errors.PyCTError, AutoGraphError, ConversionError, StagingError):
    return T(self.get_message())
  made = None
  if T.__init__ is Exception.__init__:
    made = T(self.get_message())
  if T in error_utils.KNOWN_STRING_CONSTRUCTOR_ERRORS:
    made = T(self.get_message())
  elif T is KeyError:
    made = error_utils.MultilineMessageKeyError(self.get_message(), self.cause_message)
  if made is not None:
    exc = made.with_traceback(source_error.__traceback__)
    if exc is not None:
      return exc
  return StagingError(self.get_message())
'''))


  # property C12: "the reported line is the line of the original statement".  The parsed text of an entity starts at
  # its FIRST DECORATOR when it has one (inspect.getsourcelines), else at the def line, and context_lineno is the file
  # line of that first text line: a node on line l of the parsed text is on file line
  # context_lineno + (l - line of the first text line).  Linear integer arithmetic, all inputs.
  w.add_class(ClassInfo('LinedNode', fields={'lineno': 'int'}))
  w.add_class(ClassInfo('RootNode', fields={'decorator_list': 'List[LinedNode]', 'lineno': 'int', 'col_offset': 'int'}))
  w.add_class(ClassInfo('OriginResolver', module='malt.pyct.origin_info',
                        fields={'_lineno_offset': 'int', '_col_offset': 'int', '_source_lines': 'Any', '_comments_map': 'Any',
                                '_filepath': 'Any', '_function_stack': 'List[Any]'}))
  DECORATED = ('(hasattr(root_node, "decorator_list") and len(root_node.decorator_list) > 0 and '
               'hasattr(root_node.decorator_list[0], "lineno"))')
  w.add(Contract(
      'malt.pyct.origin_info.OriginResolver.__init__', serves=['C12'],
      types={'root_node': 'RootNode', 'source_lines': 'Any', 'comments_map': 'Any', 'context_lineno': 'int',
             'context_col_offset': 'int', 'filepath': 'Any'},
      modifies=['self._lineno_offset', 'self._col_offset', 'self._source_lines', 'self._comments_map', 'self._filepath',
                'self._function_stack'],
      ensures=[
          # the first line of the parsed text (first decorator, else the def) is file line context_lineno
          'implies(%s, root_node.decorator_list[0].lineno + self._lineno_offset == context_lineno)' % DECORATED,
          'implies(not %s, root_node.lineno + self._lineno_offset == context_lineno)' % DECORATED,
          'root_node.col_offset + self._col_offset == context_col_offset',
          'self._filepath is filepath', 'self._source_lines is source_lines', 'self._comments_map is comments_map',
          'len(self._function_stack) == 0',
      ]))
  w.add(Contract(
      'malt.pyct.origin_info.OriginResolver._absolute_lineno', serves=['C12'], types={'lineno': 'int', 'return': 'int'},
      modifies=[], ensures=['result == lineno + self._lineno_offset']))
  w.add(Contract(
      'malt.pyct.origin_info.OriginResolver._absolute_col_offset', serves=['C12'], types={'col_offset': 'int', 'return': 'int'},
      modifies=[], ensures=['result == col_offset + self._col_offset'],
      assumes=['the None column (nodes without col_offset -> 0) is outside the typed contract']))
