"""C12 -- which exception reaches the caller (decision tables of create_exception, event mode)."""
from pvc.world import Contract, ClassInfo

E = 'malt.pyct.error_utils.'


def register(w):
  w.add_class(ClassInfo('ErrorMetadataBase', module='malt.pyct.error_utils',
                        fields={'translated_stack': 'Any', 'cause_message': 'Any'}))
  w.add_class(ClassInfo('_ErrorMetadata', module='malt.impl.api', bases=['ErrorMetadataBase']))
  w.global_objects['malt.pyct.error_utils.KNOWN_STRING_CONSTRUCTOR_ERRORS'] = 'Set[Any]'
  PURE = {'method.get_message': 'Any'}

  # property C12: "the same type whenever that type takes a plain message and defines no initialiser of
  # its own" -- read as the code documents it: T.__init__ is Exception.__init__, or T is one of the nine
  # listed message-only builtins (membership, NOT subclassing: a subclass may have its own constructor);
  # KeyError is re-created as its message-preserving subclass; anything else is left to the caller
  # (StagingError in api._ErrorMetadata).
  w.add(Contract(
      E + 'ErrorMetadataBase.create_exception', mode='event', serves=['C12'], pure=PURE,
      types={'source_error': 'Any'},
      spec='''
def spec(self, source_error):
  T = type(source_error)
  made = None
  if T.__init__ is Exception.__init__:
    made = T(self.get_message())
  if T in KNOWN_STRING_CONSTRUCTOR_ERRORS:
    made = T(self.get_message())
  elif T is KeyError:
    made = MultilineMessageKeyError(self.get_message(), self.cause_message)
  if made is not None:
    return made.with_traceback(source_error.__traceback__)
''',
      assumes=['get_message is a pure function of the metadata', 'type() is pure']))

  w.add(Contract(
      'malt.impl.api._ErrorMetadata.create_exception', mode='event', serves=['C12'], pure=PURE,
      types={'source_error': 'Any'}, inline=[E + 'ErrorMetadataBase.create_exception'],
      spec='''
def spec(self, source_error):
  T = type(source_error)
  if T in (errors.PyCTError, AutoGraphError, ConversionError, StagingError):
    return T(self.get_message())
  made = None
  if T.__init__ is Exception.__init__:
    made = T(self.get_message())
  if T in error_utils.KNOWN_STRING_CONSTRUCTOR_ERRORS:
    made = T(self.get_message())
  elif T is KeyError:
    made = error_utils.MultilineMessageKeyError(self.get_message(), self.cause_message)
  if made is not None:
    exc = made.with_traceback(source_error.__traceback__)
    if exc is not None:
      return exc
  return StagingError(self.get_message())
'''))

