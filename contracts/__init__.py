"""Sidecar contracts.  Each module defines register(world)."""
import importlib
import pkgutil

from pvc.world import World


def build_world(only=None):
  w = World()
  w.global_objects = {}
  import contracts as pkg
  for m in sorted(pkgutil.iter_modules(pkg.__path__), key=lambda m: m.name):
    if m.name.startswith('_'):
      continue
    if only and m.name not in only:
      continue
    mod = importlib.import_module('contracts.' + m.name)
    mod.register(w)
  return w
