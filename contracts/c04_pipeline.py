"""C04 / C17 -- the pass pipeline (order and option gating) and what to_code returns (event mode)."""
from pvc.world import Contract, ClassInfo

A = 'malt.impl.api.'


def register(w):
  w.add_class(ClassInfo('PyToPyApi', pyname='PyToPy', module='malt.impl.api'))
  PURE = {}
  w.add_class(ClassInfo('EntityContext', fields={'user': 'ProgramContext'}))
  w.add_class(ClassInfo('ProgramContext', fields={'options': 'ConversionOptions'}))
  # property C04: every overloadable construct is routed through its operator.  The passes that eliminate
  # the constructs run in this order (break -> continue -> return lowering introduce the guards that
  # call_trees / control_flow / conditional / logical expression passes must still see), asserts and
  # list idioms only under their feature flag.  Each pass is an observable event labelled by its name.
  w.add(Contract(
      A + 'PyToPy.transform_ast', mode='event', serves=['C04', 'C17', 'C01'], pure=PURE,
      types={'ctx': 'EntityContext'},
      inline=[A + 'PyToPy.initial_analysis'],
      spec='''
def spec(self, node, ctx):
  unsupported_features_checker.verify(node)
  graphs = cfg.build(node)
  node = qual_names.resolve(node)
  node = activity.resolve(node, ctx, None)
  node = reaching_definitions.resolve(node, ctx, graphs)
  anno.dup(node, {anno.Static.DEFINITIONS: anno.Static.ORIG_DEFINITIONS})
  node = functions.transform(node, ctx)
  node = directives.transform(node, ctx)
  node = break_statements.transform(node, ctx)
  if ctx.user.options.uses(converter.Feature.ASSERT_STATEMENTS):
    node = asserts.transform(node, ctx)
  node = continue_statements.transform(node, ctx)
  node = return_statements.transform(node, ctx)
  if ctx.user.options.uses(converter.Feature.LISTS):
    node = lists.transform(node, ctx)
    node = slices.transform(node, ctx)
  node = call_trees.transform(node, ctx)
  node = control_flow.transform(node, ctx)
  node = conditional_expressions.transform(node, ctx)
  node = logical_expressions.transform(node, ctx)
  node = variables.transform(node, ctx)
  return node
''',
      assumes=['each pass is an opaque event (its own contract is the bounded NoNative stand-in)',
               'ConversionOptions.uses is pure (proved under C20)']))

  # property C17: "the text returned by to_code is the text of the module that was actually loaded for to_graph"
  w.add(Contract(
      A + 'to_code', mode='event', serves=['C17'],
      spec='''
def spec(entity, recursive=True, experimental_optional_features=None):
  converted = to_graph(entity, recursive=recursive, experimental_optional_features=experimental_optional_features)
  return textwrap.dedent(inspect.getsource(converted))
'''))
