"""C10 -- conversion cache data structure (malt/pyct/cache.py) and its keys."""
from pvc.world import Contract, ClassInfo

CA = 'malt.pyct.cache.'
KEY = 'self._get_key(entity)'
WF = 'forall(lambda k: implies(k in self._cache, self._cache[k] is not None))'


def register(w):
  w.add_class(ClassInfo('_TransformedFnCache', module='malt.pyct.cache',
                        fields={'_cache': 'Dict[Any,Dict[Any,Any]]'}))
  w.add_class(ClassInfo('CodeObjectCache', module='malt.pyct.cache', bases=['_TransformedFnCache']))
  w.add_class(ClassInfo('UnboundInstanceCache', module='malt.pyct.cache', bases=['_TransformedFnCache']))
  PURE = {'method._get_key': 'Any'}

  w.add(Contract(
      CA + '_TransformedFnCache.has', serves=['C10', 'C13'], pure=PURE,
      types={'entity': 'Any', 'subkey': 'Any', 'return': 'bool'},
      requires=[WF],
      ensures=['result == (%s in self._cache and subkey in self._cache[%s])' % (KEY, KEY)],
      assumes=['T: WeakKeyDictionary modelled as a dict (weak keys vanish only with their code object)',
               '_get_key is a pure function of the entity (proved for both subclasses)']))

  w.add(Contract(
      CA + '_TransformedFnCache.__getitem__', serves=['C10', 'C13'], pure=PURE,
      types={'entity': 'Any', 'return': 'Dict[Any,Any]'},
      requires=[WF],
      modifies=['contents(self._cache)'],
      ensures=[
          '%s in self._cache' % KEY, 'result is self._cache[%s]' % KEY, 'result is not None', WF,
          # an existing bucket is returned as it is; a missing one is created empty
          'implies(old(%s in self._cache), result is old(self._cache[%s]))' % (KEY, KEY),
          'implies(not old(%s in self._cache), fresh(result) and forall(lambda s: s not in result))' % KEY,
          # no other key is touched
          'forall(lambda k: implies(k is not %s, (k in self._cache) == old(k in self._cache) and '
          'self._cache[k] is old(self._cache[k])))' % KEY,
      ]))

  w.add(Contract(
      CA + 'CodeObjectCache._get_key', serves=['C10'], types={'entity': 'Any'},
      ensures=['implies(hasattr(entity, "__code__"), result is entity.__code__)',
               'implies(not hasattr(entity, "__code__"), result is entity)'],
      assumes=['functions sharing a code object share a cache bucket; the factory, not the function, is cached']))

  w.add(Contract(
      CA + 'UnboundInstanceCache._get_key', serves=['C10', 'C13'], types={'entity': 'Any'},
      pure={'inspect.ismethod': 'bool'},
      ensures=['implies(inspect.ismethod(entity), result is entity.__func__)',
               'implies(not inspect.ismethod(entity), result is entity)']))
