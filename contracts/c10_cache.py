"""C10 -- conversion cache data structure (malt/pyct/cache.py) and its keys."""
from pvc.world import Contract, ClassInfo

CA = 'malt.pyct.cache.'
KEY = 'self._get_key(entity)'
WF = 'forall(lambda k: implies(k in self._cache, self._cache[k] is not None))'


def register(w):
  w.add_class(ClassInfo('_TransformedFnCache', module='malt.pyct.cache',
                        fields={'_cache': 'Dict[Any,Dict[Any,Any]]'}))
  w.add_class(ClassInfo('CodeObjectCache', module='malt.pyct.cache', bases=['_TransformedFnCache']))
  w.add_class(ClassInfo('UnboundInstanceCache', module='malt.pyct.cache', bases=['_TransformedFnCache']))
  PURE = {'method._get_key': 'Any'}

  w.add(Contract(
      CA + '_TransformedFnCache.has', serves=['C10', 'C13'], pure=PURE,
      types={'entity': 'Any', 'subkey': 'Any', 'return': 'bool'},
      requires=[WF],
      ensures=['result == (%s in self._cache and subkey in self._cache[%s])' % (KEY, KEY)],
      assumes=['T: WeakKeyDictionary modelled as a dict (weak keys vanish only with their code object)',
               '_get_key is a pure function of the entity (proved for both subclasses)']))

  w.add(Contract(
      CA + '_TransformedFnCache.__getitem__', serves=['C10', 'C13'], pure=PURE,
      types={'entity': 'Any', 'return': 'Dict[Any,Any]'},
      requires=[WF],
      modifies=['contents(self._cache)'],
      ensures=[
          '%s in self._cache' % KEY, 'result is self._cache[%s]' % KEY, 'result is not None', WF,
          # an existing bucket is returned as it is; a missing one is created empty
          'implies(old(%s in self._cache), result is old(self._cache[%s]))' % (KEY, KEY),
          'implies(not old(%s in self._cache), fresh(result) and forall(lambda s: s not in result))' % KEY,
          # no other key is touched
          'forall(lambda k: implies(k is not %s, (k in self._cache) == old(k in self._cache) and '
          'self._cache[k] is old(self._cache[k])))' % KEY,
      ]))

  w.add(Contract(
      CA + 'CodeObjectCache._get_key', serves=['C10'], types={'entity': 'Any'},
      ensures=['implies(hasattr(entity, "__code__"), result is entity.__code__)',
               'implies(not hasattr(entity, "__code__"), result is entity)'],
      assumes=['functions sharing a code object share a cache bucket; the factory, not the function, is cached']))

  w.add(Contract(
      CA + 'UnboundInstanceCache._get_key', serves=['C10', 'C13'], types={'entity': 'Any'},
      pure={'inspect.ismethod': 'bool'},
      ensures=['implies(inspect.ismethod(entity), result is entity.__func__)',
               'implies(not inspect.ismethod(entity), result is entity)']))

  # property C10: "The source transformation of a given (code object, options) pair runs at most once":
  # double-checked locking -- a lock-free lookup; on a miss the lookup is repeated under the lock, and only a
  # second miss transforms, creates the factory and THEN publishes it; the result is always instantiated with
  # the requesting function's own globals, closure and defaults ("functions that share code but differ in
  # closure, globals or defaults are never confused").  Event mode: the cache, the lock, the factory and the
  # parent transform are opaque; their calls (and subscript stores) are the observable events.
  w.add_class(ClassInfo('PyToPyT', pyname='PyToPy', module='malt.pyct.transpiler',
                        fields={'_cache': 'Any', '_cache_lock': 'Any'}))
  w.add(Contract(
      'malt.pyct.transpiler.PyToPy.transform_function', mode='event', serves=['C10', 'C09'],
      callbacks=['get_caching_key', 'get_extra_locals', 'create', 'instantiate'],
      spec='''
def spec(self, fn, user_context):
  cache_subkey = self.get_caching_key(user_context)
  if self._cache.has(fn, cache_subkey):
    factory = self._cached_factory(fn, cache_subkey)
  else:
    with self._cache_lock:
      if self._cache.has(fn, cache_subkey):
        factory = self._cached_factory(fn, cache_subkey)
      else:
        logging.log(1, '%s is not cached for subkey %s', fn, cache_subkey)
        nodes, ctx = super(PyToPy, self).transform_function(fn, user_context)
        if isinstance(nodes, ast.Lambda):
          nodes = ast.Assign(targets=[ast.Name(ctx.info.name, ctx=ast.Store())], value=nodes)
        else:
          nodes.name = ctx.info.name
        if logging.has_verbosity(2):
          logging.log(2, 'Transformed %s:\\\\n\\\\n%s\\\\n', fn, parser.unparse(nodes))
        factory = _PythonFnFactory(ctx.info.name, fn.__code__.co_freevars, self.get_extra_locals())
        factory.create(nodes, ctx.namer, future_features=ctx.info.future_features)
        self._cache[fn][cache_subkey] = factory
  transformed_fn = factory.instantiate(globals_=fn.__globals__, closure=fn.__closure__ or (),
                                       defaults=fn.__defaults__, kwdefaults=getattr(fn, '__kwdefaults__', None))
  return transformed_fn, factory.module, factory.source_map
'''))

  # property C10: "different option sets never alias": the cache sub-key determines EVERY field of the options
  # the conversion was requested with (with C20: options that differ in a field compare unequal and, being the
  # key itself, select different cache entries)
  w.add_class(ClassInfo('ProgramCtx', fields={'options': 'ConversionOptions'}))
  w.add(Contract(
      'malt.impl.api.PyToPy.get_caching_key', serves=['C10', 'C20'], types={'ctx': 'ProgramCtx', 'return': 'ConversionOptions'},
      modifies=[],
      ensures=['result.recursive == ctx.options.recursive', 'result.user_requested == ctx.options.user_requested',
               'result.internal_convert_user_code == ctx.options.internal_convert_user_code',
               'seteq(result.optional_features, ctx.options.optional_features)']))
