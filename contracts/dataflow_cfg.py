"""Worklist fixed point of cfg.GraphVisitor (shared by C06, C07, C19) -- DESIGN.md Appendix A.1.

Ghost state: `self.stable` is the set of nodes whose dataflow equation holds in the current
in_/out state.  The abstract contract of visit_node speaks about `stable` only; each concrete
analysis proves a refinement lemma (its visit_node, with stable := {m | Eq(m)}, satisfies it).
"""
from pvc.world import Contract, ClassInfo

C = 'malt.pyct.cfg.'
FWD = 'mode is _WalkMode.FORWARD'
DEP = '(n.next if %s else n.prev)' % FWD            # nodes enqueued after n = nodes whose equation reads state[n]
INV_G = 'forall(lambda a, b: (b in a.next) == (a in b.prev), "Node", "Node")'
MODE_OK = '(mode is _WalkMode.FORWARD or mode is _WalkMode.REVERSE) and _WalkMode.FORWARD is not _WalkMode.REVERSE'

I1 = 'forall(lambda n: implies(n in closed, n in open_ or n in self.stable), "Node")'
I2 = 'forall(lambda n, c: implies(n in closed and c in %s, c in closed or c in open_), "Node", "Node")' % DEP
I3 = ('implies(%s, self.graph.entry in closed or self.graph.entry in open_) and '
      'implies(not (%s), forall(lambda s: implies(s in self.graph.exit, s in closed or s in open_), "Node"))'
      % (FWD, FWD))

# inner loop (children of the node just visited): `_done` = children already examined
DEPNODE = '(node.next if %s else node.prev)' % FWD
J1 = ('forall(lambda n: implies(n in closed, n in open_ or n in self.stable or '
      '(truthy(should_revisit) and n in %s and n not in _done)), "Node")' % DEPNODE)
J2 = ('forall(lambda n, c: implies(n in closed and c in %s and (n is not node or c in _done), '
      'c in closed or c in open_), "Node", "Node")' % DEP)
JCH = 'children is %s' % DEPNODE
FWDOK = 'self.forward == (%s)' % FWD


def register(w):
  w.add_class(ClassInfo('Node', module='malt.pyct.cfg',
                        fields={'next': 'Set[Node]', 'prev': 'Set[Node]', 'ast_node': 'AST'}))
  w.add_class(ClassInfo('Graph', module='malt.pyct.cfg', fields={
      'entry': 'Node', 'exit': 'Set[Node]', 'error': 'Set[Node]', 'index': 'Dict[AST,Node]',
      'stmt_prev': 'Dict[AST,Set[Node]]', 'stmt_next': 'Dict[AST,Set[Node]]'}))
  w.add_class(ClassInfo('GraphVisitor', module='malt.pyct.cfg', fields={
      'graph': 'Graph', 'in_': 'Dict[Node,Any]', 'out': 'Dict[Node,Any]', 'stable': 'Set[Node]',
      'forward': 'bool'}))
  w.add_class(ClassInfo('_WalkMode', module='malt.pyct.cfg'))

  # abstract interface contract: what _visit_internal may assume about any visit_node
  w.add(Contract(
      C + 'GraphVisitor.visit_node', abstract=True, serves=['C06', 'C07', 'C19'],
      ghost={'params': ['self', 'node']}, types={'node': 'Node', 'return': 'Any'},
      modifies=['*'],
      ensures=[
          # the visited node becomes stable and nobody else loses stability, except the nodes whose
          # equation reads the state of `node` when that state changed (result truthy)
          'forall(lambda m: implies((m is node or old(m in self.stable)) and '
          'not (truthy(result) and m in (node.next if self.forward else node.prev)), m in self.stable), "Node")',
          'self.forward == old(self.forward)',
          # the graph is not touched
          'self.graph is old(self.graph)', 'self.graph.entry is old(self.graph.entry)',
          'self.graph.exit is old(self.graph.exit)', 'unchanged(self.graph.exit)',
          'self.stable is old(self.stable)',
          'forall(lambda a: a.next is old(a.next) and a.prev is old(a.prev), "Node")',
          'forall(lambda a, b: (b in a.next) == old(b in a.next) and (b in a.prev) == old(b in a.prev), "Node", "Node")',
      ],
      note='abstract: refined by liveness/reaching_definitions/reaching_fndefs/type_inference visit_node'))

  w.add(Contract(
      C + 'GraphVisitor._visit_internal', serves=['C06', 'C07', 'C19'],
      types={'mode': '_WalkMode'},
      requires=[INV_G, MODE_OK, 'self.forward == (%s)' % FWD],
      modifies=['*'],
      private=['open_', 'closed'],
      locals_={'children': 'Set[Node]'},
      loops={
          0: dict(inv=[INV_G, I1, I2, I3, FWDOK]),
          1: dict(inv=[INV_G, J1, J2, I3, JCH, 'node in closed', FWDOK], modifies=['open_']),
      },
      ensures=[
          # the walk closed a set of nodes that contains the start nodes, is closed under the
          # dependency relation and consists of stable nodes only: a fixed point on everything reachable
          'implies(%s, self.graph.entry in final_closed)' % FWD,
          'implies(not (%s), forall(lambda s: implies(s in self.graph.exit, s in final_closed), "Node"))' % FWD,
          'forall(lambda n, c: implies(n in final_closed and c in %s, c in final_closed), "Node", "Node")' % DEP,
          'forall(lambda n: implies(n in final_closed, n in self.stable), "Node")',
      ],
      assumes=['ghost field GraphVisitor.forward: the analysis direction matches the walk mode (precondition)',
               'ghost field GraphVisitor.stable abstracts "the dataflow equation of this node holds"',
               'termination of the worklist is not proved']))
