"""C14 -- builtin overloads: with no registered override, each overload performs exactly one call of the
builtin with the arguments as supplied (event mode; symbolic parameters cover every call shape, an omitted
optional parameter being the module-private UNSPECIFIED sentinel / the declared default)."""
from pvc.world import Contract

B = 'malt.operators.py_builtins.'
NAMES = ['abs', 'float', 'int', 'len', 'range', 'enumerate', 'next', 'filter', 'any', 'all', 'sorted']

SPECS = {
    'abs_': ('def spec(x):\n  return abs(x)\n', ['_py_abs']),
    'float_': ('def spec(x=0):\n  return float(x)\n', ['_py_float']),
    'int_': ('''
def spec(x=0, base=UNSPECIFIED):
  if base is UNSPECIFIED:
    return int(x)
  return int(x, base)
''', ['_py_int']),
    'len_': ('def spec(s):\n  return len(s)\n', ['_py_len']),
    'range_': ('''
def spec(start_or_stop, stop=UNSPECIFIED, step=UNSPECIFIED):
  if step is not UNSPECIFIED:
    return range(start_or_stop, stop, step)
  if stop is not UNSPECIFIED:
    return range(start_or_stop, stop)
  return range(start_or_stop)
''', ['_py_range']),
    'enumerate_': ('def spec(iterable, start=0):\n  return enumerate(iterable, start)\n', ['_py_enumerate']),
    'next_': ('''
def spec(iterator, default=UNSPECIFIED):
  if default is UNSPECIFIED:
    return next(iterator)
  return next(iterator, default)
''', ['_py_next']),
    'filter_': ('def spec(function, iterable):\n  return filter(function, iterable)\n', ['_py_filter']),
    'any_': ('def spec(iterable):\n  return any(iterable)\n', ['_py_any']),
    'all_': ('def spec(iterable):\n  return all(iterable)\n', ['_py_all']),
    'sorted_': ('''
def spec(iterable, key=UNSPECIFIED, reverse=UNSPECIFIED):
  if key is UNSPECIFIED and reverse is UNSPECIFIED:
    return sorted(iterable)
  if key is UNSPECIFIED:
    return sorted(iterable, reverse=reverse)
  if reverse is UNSPECIFIED:
    return sorted(iterable, key=key)
  return sorted(iterable, key=key, reverse=reverse)
''', ['_py_sorted']),
}


def register(w):
  for n in NAMES + ['zip', 'map', 'print']:
    w.global_objects[B + n + '_registry'] = 'TypeRegistry'
  for fn, (spec, helpers) in SPECS.items():
    w.add(Contract(
        B + fn, mode='event', serves=['C14'], spec=spec, opaque_builtins=NAMES,
        inline=[B + 'registry_lookup'] + [B + h for h in helpers],
        assumes=['no override is registered for the argument types (registries are empty by default)',
                 'the result object of the builtin is returned as it is (same laziness)']))


  # property C13 ("everything else is called as it is") / C14: the overload of a builtin is chosen by the IDENTITY of
  # the function -- membership in SUPPORTED_BUILTINS -- never by its name alone: a callable that is not one of the
  # supported builtins is returned unchanged, whatever its __name__.
  w.global_objects[B + 'SUPPORTED_BUILTINS'] = 'Set[Any]'
  w.global_objects[B + 'BUILTIN_FUNCTIONS_MAP'] = 'Dict[Any,Any]'
  w.add(Contract(
      B + 'overload_of', serves=['C13', 'C14'], types={'f': 'Any'}, modifies=[],
      raises={'KeyError': 'f in SUPPORTED_BUILTINS and not (f.__name__ in BUILTIN_FUNCTIONS_MAP)'},
      ensures=['implies(not (f in SUPPORTED_BUILTINS), result is f)',
               'implies(f in SUPPORTED_BUILTINS, result is BUILTIN_FUNCTIONS_MAP[f.__name__])'],
      assumes=['T: the tuple SUPPORTED_BUILTINS is modelled as a set (membership only); builtins compare by identity']))
