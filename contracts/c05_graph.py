"""C05 -- well-formedness of the graph under construction (malt/pyct/cfg.py GraphBuilder primitives).

"successor and predecessor links mirror each other": INV_G is an invariant of every edge-creating primitive.
The same INV_G is the precondition of the worklist proof (dataflow_cfg.py), so what is proved here discharges
an assumption of C06 / C07 / C19 for graphs produced by the builder."""
from pvc.world import Contract, ClassInfo

C = 'malt.pyct.cfg.'
INV_G = 'forall(lambda a, b: (b in a.next) == (a in b.prev), "Node", "Node")'
# every node owns its two edge sets (Node.__init__ is always called with fresh sets by the builder)
OWN = ('forall(lambda a, b: a.next is not b.prev and implies(a is not b, a.next is not b.next and a.prev is not b.prev), '
       '"Node", "Node")')
SAME_SETS = 'forall(lambda a: a.next is old(a.next) and a.prev is old(a.prev), "Node")'
NO_NEW_NODES = 'forall(lambda a: not fresh(a), "Node@now")'


def register(w):
  w.add_class(ClassInfo('GraphBuilder', module='malt.pyct.cfg', fields={
      'head': 'Opt[Node]', 'leaves': 'Set[Node]', 'node_index': 'Dict[AST,Node]', 'owners': 'Dict[Node,Any]',
      'active_stmts': 'Set[AST]', 'forward_edges': 'Set[Any]', 'finally_sections': 'Dict[Node,Any]',
      'pending_finally_sections': 'Set[AST]', 'finally_section_subgraphs': 'Dict[AST,Any]'}))
  EDGES_OTHER = 'forall(lambda a: self.forward_edges is not a.next and self.forward_edges is not a.prev, "Node")'

  CN = C + 'GraphBuilder._connect_nodes'
  # case 1: `first` is a node -- one edge, precise frame
  w.add(Contract(
      CN + '#node', target=CN, serves=['C05', 'C06', 'C07', 'C19'],
      types={'first': 'Node', 'second': 'Node'},
      requires=[INV_G, OWN, EDGES_OTHER],
      modifies=['contents(first.next)', 'contents(second.prev)', 'contents(self.forward_edges)'],
      ensures=[NO_NEW_NODES, INV_G, 'second in first.next', 'first in second.prev',
               # exactly the requested edge is added, nothing is removed
               'forall(lambda a, b: (b in a.next) == (old(b in a.next) or (a is first and b is second)), "Node", "Node")']))
  # case 2: `first` is a set of nodes (the leaves): one edge per member, through case 1
  w.add(Contract(
      CN + '#set', target=CN, serves=['C05', 'C06', 'C07', 'C19'], calls={CN: CN + '#node'},
      types={'first': 'Set[Node]', 'second': 'Node'},
      requires=[INV_G, OWN, EDGES_OTHER, 'first is not self.forward_edges',
                'forall(lambda a: first is not a.next and first is not a.prev, "Node")'],
      modifies=['*'],
      loops={0: dict(inv=[NO_NEW_NODES, INV_G, OWN, EDGES_OTHER, SAME_SETS, 'unchanged(first)',
                          'self.forward_edges is old(self.forward_edges)',
                          # edges so far: the old ones plus (n, second) for the members already handled
                          'forall(lambda a, b: (b in a.next) == (old(b in a.next) or (b is second and a in first and a in _done)), '
                          '"Node", "Node")'])},
      ensures=[NO_NEW_NODES, INV_G, OWN, EDGES_OTHER, SAME_SETS, 'self.forward_edges is old(self.forward_edges)',
               'unchanged(first)',
               'forall(lambda a, b: (b in a.next) == (old(b in a.next) or (old(a in first) and b is second)), "Node", "Node")']))

  # a new CFG node: no edges of its own, then one edge from every current leaf
  LEAVES_OTHER = ('self.leaves is not self.forward_edges and self.pending_finally_sections is not self.forward_edges and '
                  'forall(lambda a: self.leaves is not a.next and self.leaves is not a.prev and '
                  'self.pending_finally_sections is not a.next and self.pending_finally_sections is not a.prev, "Node")')
  NOW2 = lambda t: t.replace('"Node", "Node"', '"Node@now", "Node@now"')

  def post(r):
    return ['fresh(%s)' % r, 'forall(lambda a: implies(a is not %s, not fresh(a)), "Node@now")' % r,
            NOW2(INV_G), NOW2(OWN), EDGES_OTHER.replace('"Node"', '"Node@now"'),
            'forall(lambda a: a.next is old(a.next) and a.prev is old(a.prev), "Node")',
            'self.forward_edges is old(self.forward_edges)',
            'forall(lambda b: b not in %s.next, "Node@now")' % r,
            'forall(lambda a: (a in %s.prev) == old(a in self.leaves), "Node@now")' % r,
            'forall(lambda a, b: (b in a.next) == (old(b in a.next) or (b is %s and old(a in self.leaves))), '
            '"Node", "Node@now")' % r]
  # rep invariant of the finally bookkeeping: a pending section has its [entry, exits] record
  PEND = ('forall(lambda s: implies(s in self.pending_finally_sections, s in self.finally_section_subgraphs and '
          'len(self.finally_section_subgraphs[s]) >= 1), "AST")')
  w.classes['GraphBuilder'].fields['finally_section_subgraphs'] = \
      __import__('pvc.core', fromlist=['parse_type']).parse_type('Dict[AST,List[Any]]')
  w.field_types['finally_section_subgraphs'] = w.classes['GraphBuilder'].fields['finally_section_subgraphs']
  w.add(Contract(
      C + 'GraphBuilder._add_new_node', serves=['C05', 'C06', 'C07', 'C19'], calls={CN: CN + '#node'},
      types={'ast_node': 'AST', 'return': 'Node'}, inline=[C + 'Node.__init__'],
      pure={'str.%': 'str'},
      requires=[INV_G, OWN, EDGES_OTHER, LEAVES_OTHER, PEND,
                # the builder owns its tables (GraphBuilder.reset creates each of them afresh)
                'distinct((self.node_index, self.owners, self.finally_section_subgraphs, self.finally_sections))',
                'distinct((self.leaves, self.active_stmts, self.forward_edges, self.pending_finally_sections))'],
      raises={'ValueError': 'ast_node in self.node_index'},
      modifies=['*'],
      locals_={'node': 'Node'},
      loops={0: dict(inv=['fresh(node)', 'node is not None', 'fresh(node.next) and fresh(node.prev)',
                          'self.pending_finally_sections is old(self.pending_finally_sections)',
                          'unchanged(self.pending_finally_sections)',
                          'self.finally_section_subgraphs is old(self.finally_section_subgraphs)',
                          'unchanged(self.finally_section_subgraphs)',
                          'forall(lambda s: implies(s in self.finally_section_subgraphs, len(self.finally_section_subgraphs[s]) '
                          '== old(len(self.finally_section_subgraphs[s]))), "AST")',
                          'forall(lambda a: implies(a is not node, not fresh(a)), "Node@now")',
                          NOW2(INV_G), NOW2(OWN), EDGES_OTHER.replace('"Node"', '"Node@now"'),
                          'forall(lambda a: a.next is old(a.next) and a.prev is old(a.prev), "Node")',
                          'unchanged(self.leaves)', 'self.leaves is old(self.leaves)',
                          'self.forward_edges is old(self.forward_edges)',
                          'forall(lambda b: b not in node.next, "Node@now")',
                          'forall(lambda a: (a in node.prev) == (a in self.leaves and a in _done), "Node@now")',
                          'forall(lambda a, b: (b in a.next) == (old(b in a.next) or (b is node and a in self.leaves and a in _done)), '
                          '"Node", "Node@now")']),
             # (the finally bookkeeping touches no edge set)
             1: dict(inv=['node is not None', 'self.pending_finally_sections is old(self.pending_finally_sections)',
                          'unchanged(self.pending_finally_sections)', PEND.replace('"AST"', '"AST@now"')] + post('node'))},
      ensures=post('result')))

  w.add(Contract(
      C + 'GraphBuilder.add_ordinary_node', serves=['C05'], types={'ast_node': 'AST', 'return': 'Node'},
      requires=[INV_G, OWN, EDGES_OTHER, LEAVES_OTHER, PEND,
                'distinct((self.node_index, self.owners, self.finally_section_subgraphs, self.finally_sections))',
                'distinct((self.leaves, self.active_stmts, self.forward_edges, self.pending_finally_sections))'],
      raises={'ValueError': 'ast_node in self.node_index'},
      modifies=['*'],
      ensures=post('result') + ['fresh(self.leaves)', 'forall(lambda a: (a in self.leaves) == (a is result), "Node@now")']))
  w.add(Contract(
      C + 'GraphBuilder._add_jump_node', serves=['C05'], types={'ast_node': 'AST', 'guards': 'Any', 'return': 'Node'},
      requires=[INV_G, OWN, EDGES_OTHER, LEAVES_OTHER, PEND,
                'distinct((self.node_index, self.owners, self.finally_section_subgraphs, self.finally_sections))',
                'distinct((self.leaves, self.active_stmts, self.forward_edges, self.pending_finally_sections))'],
      raises={'ValueError': 'ast_node in self.node_index'},
      modifies=['*'],
      ensures=post('result') + ['fresh(self.leaves)', 'isempty(self.leaves)']))
  # freezing replaces both edge sets by copies with the same members
  w.add(Contract(
      C + 'Node.freeze', serves=['C05'], requires=[INV_G], modifies=['self.next', 'self.prev'],
      ensures=[INV_G, 'fresh(self.next) and fresh(self.prev)',
               'forall(lambda b: (b in self.next) == old(b in self.next) and (b in self.prev) == old(b in self.prev), "Node")']))
