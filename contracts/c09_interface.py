"""C09 -- calling interface of converted functions: default expressions are erased, never re-evaluated."""
from pvc.world import Contract, ClassInfo

T = 'malt.pyct.transpiler.'
NONE_EXPR = 'parser.parse_expression("None")'


def register(w):
  w.add_class(ClassInfo('FunctionDefNode', bases=['AST'], fields={'args': 'ArgumentsNode'}))
  w.add_class(ClassInfo('ArgumentsNode', bases=['AST'],
                        fields={'defaults': 'List[AST]', 'kw_defaults': 'List[Any]'}))
  w.add_class(ClassInfo('GenericTranspiler', module='malt.pyct.transpiler'))

  # every default expression and every non-None keyword-only default becomes the constant `None`
  # (a None entry of kw_defaults marks a keyword-only parameter WITHOUT default and must stay None);
  # lengths are unchanged, so the signature keeps its shape and no default expression is evaluated again
  w.add(Contract(
      T + 'GenericTranspiler._erase_arg_defaults', serves=['C09'],
      types={'node': 'FunctionDefNode', 'return': 'FunctionDefNode'},
      pure={'malt.pyct.parser.parse_expression': 'AST'},
      requires=['node.args.defaults is not node.args.kw_defaults', '%s is not None' % NONE_EXPR],
      modifies=['contents(node.args.defaults)', 'contents(node.args.kw_defaults)'],
      locals_={'args': 'ArgumentsNode'},
      loops={
          0: dict(modifies=['contents(args.defaults)'], inv=[
              'len(args.defaults) == pre(len(args.defaults))',
              'forall(lambda j: implies(0 <= j and j < _i, args.defaults[j] is %s), "int")' % NONE_EXPR]),
          1: dict(modifies=['contents(args.kw_defaults)'], inv=[
              'len(args.kw_defaults) == pre(len(args.kw_defaults))',
              'forall(lambda j: implies(0 <= j and j < _i, '
              '(args.kw_defaults[j] is None) == pre(args.kw_defaults[j] is None) and '
              'implies(args.kw_defaults[j] is not None, args.kw_defaults[j] is %s)), "int")' % NONE_EXPR,
              'forall(lambda j: implies(_i <= j and j < len(args.kw_defaults), '
              'args.kw_defaults[j] is pre(args.kw_defaults[j])), "int")']),
      },
      ensures=[
          'result is node',
          'len(node.args.defaults) == old(len(node.args.defaults))',
          'len(node.args.kw_defaults) == old(len(node.args.kw_defaults))',
          'forall(lambda j: implies(0 <= j and j < len(node.args.defaults), node.args.defaults[j] is %s), "int")' % NONE_EXPR,
          'forall(lambda j: implies(0 <= j and j < len(node.args.kw_defaults), '
          '(node.args.kw_defaults[j] is None) == old(node.args.kw_defaults[j] is None)), "int")',
          'forall(lambda j: implies(0 <= j and j < len(node.args.kw_defaults) and node.args.kw_defaults[j] is not None, '
          'node.args.kw_defaults[j] is %s), "int")' % NONE_EXPR,
      ],
      assumes=['parser.parse_expression is modelled as a pure function of its text (a None constant node)',
               'parse_expression("None") is not the None object']))
