"""C09 -- calling interface of converted functions: default expressions are erased, never re-evaluated."""
from pvc.world import Contract, ClassInfo

T = 'malt.pyct.transpiler.'


def register(w):
  w.add_class(ClassInfo('FunctionDefNode', bases=['AST'], fields={'args': 'ArgumentsNode'}))
  w.add_class(ClassInfo('ArgumentsNode', bases=['AST'],
                        fields={'defaults': 'List[AST]', 'kw_defaults': 'List[Any]'}))
  w.add_class(ClassInfo('GenericTranspiler', module='malt.pyct.transpiler'))

  # parse_expression builds a NEW tree on every call (T: it calls ast.parse); which literal it denotes is a ghost
  # predicate of the node (heap-independent: the engine does not model the fields of Constant nodes)
  w.pure['is_none_literal'] = 'bool'
  w.add(Contract(
      'malt.pyct.parser.parse_expression', abstract=True, serves=['C09', 'C17'], ghost={'params': ['src']},
      types={'src': 'str', 'return': 'AST'}, modifies=[],
      ensures=['fresh(result)', 'result is not None', 'implies(src == "None", is_none_literal(result))'],
      assumes=['T: parser.parse_expression(text) returns a freshly parsed expression node for the text']))

  # every default expression and every non-None keyword-only default becomes a `None` literal of its own
  # (a None entry of kw_defaults marks a keyword-only parameter WITHOUT default and must stay None);
  # lengths are unchanged, so the signature keeps its shape and no default expression is evaluated again;
  # the placeholders are distinct new nodes (C17: no node object occurs twice in the tree)
  PH = 'is_none_literal(%s) and fresh(%s)'
  w.add(Contract(
      T + 'GenericTranspiler._erase_arg_defaults', serves=['C09', 'C17'],
      types={'node': 'FunctionDefNode', 'return': 'FunctionDefNode'},
      requires=['node.args.defaults is not node.args.kw_defaults'],
      modifies=['contents(node.args.defaults)', 'contents(node.args.kw_defaults)'],
      locals_={'args': 'ArgumentsNode'},
      loops={
          0: dict(modifies=['contents(args.defaults)'], inv=[
              'len(args.defaults) == pre(len(args.defaults))',
              'forall(lambda j: implies(0 <= j and j < _i, %s), "int")' % (PH % ('args.defaults[j]', 'args.defaults[j]')),
              'forall(lambda j, k: implies(0 <= j and j < k and k < _i, args.defaults[j] is not args.defaults[k]), "int", "int")']),
          1: dict(modifies=['contents(args.kw_defaults)'], inv=[
              'len(args.kw_defaults) == pre(len(args.kw_defaults))',
              'forall(lambda j: implies(0 <= j and j < _i, '
              '(args.kw_defaults[j] is None) == pre(args.kw_defaults[j] is None) and '
              'implies(args.kw_defaults[j] is not None, %s)), "int")' % (PH % ('args.kw_defaults[j]', 'args.kw_defaults[j]')),
              'forall(lambda j, k: implies(0 <= j and j < k and k < _i and args.kw_defaults[j] is not None, '
              'args.kw_defaults[j] is not args.kw_defaults[k]), "int", "int")',
              'forall(lambda j, k: implies(0 <= j and j < len(args.defaults) and 0 <= k and k < _i, '
              'args.defaults[j] is not args.kw_defaults[k]), "int", "int")',
              'forall(lambda j: implies(_i <= j and j < len(args.kw_defaults), '
              'args.kw_defaults[j] is pre(args.kw_defaults[j])), "int")']),
      },
      ensures=[
          'result is node',
          'len(node.args.defaults) == old(len(node.args.defaults))',
          'len(node.args.kw_defaults) == old(len(node.args.kw_defaults))',
          'forall(lambda j: implies(0 <= j and j < len(node.args.defaults), %s), "int")'
          % (PH % ('node.args.defaults[j]', 'node.args.defaults[j]')),
          'forall(lambda j: implies(0 <= j and j < len(node.args.kw_defaults), '
          '(node.args.kw_defaults[j] is None) == old(node.args.kw_defaults[j] is None)), "int")',
          'forall(lambda j: implies(0 <= j and j < len(node.args.kw_defaults) and node.args.kw_defaults[j] is not None, %s), "int")'
          % (PH % ('node.args.kw_defaults[j]', 'node.args.kw_defaults[j]')),
          # tree-ness of the placeholders
          'forall(lambda j, k: implies(0 <= j and j < k and k < len(node.args.defaults), '
          'node.args.defaults[j] is not node.args.defaults[k]), "int", "int")',
          'forall(lambda j, k: implies(0 <= j and j < k and k < len(node.args.kw_defaults) and node.args.kw_defaults[j] is not None, '
          'node.args.kw_defaults[j] is not node.args.kw_defaults[k]), "int", "int")',
          'forall(lambda j, k: implies(0 <= j and j < len(node.args.defaults) and 0 <= k and k < len(node.args.kw_defaults), '
          'node.args.defaults[j] is not node.args.kw_defaults[k]), "int", "int")',
      ]))

  # ---- instantiate: closure cells are matched to the factory's free variables BY NAME ---------------------
  w.add_class(ClassInfo('_PythonFnFactory', module='malt.pyct.transpiler', fields={
      '_name': 'Any', '_freevars': 'Seq[str]', '_extra_locals': 'Any', '_unbound_factory': 'Opt[PyCallable]',
      'module': 'Any', 'source_map': 'Any'}))
  w.add_class(ClassInfo('CodeObject', fields={'co_freevars': 'Seq[str]'}))
  w.classes['PyCallable'].fields['__code__'] = __import__('pvc.core', fromlist=['parse_type']).parse_type('CodeObject')
  w.classes['PyCallable'].fields['__closure__'] = __import__('pvc.core', fromlist=['parse_type']).parse_type('Any')
  w.add(Contract(
      'types.FunctionType', abstract=True, serves=['C09'],
      ghost={'params': ['code', 'globals', 'name', 'argdefs', 'closure']},
      types={'return': 'PyCallable'}, modifies=[],
      ensures=['fresh(result)', 'result.__code__ is code', 'result.__globals__ is globals', 'result.__closure__ is closure'],
      assumes=['T: types.FunctionType builds a function object over exactly the given code, globals and closure cells']))
  NAMES = 'self._unbound_factory.__code__.co_freevars'
  w.add(Contract(
      'malt.pyct.transpiler._PythonFnFactory.instantiate', serves=['C09'],
      types={'globals_': 'Any', 'closure': 'Seq[Any]', 'defaults': 'Any', 'kwdefaults': 'Any'},
      pure={'str.format': 'str'},
      requires=['self._unbound_factory is not None',
                # the factory was created for this function: one cell per recorded free variable, recorded names are
                # distinct (co_freevars of the original function) and the factory code references a subset of them
                'len(self._freevars) == len(closure)',
                'forall(lambda a, b: implies(0 <= a and a < b and b < len(self._freevars), self._freevars[a] != self._freevars[b]), "int", "int")',
                'forall(lambda i: implies(0 <= i and i < len(%s), exists(lambda j: 0 <= j and j < len(self._freevars) and '
                'self._freevars[j] == %s[i], "int")), "int")' % (NAMES, NAMES)],
      raises={'ValueError': 'len(%s) != len(closure)' % NAMES, 'OpaqueException': True},
      modifies=['*'],
      opaque_preserves=['unchanged(factory_closure)', 'unchanged(closure)', 'bound_factory.__closure__ is old(bound_factory.__closure__)',
                        'bound_factory.__globals__ is old(bound_factory.__globals__)',
                        'bound_factory.__code__ is old(bound_factory.__code__)'],
      ensures=[
          # property C09: "shares the same closure cells": cell i of the new function's factory is the ORIGINAL cell of
          # the variable with the same name, whatever the order and number of names the generated code references
          'final_bound_factory.__closure__ is final_factory_closure',
          'len(final_factory_closure) == len(closure)',
          'forall(lambda i, j: implies(0 <= i and i < len(old(%s)) and 0 <= j and j < len(closure) and '
          'old(self._freevars[j]) == old(%s[i]), final_factory_closure[i] is old(closure[j])), "int", "int")' % (NAMES, NAMES),
          # "resolves global names in the same module dictionary"
          'final_bound_factory.__globals__ is globals_',
          'final_bound_factory.__code__ is old(self._unbound_factory.__code__)',
          # "default and keyword-only default values are the same objects" -- re-attached unconditionally
          'result.__defaults__ is defaults', 'result.__kwdefaults__ is kwdefaults'],
      assumes=['T: tuples are immutable and the __code__/__globals__/__closure__ cannot be rebound by the call '
               'of the factory (opaque_preserves)',
               'the new function is what the bound factory returns (opaque call)']))

  # ---- the per-function driver: what is resolved, reserved and erased, and in which order (event mode) -------
  # C12: origin information is attached to the freshly parsed tree, before any rewriting; C11: the namer is seeded
  # with the function's own namespace (globals + closure) and the transformed name comes from that namer;
  # C09: defaults are erased before transform_ast and the context carries the namer and the user context.
  w.add(Contract(
      'malt.pyct.transpiler.GenericTranspiler.transform_function', mode='event', serves=['C09', 'C11', 'C12'],
      callbacks=['get_transformed_name', '_erase_arg_defaults', 'transform_ast', 'new_symbol', 'malt.pyct.naming.Namer'],
      spec='''
def spec(self, fn, user_context):
  future_features = inspect_utils.getfutureimports(fn)
  node, source = parser.parse_entity(fn, future_features=future_features)
  origin_info.resolve_entity(node, source, fn)
  namespace = inspect_utils.getnamespace(fn)
  namer = naming.Namer(namespace)
  new_name = namer.new_symbol(self.get_transformed_name(node), ())
  entity_info = transformer.EntityInfo(name=new_name, source_code=source, source_file='<fragment>',
                                       future_features=future_features, namespace=namespace)
  context = transformer.Context(entity_info, namer, user_context)
  node = self._erase_arg_defaults(node)
  result = self.transform_ast(node, context)
  return result, context
'''))
