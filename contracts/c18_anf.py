"""C18 -- small kernels of the ANF transformer (malt/pyct/common_transformers/anf.py)."""
from pvc.world import Contract, ClassInfo

N = 'malt.pyct.common_transformers.anf.'


def register(w):
  w.add_class(ClassInfo('DummyGensym', module='malt.pyct.common_transformers.anf', fields={'_idx': 'int'}))
  w.add_class(ClassInfo('AnfTransformer', module='malt.pyct.common_transformers.anf',
                        fields={'_pending_statements': 'List[AST]', '_overrides': 'Any'}))
  # temporaries do not collide with each other: the counter strictly increases and each name is a function
  # of the counter value (T: str() is injective on ints)
  w.add(Contract(
      N + 'DummyGensym.new_name', serves=['C18'], types={'stem': 'str', 'return': 'str'}, pure={'builtins.str': 'str'},
      modifies=['self._idx'],
      ensures=['self._idx == old(self._idx) + 1'],
      assumes=['T: formatting distinct integers gives distinct names']))
  w.add(Contract(
      N + 'AnfTransformer._consume_pending_statements', serves=['C18'], types={'return': 'List[AST]'},
      modifies=['self._pending_statements'],
      ensures=['result is old(self._pending_statements)', 'unchanged(result)',
               'fresh(self._pending_statements)', 'len(self._pending_statements) == 0']))
  w.add(Contract(
      N + 'AnfTransformer._add_pending_statement', serves=['C18'], types={'stmt': 'AST'},
      modifies=['contents(self._pending_statements)'],
      ensures=['len(self._pending_statements) == old(len(self._pending_statements)) + 1',
               'self._pending_statements[-1] is stmt',
               'forall(lambda i: implies(0 <= i and i < old(len(self._pending_statements)), '
               'self._pending_statements[i] is old(self._pending_statements[i])), "int")']))
