"""Run-time evaluation of the converted_call policy table on concrete targets (replay hook for the
event-mode contract of malt.impl.api.converted_call): for each policy branch, is the target run exactly
once, converted or not, and is the decision remembered (conversion.cache_allowlisted) or not."""
import functools
import json
import sys

from malt.core import ag_ctx, converter
from malt.impl import api, conversion


def main():
  failures, n = [], 0
  remembered, converted, calls = [], [], []
  real_cache, real_conv = conversion.cache_allowlisted, api._convert_actual

  def spy_cache(entity, options):
    remembered.append(entity)
    return real_cache(entity, options)

  def spy_conv(entity, ctx):
    converted.append(entity)
    return real_conv(entity, ctx)
  conversion.cache_allowlisted = spy_cache
  api._convert_actual = spy_conv

  def mk():
    def target(a, b=2):
      calls.append((a, b))
      return a + b
    return target

  def run(label, f, opts, ctx_status, want_conv, want_remember, args=(1,), kwargs=None, want_calls=1, result=3):
    nonlocal n
    n += 1
    del remembered[:], converted[:], calls[:]
    try:
      if ctx_status is None:
        r = api.converted_call(f, args, kwargs, options=opts)
      else:
        with ag_ctx.ControlStatusCtx(status=ctx_status):
          r = api.converted_call(f, args, kwargs, options=opts)
    except Exception as e:
      failures.append(dict(kind='policy', sig=label, what='%s: raised %s: %s' % (label, type(e).__name__, str(e)[:100])))
      return
    bad = []
    if r != result:
      bad.append('result %r != %r' % (r, result))
    if len(calls) != want_calls:
      bad.append('target ran %d times' % len(calls))
    if bool(converted) != want_conv:
      bad.append('converted=%s expected %s' % (bool(converted), want_conv))
    if bool(remembered) != want_remember:
      bad.append('remembered=%s expected %s' % (bool(remembered), want_remember))
    if bad:
      failures.append(dict(kind='policy', sig=label, what='%s: %s' % (label, '; '.join(bad))))

  O = converter.ConversionOptions
  rec = O(recursive=True, user_requested=False, optional_features=None)
  usr = O(recursive=True, user_requested=True, optional_features=None)
  norec = O(recursive=False, user_requested=False, internal_convert_user_code=False, optional_features=None)
  S = ag_ctx.Status
  # disabled context: unconverted, NOT remembered; the same target is converted later in an enabled context
  t = mk()
  run('disabled-context', t, rec, S.DISABLED, False, False)
  run('enabled-after-disabled', t, rec, S.ENABLED, True, False)
  # remembered decision: served from the cache without remembering again
  t = mk()
  conversion.cache_allowlisted(t, rec)
  run('in-allowlist-cache', t, rec, S.ENABLED, False, False)
  # artifact: unconverted and remembered
  t = api.autograph_artifact(mk())
  run('artifact', t, rec, S.ENABLED, False, True)
  # non-recursive mode: unconverted and remembered
  run('non-recursive', mk(), norec, S.UNSPECIFIED, False, True)
  # plain function, recursive: converted, not remembered
  run('plain-recursive', mk(), rec, S.UNSPECIFIED, True, False)
  run('plain-user-requested', mk(), usr, None, True, False)
  # partial: documented call of a partial, keywords not mutated
  t = mk()
  p = functools.partial(t, b=5)
  run('partial', p, rec, S.ENABLED, True, False, args=(1,), result=6)
  run('partial-kw-override', p, rec, S.ENABLED, True, False, args=(1,), kwargs={'b': 9}, result=10)
  if p.keywords != {'b': 5}:
    failures.append(dict(kind='policy', sig='partial-keywords-mutated', what='f.keywords was mutated'))
  # builtin: routed to its overload, never converted / remembered
  n += 1
  del remembered[:], converted[:]
  if api.converted_call(len, ([1, 2],), None, options=rec) != 2 or converted or remembered:
    failures.append(dict(kind='policy', sig='builtin', what='builtin not routed to its overload'))
  # native callables that are NOT the Python builtins are called as they are, whatever their __name__ (the overload
  # of a builtin is chosen by the identity of the function, not by its name)
  import decimal
  import math
  import operator
  dctx = decimal.Context(prec=2)
  for label, f, args in (('native-named-like-a-builtin:decimal.Context.abs', dctx.abs, (decimal.Decimal('-1.234'),)),
                         ('native-named-like-a-builtin:operator.abs', operator.abs, (-3,)),
                         ('native:math.sqrt', math.sqrt, (16.0,)),
                         ('native:list.index', [3, 1, 2].index, (1,)),
                         ('native:str.split', 'a-b'.split, ('-',))):
    n += 1
    del remembered[:], converted[:]
    want = f(*args)
    try:
      got = api.converted_call(f, args, None, options=rec)
      if got != want or type(got) is not type(want) or converted:
        failures.append(dict(kind='policy', sig=label, what='%s%r through converted_call gives %r, the direct call gives %r'
                                                            % (label, args, got, want)))
    except Exception as e:  # pylint:disable=broad-except
      failures.append(dict(kind='policy', sig=label, what='%s%r: raised %s: %s' % (label, args, type(e).__name__, str(e)[:100])))
  # constructor: unsupported -> unconverted, remembered

  class K(object):
    def __init__(self, a):
      self.a = a
  n += 1
  del remembered[:], converted[:]
  k = api.converted_call(K, (4,), None, options=rec)
  if not isinstance(k, K) or k.a != 4 or converted or not remembered:
    failures.append(dict(kind='policy', sig='constructor', what='constructor call not transparent / not remembered'))
  # a target's own exception is never swallowed

  def boom(a):
    raise KeyError(a)
  n += 1
  try:
    api.converted_call(boom, (1,), None, options=rec)
    failures.append(dict(kind='policy', sig='target-exception', what='exception of the target swallowed'))
  except KeyError:
    pass
  except Exception as e:
    failures.append(dict(kind='policy', sig='target-exception', what='exception type changed to %s' % type(e).__name__))
  print(json.dumps(dict(evaluated=n, distinct_nontrivial=n, failures=failures[:6],
                        rule='one concrete call per branch of the documented policy table, plus the two-step '
                             'sequence disabled-then-enabled',
                        samples=['converted_call(target, (1,), None, options=recursive) under ControlStatusCtx(DISABLED) '
                                 'then under ENABLED'])))


main()
