"""C11 bounded stand-in: generated names never capture, shadow or clash with user names.

Program space: progen skeletons (K <= 2 quick, 3 thorough) + seeded random programs, whose identifiers are
RENAMED (AST level, injective, consistent) to names drawn from the converter's own vocabulary (do_return,
retval_, break_, continue_, fscope, lscope, get_state, set_state, if_body, else_body, loop_body, loop_test,
extra_test, itr + numbered variants), in every role of the quantifier: local
read+written, read only, parameter (of f, of nested functions, of the helpers converted recursively), global
(read only and `global`-declared + assigned), free variable of a closure, nested function name, loop target,
and the converted function's own name.

Oracles, per (program, renaming):
  1. C01 differential observation (outcome / tracer events / mutable argument / module globals) of the renamed
     original vs malt.to_graph(renamed original), over adaptively explored decision vectors;
  2. hygiene (literal clause of C11): every name returned by malt.pyct.naming.Namer.new_symbol while converting an
     entity (the function itself and every helper converted recursively at run time; Namer.new_symbol and
     api._convert_actual are wrapped in this process) is disjoint from the identifiers occurring in the
     entity's source and from its namespace (globals + closure).

Kept out of the default space by construction, carried by explicit witnesses instead (fixed finding keys):
  D13  the names vars_, tuple, dict, ag__                        -> known-D13-vars_ / -tuple / -ag__
  D5   write-only (never read) uses of vocabulary names           -> known-D5        (--space writeonly re-derives)
  new  bindings of INNER isolated scopes (parameters of nested defs, lambda parameters, comprehension
       variables) named like generated names: they are not reserved in the enclosing function
       (activity.Scope.finalize propagates read - bound), found by this stand-in      (--space inner re-derives)
       -> new-inner-binding-clobbered / new-inner-binding-captures-fscope / new-inner-binding-coincides
  new  a global read by f that is defined only after conversion and named ag__<f> / inner_factory
       (new_symbol(..., ()) reserves nothing)                                      -> new-late-global-captured

usage: c11_names.py <seed> <tier> [--k K] [--random N] [--space default|inner|writeonly|full] [--maxfail N]
"""
import argparse
import ast
import builtins
import hashlib
import inspect
import os
import random
import shutil
import sys
import textwrap

sys.path.insert(0, os.path.dirname(os.path.abspath(__file__)))
import harness
import progen

import malt
from malt.impl import api
from malt.pyct import naming

VOCAB = ['do_return', 'retval_', 'break_', 'continue_', 'fscope', 'lscope', 'get_state', 'set_state',
         'if_body', 'else_body', 'loop_body', 'loop_test', 'extra_test', 'itr']
# requested with an empty reserved set by transpiler._PythonFnFactory.create; a user LOCAL of that name shadows the
# factory harmlessly although the literal hygiene clause is violated: only drawn with --space full
VOCAB_EXTRA = ['inner_factory', 'outer_factory']
EXCLUDED = ['vars_', 'tuple', 'dict', 'ag__']          # D13
GV = 'gv_counter'                                      # injected `global`-declared, assigned global
BUILTIN_NAMES = set(dir(builtins))


# ------------------------------------------------------------------------------------------- scope analysis

class Sc(object):
  def __init__(self, kind, name, parent, node=None):
    self.kind, self.name, self.parent, self.node = kind, name, parent, node
    self.bound, self.read, self.params, self.targets, self.defs = set(), set(), set(), set(), set()
    self.nonlocals, self.globals = set(), set()
    self.children = []
    if parent is not None:
      parent.children.append(self)

  def descendants(self):
    for c in self.children:
      yield c
      for d in c.descendants():
        yield d

  def path(self):
    return (self.parent.path() + '/' if self.parent is not None and self.parent.kind != 'module' else '') + str(self.name)


class ScopeBuilder(ast.NodeVisitor):
  """Python's binding rules, enough of them for generated test programs and for malt's generated code."""

  def __init__(self):
    self.root = Sc('module', '<module>', None)
    self.cur = self.root

  def _function(self, node, name, body):
    for d in getattr(node, 'decorator_list', []):
      self.visit(d)
    a = node.args
    for d in list(a.defaults) + [d for d in a.kw_defaults if d is not None]:
      self.visit(d)
    s = Sc('function', name, self.cur, node)
    for arg in a.posonlyargs + a.args + a.kwonlyargs + [x for x in (a.vararg, a.kwarg) if x is not None]:
      s.params.add(arg.arg)
      s.bound.add(arg.arg)
    prev, self.cur = self.cur, s
    for st in body:
      self.visit(st)
    self.cur = prev

  def visit_FunctionDef(self, node):
    self.cur.bound.add(node.name)
    self.cur.defs.add(node.name)
    self._function(node, node.name, node.body)

  visit_AsyncFunctionDef = visit_FunctionDef

  def visit_Lambda(self, node):
    self._function(node, '<lambda>', [node.body])

  def visit_ClassDef(self, node):
    self.cur.bound.add(node.name)
    for b in node.bases + node.decorator_list:
      self.visit(b)
    s = Sc('class', node.name, self.cur, node)
    prev, self.cur = self.cur, s
    for st in node.body:
      self.visit(st)
    self.cur = prev

  def _comp(self, node, elts):
    gens = node.generators
    self.visit(gens[0].iter)
    s = Sc('comp', '<comp>', self.cur, node)
    prev, self.cur = self.cur, s
    for i, g in enumerate(gens):
      if i:
        self.visit(g.iter)
      self.visit(g.target)
      for c in g.ifs:
        self.visit(c)
    for e in elts:
      self.visit(e)
    self.cur = prev

  def visit_ListComp(self, node):
    self._comp(node, [node.elt])

  visit_SetComp = visit_GeneratorExp = visit_ListComp

  def visit_DictComp(self, node):
    self._comp(node, [node.key, node.value])

  def visit_Name(self, node):
    if isinstance(node.ctx, ast.Load):
      self.cur.read.add(node.id)
    elif isinstance(node.ctx, ast.Store):
      self.cur.bound.add(node.id)
    else:
      self.cur.bound.add(node.id)
      self.cur.read.add(node.id)

  def visit_AugAssign(self, node):
    if isinstance(node.target, ast.Name):
      self.cur.read.add(node.target.id)     # an augmented assignment reads its target
      self.cur.bound.add(node.target.id)
    else:
      self.visit(node.target)
    self.visit(node.value)

  def visit_For(self, node):
    self.visit(node.iter)
    for n in ast.walk(node.target):
      if isinstance(n, ast.Name):
        self.cur.targets.add(n.id)
    self.visit(node.target)
    for st in node.body + node.orelse:
      self.visit(st)

  def visit_Global(self, node):
    self.cur.globals.update(node.names)

  def visit_Nonlocal(self, node):
    self.cur.nonlocals.update(node.names)

  def visit_ExceptHandler(self, node):
    if node.name:
      self.cur.bound.add(node.name)
    self.generic_visit(node)

  def visit_alias(self, node):
    self.cur.bound.add((node.asname or node.name).split('.')[0])


def build_scopes(tree):
  b = ScopeBuilder()
  b.visit(tree)
  return b.root


def resolve(s, name):
  """The scope whose binding an occurrence of `name` in scope `s` refers to (module scope = global/builtin)."""
  cur, first = s, True
  skip_own = name in s.nonlocals
  while cur is not None:
    if cur.kind == 'module':
      return cur
    if name in cur.globals:
      while cur.parent is not None:
        cur = cur.parent
      return cur
    if cur.kind == 'class' and not first:
      pass
    elif name in cur.bound and name not in cur.nonlocals and not (first and skip_own):
      return cur
    cur, first = cur.parent, False
  return None


def all_scopes(root):
  yield root
  for d in root.descendants():
    yield d


def write_only_names(root):
  """Names bound in a function-like scope and read by nobody who can see that binding."""
  out = set()
  for s in all_scopes(root):
    if s.kind not in ('function', 'comp'):
      continue
    for n in s.bound - s.globals - s.nonlocals:
      if n in s.read:
        continue
      if any(n in d.read and resolve(d, n) is s for d in s.descendants()):
        continue
      out.add(n)
  return out


def propagated_read(s):
  """Reads of a scope as malt's activity analysis propagates them: an isolated inner scope hands up read - bound."""
  out = set(s.read)
  for c in s.children:
    out |= propagated_read(c) - c.bound - c.nonlocals - c.globals if c.kind in ('function', 'comp') else propagated_read(c)
  return out


def inner_only_names(root):
  """Names bound in an inner isolated scope (nested def, lambda, comprehension) that no enclosing function
  reads: Scope.referenced of the enclosing function does not contain them, so they are not reserved there."""
  out = set()
  for s in all_scopes(root):
    if s.kind != 'function':
      continue
    reserved, cur = set(), s
    while cur is not None and cur.kind != 'module':
      reserved |= propagated_read(cur)
      cur = cur.parent
    for d in s.descendants():
      if d.kind in ('function', 'comp'):
        out |= (d.bound - d.nonlocals - d.globals) - reserved
  return out


def roles_of(root, names, fname):
  """Role tags (quantifier vocabulary) of each of `names`, from the scopes of the program."""
  tags = set()
  for s in all_scopes(root):
    for n in names:
      if s.kind == 'module':
        if n in s.bound:
          tags.add((n, 'function_name' if n == fname else 'global'))
        continue
      if n in s.params:
        tags.add((n, 'parameter'))
        if n not in s.read and not any(n in d.read and resolve(d, n) is s for d in s.descendants()):
          tags.add((n, 'assigned_only'))
      if n in s.targets:
        tags.add((n, 'loop_target'))
      if n in s.defs:
        tags.add((n, 'nested_function_name'))
      if n in s.globals:
        tags.add((n, 'global'))
      if n in s.read or n in s.bound:
        r = resolve(s, n)
        if r is not None and r is not s:
          if r.kind == 'module':
            tags.add((n, 'global'))
            if n not in s.bound:
              tags.add((n, 'read_only'))
          else:
            tags.add((n, 'free_variable'))
            if n in s.nonlocals:
              tags.add((n, 'free_variable_written'))
        elif r is s and n in s.bound and n not in s.params:
          rd = n in s.read or any(n in d.read and resolve(d, n) is s for d in s.descendants())
          tags.add((n, 'local_read_written' if rd else 'assigned_only'))
        if r is s and n in s.params and n in s.read and not (n in s.bound - s.params):
          tags.add((n, 'read_only'))
  return tags


def identifiers(tree):
  out = set()
  for n in ast.walk(tree):
    if isinstance(n, ast.Name):
      out.add(n.id)
    elif isinstance(n, ast.arg):
      out.add(n.arg)
    elif isinstance(n, (ast.FunctionDef, ast.ClassDef)):
      out.add(n.name)
    elif isinstance(n, (ast.Global, ast.Nonlocal)):
      out.update(n.names)
    elif isinstance(n, ast.ExceptHandler) and n.name:
      out.add(n.name)
  return out


# ------------------------------------------------------------------------------------------- program rewriting

class _Rename(ast.NodeTransformer):
  def __init__(self, m):
    self.m = m

  def visit_Name(self, node):
    node.id = self.m.get(node.id, node.id)
    return node

  def visit_arg(self, node):
    node.arg = self.m.get(node.arg, node.arg)
    return node

  def visit_keyword(self, node):
    if node.arg is not None:
      node.arg = self.m.get(node.arg, node.arg)
    self.generic_visit(node)
    return node

  def visit_FunctionDef(self, node):
    node.name = self.m.get(node.name, node.name)
    self.generic_visit(node)
    return node

  def visit_ClassDef(self, node):
    node.name = self.m.get(node.name, node.name)
    self.generic_visit(node)
    return node

  def visit_Global(self, node):
    node.names = [self.m.get(n, n) for n in node.names]
    return node

  visit_Nonlocal = visit_Global

  def visit_ExceptHandler(self, node):
    if node.name:
      node.name = self.m.get(node.name, node.name)
    self.generic_visit(node)
    return node


class _UniqueParams(ast.NodeTransformer):
  """p of nested function g_N becomes p_N, so that different nested functions can get different names."""

  def __init__(self):
    self.stack = []

  def visit_FunctionDef(self, node):
    mine = node.name.startswith('g_') and [a.arg for a in node.args.args] == ['p']
    self.stack.append('p_' + node.name[2:] if mine else (None if node.name.startswith('g_') else '='))
    if mine:
      node.args.args[0].arg = self.stack[-1]
    self.generic_visit(node)
    self.stack.pop()
    return node

  def visit_Name(self, node):
    if node.id == 'p':
      for s in reversed(self.stack):
        if s == '=':
          break
        if s:
          node.id = s
          break
    return node


def prepare(src, with_gv):
  """Canonical (unparsed) form of a progen program, nested parameters made unique, optional injected global."""
  tree = ast.parse(src)
  tree = _UniqueParams().visit(tree)
  if with_gv:
    f = [n for n in tree.body if isinstance(n, ast.FunctionDef) and n.name == 'f'][0]
    bump = ast.parse('global %s\n%s = %s + 1' % (GV, GV, GV)).body
    tail = ast.parse('%s = %s + 2' % (GV, GV)).body
    f.body = bump + f.body[:-1] + tail + f.body[-1:]
    tree.body = ast.parse('%s = 0' % GV).body + tree.body
  ast.fix_missing_locations(tree)
  return ast.unparse(tree) + '\n'


def rename(src, mapping):
  tree = ast.parse(src)
  tree = _Rename(mapping).visit(tree)
  ast.fix_missing_locations(tree)
  out = ast.unparse(tree) + '\n'
  for alias in ('G', 'f'):              # the harness finds these under their original names
    if alias in mapping:
      out += '%s = %s\n' % (alias, mapping[alias])
  if GV in mapping:
    out += '_GVNAME = %r\n' % mapping[GV]
  return out


def classify(ident):
  if ident == 'q' or ident == 'p' or ident.startswith('p_'):
    return 'inner'                     # lambda parameter / comprehension variable / nested-def parameter
  if ident in ('x', 'y', 'z', 'w', 'print_', 'err'):
    return 'local'
  if ident.startswith('fuel_') or ident.startswith('i_') or ident.startswith('j_'):
    return 'loop'
  if ident.startswith('g_'):
    return 'nested'
  if ident in ('t', 'c', 'a', 'k', 'rest', 'exc', 'self'):
    return 'param'
  if ident in ('G', 'h1', 'h2', 'CM', 'Box', GV, 'f'):
    return 'global'
  return None


def relevant_roots(tree):
  """Roots the converter is likely to ask for on this program (static guess; only biases the choice)."""
  r = ['fscope', 'do_return', 'retval_']
  for n in ast.walk(tree):
    if isinstance(n, ast.If):
      r += ['get_state', 'set_state', 'if_body', 'else_body']
    elif isinstance(n, ast.While):
      r += ['get_state', 'set_state', 'loop_body', 'loop_test']
    elif isinstance(n, ast.For):
      r += ['get_state', 'set_state', 'loop_body', 'itr', 'extra_test']
    elif isinstance(n, ast.Break):
      r += ['break_']
    elif isinstance(n, ast.Continue):
      r += ['continue_']
    elif isinstance(n, ast.Lambda):
      r += ['lscope']
  return sorted(set(r))


def draw_names(rnd, n, relevant, style, taken, with_extra=False):
  rel = [b for b in relevant]
  rnd.shuffle(rel)
  others = [b for b in VOCAB + (VOCAB_EXTRA if with_extra else []) if b not in rel]
  rnd.shuffle(others)
  bases = rel + others
  seq = []
  if style == 'numbered':        # base and its numbered variants together
    for b in bases:
      seq += [b, b + '_1', b + '_2']
  elif style == 'gap':           # numbered variants without the base, or with holes
    for b in bases:
      seq += rnd.choice([[b + '_1'], [b, b + '_2'], [b + '_1', b + '_2'], [b + '_2']])
  else:
    seq = list(bases) + [b + '_1' for b in bases] + [b + '_2' for b in bases]
  out = []
  for s in seq:
    if s not in taken and s not in out:
      out.append(s)
    if len(out) == n:
      break
  return out


STRATEGIES = [('local', 'plain'), ('loop', 'plain'), ('nested', 'plain'), ('param', 'plain'),
              ('global', 'plain'), ('all', 'plain'), ('all', 'numbered'), ('all', 'gap'), ('inner', 'plain')]
GROUPS = ['local', 'loop', 'nested', 'param', 'global', 'inner']

KEY_ROLE = dict(local='local', loop='loop-variable', nested='nested-function-name', param='parameter',
                inner='inner-scope-binding')


def key_role(k):
  if k == 'f':
    return 'function-name'
  if k == GV:
    return 'assigned-global'
  return KEY_ROLE.get(classify(k), 'other') if classify(k) != 'global' else 'global'


def make_mapping(rnd, src, group, style, allow_write_only, allow_inner, with_extra=False):
  tree = ast.parse(src)
  idents = identifiers(tree)
  root = build_scopes(tree)
  wo = set() if allow_write_only else write_only_names(root)
  inner = set() if allow_inner else inner_only_names(root)
  cands = sorted(i for i in idents if classify(i) and i not in wo and i not in inner and not i.startswith('__'))
  if group != 'all':
    cands = [i for i in cands if classify(i) == group]
  else:
    keep = [i for i in cands if rnd.random() < 0.7]
    cands = keep or cands[:1]
  rnd.shuffle(cands)
  names = draw_names(rnd, len(cands), relevant_roots(tree), style, idents | BUILTIN_NAMES, with_extra)
  return dict(zip(cands, names))


# ------------------------------------------------------------------------------------------- instrumentation

_REC = []          # one record per conversion: dict(entity, transformed, names=[(root, name, collided)])
_STACK = []
_FALLBACKS = []
_orig_new_symbol = naming.Namer.new_symbol
_orig_convert_actual = api._convert_actual
_orig_fall_back = api._fall_back_unconverted


def _new_symbol(self, name_root, reserved_locals):
  reserved_locals = list(reserved_locals)
  name = _orig_new_symbol(self, name_root, reserved_locals)
  flat = set()
  for s in reserved_locals:
    flat.update(s.qn if hasattr(s, 'qn') else [s])
  pieces = name_root.split('_')
  first = '_'.join(pieces[:-1]) if pieces[-1].isdigit() else name_root
  collided = first in self.global_namespace or first in flat or any(str(x) == first for x in flat)
  if _STACK:
    _STACK[-1]['names'].append((name_root, name, bool(collided)))
  return name


def _convert_actual(entity, program_ctx):
  rec = dict(entity=entity, transformed=None, names=[])
  _STACK.append(rec)
  try:
    rec['transformed'] = _orig_convert_actual(entity, program_ctx)
    return rec['transformed']
  finally:
    _STACK.pop()
    _REC.append(rec)


def _fall_back(f, args, kwargs, options, exc):
  _FALLBACKS.append('%s: %s: %s' % (getattr(f, '__name__', f), type(exc).__name__, str(exc)[:160]))
  return _orig_fall_back(f, args, kwargs, options, exc)


def install():
  naming.Namer.new_symbol = _new_symbol
  api._convert_actual = _convert_actual
  api._fall_back_unconverted = _fall_back


def _entity_tree(entity):
  try:
    return ast.parse(textwrap.dedent(inspect.getsource(entity)))
  except (OSError, TypeError, SyntaxError, IndentationError):
    return None


def hygiene(rec):
  """Literal C11 clause: names returned by new_symbol for this conversion vs. identifiers of the entity's source
  and its namespace (globals + closure).  Returns the list of coinciding names, each with where the user uses it."""
  entity = rec['entity']
  gen = [n for _, n, _ in rec['names']]
  if not gen:
    return []
  ns = set(getattr(entity, '__globals__', {}))
  ns.update(getattr(getattr(entity, '__code__', None), 'co_freevars', ()))
  tree = _entity_tree(entity)
  ids = identifiers(tree) if tree is not None else set()
  bad = []
  for n in gen:
    if n in ns:
      bad.append(dict(name=n, where=['namespace (globals/closure) of %s' % getattr(entity, '__name__', entity)]))
    elif n in ids:
      bad.append(dict(name=n, where=where_used(build_scopes(tree), n)))
  return bad


def where_used(root, name):
  out = []
  top = [c for c in root.children if c.kind == 'function']
  for s in all_scopes(root):
    if s.kind == 'module' or not (name in s.bound or name in s.read):
      continue
    is_top = any(s is t for t in top)
    if name in s.params:
      what = 'parameter'
    elif name in s.bound and name not in s.nonlocals and name not in s.globals:
      what = 'comprehension variable' if s.kind == 'comp' else 'local'
    else:
      r = resolve(s, name)
      what = 'global/builtin read' if (r is None or r.kind == 'module') else 'free variable'
    owner = {'function': 'the function itself' if is_top else 'nested function %s' % s.name,
             'comp': 'a comprehension', 'class': 'class %s' % s.name}[s.kind]
    if s.name == '<lambda>':
      owner = 'a lambda'
    out.append('%s of %s' % (what, owner))
  return sorted(set(out))


# ------------------------------------------------------------------------------------------- running a case


def observe(fn, mod, bits, a0=(5, 7)):
  """harness.observe + the injected rebinding global."""
  t = harness.Tracer()
  c = harness.Decisions(bits, t)
  a = list(a0)
  mod.G[0] = 0
  gvname = getattr(mod, '_GVNAME', GV)
  has_gv = hasattr(mod, gvname)
  if has_gv:
    setattr(mod, gvname, 0)
  try:
    r = fn(t, c, a)
    outcome = ('return', repr(r))
  except RecursionError:
    outcome = ('raise', 'RecursionError')
  except Exception as e:
    outcome = ('raise', harness.exc_kind(e))
  return dict(outcome=outcome, events=t.events, a=repr(a),
              G=(mod.G[0], getattr(mod, gvname, None) if has_gv else None), used=c.i)


def _short(o):
  d = dict(o)
  d['events'] = d['events'][:30]
  return d


_SERIAL = [0]


def run_case(src, name, maxlen=6, cap=32, extra_globals=None):
  """Convert f of `src`, compare, check hygiene.  -> dict(failure, runs, collided, generated, events)."""
  res = dict(runs=0, failure=None, collided=0, generated=0, events=0)
  _SERIAL[0] += 1
  name = '%s_%d' % (name, _SERIAL[0])       # never reuse a file name: inspect/linecache key on it
  del _REC[:]
  del _FALLBACKS[:]
  try:
    mod = harness.load_source(src, name)
  except SyntaxError as e:
    res['failure'] = dict(kind='generator-bug', sig='syntax', what='renamed program does not compile: %s' % e)
    return res
  try:
    if extra_globals:
      mod.__dict__.update(extra_globals)
    try:
      g = malt.to_graph(mod.f, recursive=True)
    except BaseException as e:       # SyntaxError from loading generated code escapes to_graph unwrapped
      if isinstance(e, (KeyboardInterrupt, SystemExit)):
        raise
      res['failure'] = dict(kind='conversion-error', sig=type(e).__name__,
                            what='to_graph raised %s: %s' % (type(e).__name__, str(e)[:300]))
      return res

    def run(bits):
      o1 = observe(mod.f, mod, bits)
      o2 = observe(g, mod, bits)
      res['runs'] += 1
      res['events'] = max(res['events'], len(o1['events']))
      implicit = o1['outcome'][0] == 'raise' and o1['outcome'][1] != 'ValueError'
      if implicit:
        same = o1['outcome'] == o2['outcome']
      else:
        same = (o1['outcome'], o1['events'], o1['a'], o1['G']) == (o2['outcome'], o2['events'], o2['a'], o2['G'])
      if res['failure'] is None and not same:
        res['failure'] = dict(kind='observable-difference',
                              sig=o2['outcome'][1] if o2['outcome'][0] == 'raise' else 'value',
                              decisions=list(bits), what='renamed original and its conversion differ',
                              original=_short(o1), converted=_short(o2))
      return o1['used']
    harness.adaptive_vectors(run, max_len=maxlen, cap=cap)
    for rec in _REC:
      res['generated'] += len(rec['names'])
      res['collided'] += sum(1 for _, _, c in rec['names'] if c)
      bad = hygiene(rec)
      if bad and res['failure'] is None:
        res['failure'] = dict(kind='generated-name-visible', sig='hygiene-only',
                              what='new_symbol returned %r while converting %s; the user source uses that name as: %s '
                              '(no behavioural difference observed in this case)'
                              % (bad[0]['name'], getattr(rec['entity'], '__qualname__', rec['entity']),
                                 '; '.join(bad[0]['where'])), all=bad)
    if _FALLBACKS and res['failure'] is None:
      res['failure'] = dict(kind='conversion-fallback', sig=_FALLBACKS[0].split(':')[1].strip(),
                            what='a recursively converted helper failed to convert and ran as-is: %s' % _FALLBACKS[0])
  finally:
    harness.unload(name)
  return res


def _base(n):
  for v in VOCAB + VOCAB_EXTRA:
    if n == v or (n.startswith(v + '_') and n[len(v) + 1:].isdigit()):
      return v
  return n


def build_case(item):
  """(base program, renaming) of a case; built in the worker, from seeds only."""
  idx, spec, group, style, mseed, allow_wo, allow_inner, with_extra, label = item
  if spec[0] == 'skeleton':
    base = prepare(progen.skeleton_program(spec[1]), with_gv=spec[2])
  else:
    base = prepare(progen.random_program(spec[1], size=spec[2], avoid=('D1', 'D2', 'D6')), with_gv=spec[3])  # D18: except-as names are kept out of the renaming space (explicit witness below)
  return base, make_mapping(random.Random(mseed), base, group, style, allow_wo, allow_inner, with_extra)


def check_case(item):
  idx, label = item[0], item[-1]
  base_src, mapping = build_case(item)
  if not mapping:
    return dict(idx=idx, skipped=True)
  name = 'vp_c11_%d_%d' % (os.getpid(), idx)
  src = rename(base_src, mapping)
  res = run_case(src, name)
  res.update(idx=idx, label=label, skipped=False, mapping=mapping,
             hash=hashlib.sha1((base_src + repr(sorted(mapping.items()))).encode()).hexdigest())
  if label.startswith('random') and 2 <= len(mapping) <= 5 and res['collided']:
    res['sample'] = src[-500:]
  fname = mapping.get('f', 'f')
  res['roles'] = sorted(set((_base(n), r) for n, r in roles_of(build_scopes(ast.parse(src)), sorted(mapping.values()), fname)))
  if res['failure'] is not None:
    f = res['failure']
    # is the renaming responsible?  the same program under the identity renaming must pass
    f['fails_without_renaming'] = run_case(rename(base_src, {}), name + '_b')['failure'] is not None
    f['program'] = src
    f['mapping'] = mapping
    f['base'] = base_src
  return res


def minimise(item):
  """Greedy: drop renamed identifiers while the case still fails with the same kind."""
  idx, base_src, mapping, kind = item
  name = 'vp_c11m_%d_%d' % (os.getpid(), idx)
  cur = dict(mapping)
  for k in sorted(mapping):
    trial = dict(cur)
    del trial[k]
    r = run_case(rename(base_src, trial), name)
    if r['failure'] is not None and r['failure']['kind'] == kind:
      cur = trial
  return idx, cur, run_case(rename(base_src, cur), name)['failure']


# ------------------------------------------------------------------------------------------- witnesses

HEAD = 'G = [0]\n'

# (kind, sig, program, what).  known-* are the recorded defects D5 / D13; new-* were found by this stand-in.
WITNESSES = [
    ('known-D5', 'write-only-break_', HEAD + '''
def f(t, c, a):
  for i in range(3):
    break_ = 'user'
    if c():
      break
  return locals()['break_']
''', "a write-only user local named break_ in a loop with a break is clobbered by the generated control variable"),
    ('known-D5', 'write-only-loop-target-break_', HEAD + '''
def f(t, c, a):
  for break_ in range(1, 4):
    t(1)
    if c():
      break
  return 0
''', "a never-read loop target named break_ doubles as the generated break flag: the loop stops after one iteration"),
    ('known-D13-vars_', 'state-variable-vars_', HEAD + '''
def f(t, c, a):
  vars_ = 0
  if c():
    vars_ = 1
  return vars_
''', "a user state variable named vars_ clashes with the hard-coded parameter of the generated state setter"),
    ('known-D13-tuple', 'local-tuple', HEAD + '''
def h(*args):
  return args

def f(t, c, a):
  tuple = t
  return h(1, *a)
''', "a user local named tuple is called by the generated positional-argument packing"),
    ('known-D13-tuple', 'local-dict', HEAD + '''
def h(**kw):
  return sorted(kw)

def f(t, c, a):
  dict = t
  kw = {'k': 1}
  return h(j=2, **kw)
''', "a user local named dict is called by the generated keyword-argument packing"),
    ('known-D13-ag__', 'global-ag__', HEAD + '''
ag__ = 'user global'

def f(t, c, a):
  return ag__
''', "a user global named ag__ is shadowed by the injected operator module"),
    ('new-inner-binding-clobbered', 'nested-def-param-else_body', HEAD + '''
def f(t, c, a):
  if c():
    y = 0
  else:
    def g(else_body):
      return else_body
    y = g(1)
  return y
''', "parameter of a nested def inside an else branch named else_body: not reserved (inner bound names never reach "
     "Scope.referenced) and leaked into the branch's `bound` (D7), so `else_body = ag__.Undefined('else_body')` is "
     "emitted after the generated `def else_body()` -> TypeError: 'Undefined' object is not callable"),
    ('new-inner-binding-clobbered', 'lambda-param-loop_body', HEAD + '''
def f(t, c, a):
  y = 0
  for i in range(2):
    y = (lambda loop_body: loop_body + 1)(y)
  return y
''', "lambda parameter inside a for body named loop_body: `loop_body = ag__.Undefined('loop_body')` overwrites the "
     "generated body function"),
    ('new-inner-binding-captures-fscope', 'lambda-param-fscope', HEAD + '''
def f(t, c, a):
  return (lambda fscope: fscope + t(1))(2)
''', "a lambda parameter named fscope captures the function-scope variable that generated converted_call(...) "
     "arguments inside the lambda body refer to -> AttributeError: 'int' object has no attribute 'callopts'"),
    ('new-inner-binding-captures-fscope', 'comprehension-var-fscope', HEAD + '''
def f(t, c, a):
  return [t(fscope) for fscope in range(2)]
''', "a comprehension variable named fscope captures the function-scope variable used by converted_call inside the "
     "comprehension"),
    ('new-inner-binding-coincides', 'nested-def-param-retval_', HEAD + '''
def f(t, c, a):
  def g(retval_):
    return retval_ + 1
  return g(t(1))
''', "new_symbol returns retval_ for f although f's source uses retval_ (parameter of the nested g): hygiene clause "
     "only, g gets its own retval__1 and behaves"),
]

# sanity probes: roles the renaming cannot produce; expected to pass (reported as probe-* only when they fail)
PROBES = [
    ('global-present-at-conversion', 'inner_factory', HEAD + '''
def f(t, c, a):
  return inner_factory(t(1))
''', dict(inner_factory=lambda v: ('user', v))),
    ('global-read-in-loop', 'itr', HEAD + '''
def f(t, c, a):
  z = 0
  for i in a:
    z = z + itr
  return z
''', dict(itr=3)),
    ('read-by-augmented-assignment-only', 'break_', HEAD + '''
def f(t, c, a):
  break_ = 10
  for i in range(3):
    break_ += 1
    if c():
      break
  return t(0)
''', None),
    ('deleted-only', 'continue_', HEAD + '''
def f(t, c, a):
  continue_ = 1
  for i in range(2):
    t(i)
    if c():
      continue
    t(9)
  del continue_
  return 0
''', None),
    ('closure-reads-enclosing-local', 'fscope', HEAD + '''
def f(t, c, a):
  fscope = 7
  def g():
    return fscope + t(1)
  return g()
''', None),
]


def late_global_probe():
  """A global that f reads but that is defined only AFTER conversion (role: global, not yet in the namespace)."""
  out, status = [], {}
  for gname in ['inner_factory', 'outer_factory', 'ag__f', 'fscope', 'do_return', 'retval_', 'if_body', 'get_state']:
    src = HEAD + 'def f(t, c, a):\n  if c():\n    return 1\n  return %s\n' % gname
    name = 'vp_c11_late_%d_%s' % (os.getpid(), gname)
    mod = harness.load_source(src, name)
    try:
      try:
        g = malt.to_graph(mod.f)
        setattr(mod, gname, 'user value defined later')
        want = mod.f(lambda k: k, lambda: False, [])
        try:
          got = g(lambda k: k, lambda: False, [])
        except Exception as e:
          got = 'raised %s' % type(e).__name__
      except Exception as e:
        want, got = 'converts', 'to_graph raised %s: %s' % (type(e).__name__, str(e)[:100])
      status['new-late-global-captured:' + gname] = 'passes' if repr(got) == repr(want) else 'fails'
      if repr(got) != repr(want):
        out.append(dict(kind='new-late-global-captured', sig=gname,
                        what='global %r read by f but defined after malt.to_graph(f) (new_symbol(.., ()) reserves '
                        'nothing for ag__<f>/inner_factory): original gives %r, conversion gives %.120r' % (gname, want, got),
                        program=src, replay='g = malt.to_graph(f); define the global; call f and g with c() False'))
    finally:
      harness.unload(name)
  return status, out


def run_witnesses():
  status, failures = {}, []
  for i, (kind, sig, src, what) in enumerate(WITNESSES):
    r = run_case(src, 'vp_c11_w_%d_%d' % (os.getpid(), i))
    status['%s:%s' % (kind, sig)] = 'fails' if r['failure'] else 'passes'
    if r['failure']:
      f = r['failure']
      failures.append(dict(kind=kind, sig=sig, what='%s [%s: %s]' % (what, f['kind'], f['what'][:240]), program=src,
                           replay='write `program` to a file, import it, compare f with malt.to_graph(f) (c01 observation)',
                           observed={k: v for k, v in f.items() if k in ('decisions', 'original', 'converted', 'all')}))
  for i, (kind, sig, src, extra) in enumerate(PROBES):
    r = run_case(src, 'vp_c11_p_%d_%d' % (os.getpid(), i), extra_globals=extra)
    status['probe-%s:%s' % (kind, sig)] = 'fails' if r['failure'] else 'passes'
    if r['failure']:
      f = r['failure']
      failures.append(dict(kind='probe-' + kind, sig=sig, what='%s: %s' % (f['kind'], f['what'][:300]), program=src,
                           extra_globals=sorted(extra or ()), observed={k: v for k, v in f.items() if k in ('decisions', 'original', 'converted', 'all')}))
  return status, failures


# ------------------------------------------------------------------------------------------- main

def main():
  ap = argparse.ArgumentParser()
  ap.add_argument('seed', type=int)
  ap.add_argument('tier')
  ap.add_argument('--k', type=int, default=None)
  ap.add_argument('--random', type=int, default=None)
  ap.add_argument('--space', default='default', choices=['default', 'inner', 'writeonly', 'full'])
  ap.add_argument('--maxfail', type=int, default=10)
  a = ap.parse_args()
  thorough = a.tier == 'thorough'
  K = a.k if a.k is not None else (3 if thorough else 2)
  nrand = a.random if a.random is not None else (10000 if thorough else 1000)
  allow_wo = a.space in ('writeonly', 'full')
  allow_inner = a.space in ('inner', 'full')
  install()
  scratch = harness.scratch_dir()        # created before the fork: one directory for all workers, removed below
  rnd = random.Random(a.seed)
  items = []
  nskel = 0
  flags = (allow_wo, allow_inner, a.space == 'full')

  def add(spec, group, style, label):
    items.append((len(items), spec, group, style, rnd.getrandbits(48)) + flags + (label,))
  for tree in progen.skeletons(K):
    nskel += 1
    if K >= 3 and nskel % 4 and progen.control_count(tree) == 3:
      continue                                   # thorough: every 4th program of the K=3 layer
    for group, style in STRATEGIES:
      add(('skeleton', tree, nskel % 2 == 0), group, style, 'skeleton/%s/%s' % (group, style))
  for i in range(nrand):
    spec = ('random', a.seed * 1000003 + i, 2 + (i % 5), i % 3 == 0)
    add(spec, 'all', ['plain', 'numbered', 'gap'][i % 3], 'random/all/%s' % ['plain', 'numbered', 'gap'][i % 3])
    if i % 3 == 0:
      g = GROUPS[(i // 3) % len(GROUPS)]
      add(spec, g, 'plain', 'random/%s/plain' % g)

  runs = cases = nontrivial = generated = collided = 0
  seen, roles, raw_failures, samples = set(), set(), [], []
  for r in harness.pool_map(check_case, items, chunksize=4):
    if r['skipped']:               # nothing to rename in that group (or everything excluded)
      continue
    cases += 1
    runs += r['runs']
    generated += r['generated']
    collided += r['collided']
    roles.update(tuple(x) for x in r['roles'])
    if r['collided'] and r['events'] > 3 and r['hash'] not in seen:
      seen.add(r['hash'])
      nontrivial += 1
      if len(samples) < 2 and 'sample' in r:
        samples.append(dict(mapping=r['mapping'], label=r['label'], program=r['sample']))
    if r['failure']:
      raw_failures.append((r['idx'], r['failure'], r['label']))

  # minimise (renaming-wise) a diverse selection, then one failure per (kind, roles of the minimal renaming, outcome)
  raw_failures.sort(key=lambda x: (len(x[1].get('mapping', {})), len(x[1].get('program', '')), x[0]))
  todo, pre = [], {}
  for idx, f, label in raw_failures:
    k = (f['kind'], f['sig'], label.split('/')[1])
    if pre.get(k, 0) < 3 and len(todo) < 48 and 'mapping' in f:
      pre[k] = pre.get(k, 0) + 1
      todo.append((idx, f['base'], f['mapping'], f['kind']))
  minimised = {}
  if todo:
    for idx, m, f in harness.pool_map(minimise, todo, chunksize=1):
      if f is not None:
        minimised[idx] = (m, f)
  failures, keys = [], set()
  for idx, f, label in raw_failures:
    if idx not in minimised:
      continue
    m, f2 = minimised[idx]
    f2 = dict(f2)
    f2.update(fails_without_renaming=f['fails_without_renaming'], mapping=m, program=rename(f['base'], m), label=label)
    f2['sig'] = '%s:%s' % ('+'.join(sorted(set(key_role(k) for k in m))) or 'no-renaming', f2['sig'])
    f2['names'] = sorted(m.values())
    f2['replay'] = ('write `program` to a file, import it, compare f with malt.to_graph(f) on `decisions` '
                    '(c01 observation); `mapping` is the minimal renaming of the progen program')
    key = (f2['kind'], f2['sig'])
    if key in keys:
      continue
    keys.add(key)
    if len(failures) < a.maxfail:
      failures.append(f2)

  wstatus, wfail = run_witnesses()
  lstatus, lfail = late_global_probe()
  wstatus.update(lstatus)
  wanted_roles = ['local_read_written', 'read_only', 'parameter', 'global', 'free_variable',
                  'nested_function_name', 'loop_target', 'function_name']
  cov = {r: sorted(b for b, rr in roles if rr == r and b in VOCAB) for r in wanted_roles + ['assigned_only']}
  excluded = ['names vars_/tuple/dict/ag__ (D13)']
  if not allow_wo:
    excluded.append('write-only uses of vocabulary names (D5)')
  if not allow_inner:
    excluded.append('inner-scope bindings (nested-def parameters, lambda parameters, comprehension variables) renamed '
                    'into the vocabulary (new finding, see new-inner-binding-* witnesses)')
  shutil.rmtree(scratch, ignore_errors=True)
  tm = os.times()
  harness.emit(dict(
      evaluated=runs, cases=cases, cpu_seconds=round(tm[0] + tm[2], 1), skeleton_programs=nskel, random_programs=nrand, K=K,
      distinct_nontrivial=nontrivial, new_symbol_calls=generated, new_symbol_collisions_with_user_names=collided,
      space=a.space, excluded_by_construction=excluded,
      vocabulary_names_per_role={r: len(v) for r, v in cov.items()},
      roles_missing={r: sorted(set(VOCAB) - set(v)) for r, v in cov.items() if r in wanted_roles and set(VOCAB) - set(v)},
      failing_cases=len(raw_failures),
      witnesses=wstatus,
      rule=('progen skeletons K<=%d x %d renaming strategies + %d random programs x 1-2 renamings; identifiers renamed '
            'injectively into the converter vocabulary (%d roots, +_1/_2 variants); each '
            'case explored over <=32 adaptive decision vectors of length <=6; evaluated = (original, converted) run '
            'pairs; non-trivial = distinct (program, renaming) where at least one new_symbol request collided with a '
            'user name (non-trivial branch of Namer.new_symbol) and some run produced > 3 events'
            % (K, len(STRATEGIES), nrand, len(VOCAB))),
      samples=samples, failures=failures + wfail + lfail))


if __name__ == '__main__':
  main()
