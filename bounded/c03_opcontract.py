"""C03 bounded stand-in: emitted operator calls obey the operator calling contract (g3doc/reference/operators.md).

Checking wrappers are installed on the ag__ module object (if_stmt, while_stmt, for_stmt; if_exp, and_, or_, not_) and
every dynamic invocation made while a converted program runs is checked, then forwarded to the original operator:

  state      len(symbol_names) == len(get_state()); get_state takes no argument, set_state exactly one; the variables
             named by symbol_names, evaluated in the frame that defines get_state, equal get_state() position by
             position (a composite name that does not resolve must read as ag__.Undefined); get_state() twice is equal and
             silent (no tracer event, no decision consumed); set_state(get_state()) leaves every named variable
             identical; set_state rejects a tuple one longer / one shorter; set_state(sentinels); get_state() returns the
             sentinels and the frame variables are the sentinels; the original state is restored right after.
             Writes are only attempted when every name resolves (writing an Undefined back would create the attribute).
  arities    if_stmt: body(), orelse(), 0 <= nouts <= len(symbol_names); while_stmt: test(), body(); for_stmt: body(itr),
             extra_test is None or extra_test(); if_exp(cond, thunk, thunk, str); and_/or_(thunk, thunk); not_(value).
  opts       a dict; for_stmt: 'iterate_names' is the loop target and the remaining keys/values are exactly the
             set_loop_options directive written as first statement of *that* loop in the source (recomputed from the
             source); while_stmt: exactly the directive, nothing else.
A run whose observable behaviour differs from the original's is reported (kind harness): the checks must not disturb it.

usage: c03_opcontract.py <seed> <tier> [--random N] [--k K] [--options a,b,...] [--budget S]
"""
import argparse
import hashlib
import inspect
import os
import random
import re
import sys
import time
import traceback

sys.path.insert(0, os.path.dirname(os.path.abspath(__file__)))
import harness
import opspace
import progen

import malt

FUEL = re.compile(r'^fuel_\d+$')


class Sentinel(object):
  def __init__(self, i):
    self.i = i

  def __repr__(self):
    return '<sentinel %d>' % self.i


class _Unresolved(object):
  def __repr__(self):
    return '<unresolved>'


UNRESOLVED = _Unresolved()


def nparams(fn):
  """(number of positional parameters without default, accepts exactly that many)"""
  try:
    ps = list(inspect.signature(fn).parameters.values())
  except (TypeError, ValueError):
    return None
  if any(p.kind in (p.VAR_POSITIONAL, p.VAR_KEYWORD) for p in ps):
    return 'variadic'
  if any(p.kind == p.KEYWORD_ONLY and p.default is p.empty for p in ps):
    return 'kwonly'
  return len([p for p in ps if p.default is p.empty]) if all(p.default is p.empty for p in ps) else 'defaults'


class Checker(object):
  def __init__(self):
    self.ag = opspace.ag_module()
    self.saved = {}
    self.gfile = None
    self.expected = {}
    self.tracer = None
    self.decisions = None
    self.reset()

  def reset(self):
    self.violations = []       # (sig, what)
    self.invocations = 0
    self.sites = set()         # non-trivial sites: (op, line, names)
    self.stats = dict(written=0, unresolved=0, noframe=0, expr_ops=0, opts_checked=0, directives_seen=0)

  def bad(self, sig, what):
    if len(self.violations) < 20 and not any(v[0] == sig for v in self.violations):
      self.violations.append((sig, what))

  # ------------------------------------------------------------------ helpers
  def quiet_mark(self):
    return (len(self.tracer.events), self.decisions.i) if self.tracer is not None else None

  def same(self, x, y):
    if x is y:
      return True
    U = self.ag.Undefined
    if isinstance(x, U) and isinstance(y, U):
      return getattr(x, 'symbol_name', None) == getattr(y, 'symbol_name', None)
    return False

  def same_tuple(self, s, r):
    return isinstance(r, tuple) and len(s) == len(r) and all(self.same(a, b) for a, b in zip(s, r))

  def resolve(self, name, fr):
    loc = fr.f_locals      # a fresh snapshot at each access (CPython 3.12)
    if re.match(r'^[A-Za-z_]\w*$', name):
      if name in loc:
        return loc[name]
      if name in fr.f_globals:
        return fr.f_globals[name]
      return UNRESOLVED
    try:
      return eval(name, fr.f_globals, dict(loc))
    except Exception:
      return UNRESOLVED

  # ------------------------------------------------------------------ the state contract
  def check_state(self, op, get_state, set_state, names, fr):
    where = '%s at generated line %d, names %r' % (op, fr.f_lineno, names)
    if not isinstance(names, tuple) or not all(isinstance(n, str) for n in names):
      self.bad('names-type', 'symbol_names is not a tuple of str: %s' % where)
      return
    n = len(names)
    if nparams(get_state) != 0:
      self.bad('getter-signature', 'get_state does not take exactly zero arguments: %s' % where)
    if nparams(set_state) != 1:
      self.bad('setter-signature', 'set_state does not take exactly one argument: %s' % where)
    mark = self.quiet_mark()
    try:
      s0 = get_state()
    except Exception as e:
      self.bad('getter-raises', 'get_state() raised %s: %s: %s' % (type(e).__name__, e, where))
      return
    if not isinstance(s0, tuple):
      self.bad('getter-type', 'get_state() returned %s: %s' % (type(s0).__name__, where))
      return
    if len(s0) != n:
      self.bad('state-arity', 'len(symbol_names) = %d but len(get_state()) = %d: %s' % (n, len(s0), where))
      return
    s1 = get_state()
    if not self.same_tuple(s0, s1):
      self.bad('getter-unstable', 'get_state() twice gives different results %r / %r: %s' % (s0, s1, where))
    if self.quiet_mark() != mark:
      self.bad('getter-effect', 'get_state() produced tracer events / consumed decisions: %s' % where)
    # names <-> frame variables
    defines = get_state.__code__ in fr.f_code.co_consts
    if not defines:
      self.stats['noframe'] += 1
      return
    vals = [self.resolve(nm, fr) for nm in names]
    U = self.ag.Undefined
    for i, nm in enumerate(names):
      if vals[i] is UNRESOLVED:
        if not isinstance(s0[i], U):
          self.bad('name-mismatch', 'position %d: %r does not resolve in the defining frame but get_state() gives %r: %s'
                   % (i, nm, s0[i], where))
      elif not self.same(vals[i], s0[i]):
        self.bad('name-mismatch', 'position %d: variable %r is %r but get_state() gives %r: %s' % (i, nm, vals[i], s0[i], where))
    if n:
      self.sites.add((op, fr.f_lineno, names))
    if any(v is UNRESOLVED for v in vals):
      self.stats['unresolved'] += 1
      return
    # writes (restored in every case)
    self.stats['written'] += 1
    try:
      set_state(s0)
      now = [self.resolve(nm, fr) for nm in names]
      if not all(self.same(a, b) for a, b in zip(vals, now)) or not self.same_tuple(s0, get_state()):
        self.bad('setter-identity', 'set_state(get_state()) changed a named variable: %r -> %r: %s' % (vals, now, where))
      if n:
        for wrong in (s0 + (Sentinel(-1),), s0[:-1]):
          try:
            set_state(wrong)
          except (ValueError, TypeError):
            pass
          else:
            self.bad('setter-arity', 'set_state accepted %d values for %d names: %s' % (len(wrong), n, where))
          if not self.same_tuple(s0, get_state()):
            self.bad('setter-arity-partial', 'a rejected set_state changed the state: %s' % where)
            set_state(s0)
        v = tuple(Sentinel(i) for i in range(n))
        try:
          set_state(v)
        except Exception:
          pass      # a composite whose parent is itself state (b, b.v): the sentinel parent cannot hold it
        else:
          r = get_state()
          now = [self.resolve(nm, fr) for nm in names]
          if not (isinstance(r, tuple) and len(r) == n and all(a is b for a, b in zip(r, v))):
            self.bad('write-read', 'set_state(v); get_state() returned %r, not v: %s' % (r, where))
          elif not all(a is b for a, b in zip(now, v)):
            self.bad('write-frame', 'after set_state(v) the named variables are %r: %s' % (now, where))
    finally:
      try:
        set_state(s0)
      except Exception as e:
        self.bad('restore', 'restoring the state raised %s: %s' % (type(e).__name__, where))
    if not self.same_tuple(s0, get_state()):
      self.bad('restore', 'state not restored: %s' % where)
    if self.quiet_mark() != mark:
      self.bad('state-effect', 'get_state / set_state produced tracer events or consumed decisions: %s' % where)

  def check_thunk(self, op, role, fn, want):
    got = nparams(fn) if callable(fn) else 'not callable'
    if got != want:
      self.bad('callback-arity-%s-%s' % (op, role), '%s of %s takes %r parameters, documented %r' % (role, op, got, want))

  def check_opts(self, op, opts, key, fr):
    if not isinstance(opts, dict):
      self.bad('opts-type', 'opts of %s is %s' % (op, type(opts).__name__))
      return
    if fr.f_code.co_filename != self.gfile:
      return
    got = dict((k, v) for k, v in opts.items() if k != 'iterate_names')
    if key not in self.expected:
      self.bad('opts-unknown-loop', '%s for loop %r which the source does not contain (known: %r)' % (op, key, sorted(self.expected)))
      return
    self.stats['opts_checked'] += 1
    if self.expected[key]:
      self.stats['directives_seen'] += 1
    if got != self.expected[key]:
      self.bad('opts-directives', '%s of loop %s received directives %r, the source places %r there' % (op, key, got, self.expected[key]))

  # ------------------------------------------------------------------ wrappers
  def install(self):
    ag, me = self.ag, self
    for op in ('if_stmt', 'while_stmt', 'for_stmt', 'if_exp', 'and_', 'or_', 'not_'):
      self.saved[op] = getattr(ag, op)
    o = dict(self.saved)

    def if_stmt(*args, **kw):
      me.invocations += 1
      fr = sys._getframe(1)
      if kw or len(args) != 7:
        me.bad('operator-arity-if_stmt', 'if_stmt called with %d positional, %r keyword arguments' % (len(args), sorted(kw)))
        return o['if_stmt'](*args, **kw)
      cond, body, orelse, get_state, set_state, names, nouts = args
      try:
        me.check_thunk('if_stmt', 'body', body, 0)
        me.check_thunk('if_stmt', 'orelse', orelse, 0)
        me.check_state('if_stmt', get_state, set_state, names, fr)
        if not (isinstance(nouts, int) and not isinstance(nouts, bool) and isinstance(names, tuple) and 0 <= nouts <= len(names)):
          me.bad('nouts', 'nouts = %r with symbol_names %r' % (nouts, names))
      except Exception:
        me.bad('checker-crash', traceback.format_exc()[-500:])
      return o['if_stmt'](*args)

    def while_stmt(*args, **kw):
      me.invocations += 1
      fr = sys._getframe(1)
      if kw or len(args) != 6:
        me.bad('operator-arity-while_stmt', 'while_stmt called with %d positional, %r keyword arguments' % (len(args), sorted(kw)))
        return o['while_stmt'](*args, **kw)
      test, body, get_state, set_state, names, opts = args
      try:
        me.check_thunk('while_stmt', 'test', test, 0)
        me.check_thunk('while_stmt', 'body', body, 0)
        me.check_state('while_stmt', get_state, set_state, names, fr)
        code = getattr(test, '__code__', None)
        fuels = sorted(v for v in (code.co_freevars if code is not None else ()) if FUEL.match(v))
        me.check_opts('while_stmt', opts, 'while:' + (fuels[0] if len(fuels) == 1 else '?'), fr)
        if isinstance(opts, dict) and 'iterate_names' in opts:
          me.bad('opts-while-iterate', 'while_stmt opts contains iterate_names')
      except Exception:
        me.bad('checker-crash', traceback.format_exc()[-500:])
      return o['while_stmt'](*args)

    def for_stmt(*args, **kw):
      me.invocations += 1
      fr = sys._getframe(1)
      if kw or len(args) != 7:
        me.bad('operator-arity-for_stmt', 'for_stmt called with %d positional, %r keyword arguments' % (len(args), sorted(kw)))
        return o['for_stmt'](*args, **kw)
      iter_, extra_test, body, get_state, set_state, names, opts = args
      try:
        me.check_thunk('for_stmt', 'body', body, 1)
        if extra_test is not None:
          me.check_thunk('for_stmt', 'extra_test', extra_test, 0)
        me.check_state('for_stmt', get_state, set_state, names, fr)
        if not isinstance(opts, dict) or not isinstance(opts.get('iterate_names'), str):
          me.bad('opts-iterate-names', "for_stmt opts %r lacks a str 'iterate_names'" % (opts,))
        else:
          me.check_opts('for_stmt', opts, 'for:' + opts['iterate_names'].strip(), fr)
      except Exception:
        me.bad('checker-crash', traceback.format_exc()[-500:])
      return o['for_stmt'](*args)

    def if_exp(*args, **kw):
      me.invocations += 1
      me.stats['expr_ops'] += 1
      if kw or len(args) != 4:
        me.bad('operator-arity-if_exp', 'if_exp called with %d positional, %r keyword arguments' % (len(args), sorted(kw)))
      else:
        me.check_thunk('if_exp', 'if_true', args[1], 0)
        me.check_thunk('if_exp', 'if_false', args[2], 0)
        if not isinstance(args[3], str):
          me.bad('if_exp-repr', 'expr_repr of if_exp is %r' % (args[3],))
      return o['if_exp'](*args, **kw)

    def binary(op):
      def w(*args, **kw):
        me.invocations += 1
        me.stats['expr_ops'] += 1
        if kw or len(args) != 2:
          me.bad('operator-arity-' + op, '%s called with %d positional, %r keyword arguments' % (op, len(args), sorted(kw)))
        else:
          me.check_thunk(op, 'a', args[0], 0)
          me.check_thunk(op, 'b', args[1], 0)
        return o[op](*args, **kw)
      return w

    def not_(*args, **kw):
      me.invocations += 1
      me.stats['expr_ops'] += 1
      if kw or len(args) != 1:
        me.bad('operator-arity-not_', 'not_ called with %d positional, %r keyword arguments' % (len(args), sorted(kw)))
      return o['not_'](*args, **kw)
    ag.if_stmt, ag.while_stmt, ag.for_stmt, ag.if_exp, ag.not_ = if_stmt, while_stmt, for_stmt, if_exp, not_
    ag.and_, ag.or_ = binary('and_'), binary('or_')

  def restore(self):
    for op, fn in self.saved.items():
      setattr(self.ag, op, fn)
    self.saved = {}


def observe(fn, mod, bits, checker=None):
  """harness.observe with the tracer / decision source exposed to the checker."""
  t = harness.Tracer()
  c = harness.Decisions(bits, t)
  a = [5, 7]
  mod.G[0] = 0
  if hasattr(mod, 'GS'):
    mod.GS = 0
  if checker is not None:
    checker.tracer, checker.decisions = t, c
  try:
    r = fn(t, c, a)
    outcome = ('return', repr(r))
  except RecursionError:
    outcome = ('raise', 'RecursionError')
  except Exception as e:
    outcome = ('raise', harness.exc_kind(e))
  finally:
    if checker is not None:
      checker.tracer = checker.decisions = None
  return dict(outcome=outcome, events=t.events, a=repr(a), G=mod.G[0], GS=getattr(mod, 'GS', None), used=c.i)


_N = [0]


def check_item(item):
  idx, optname, src = item
  _N[0] += 1
  name = 'vp_c03_%d_%d' % (os.getpid(), _N[0])
  res = dict(idx=idx, invocations=0, sites=0, runs=0, failures=[], conv_error=None, stats={})
  try:
    mod = harness.load_source(src, name)
  except SyntaxError as e:
    res['failures'].append(dict(kind='generator-bug', sig='syntax', what=str(e), program=src))
    return res
  chk = Checker()
  try:
    try:
      g = opspace.to_graph(mod.f, optname)
    except Exception as e:
      res['conv_error'] = '%s: %s' % (type(e).__name__, str(e)[:200])
      return res
    chk.gfile = g.__code__.co_filename
    chk.expected = opspace.expected_loop_options(src)
    chk.install()
    sites = set()
    first = {}

    def run(bits):
      o1 = observe(mod.f, mod, bits)
      before = len(chk.violations)
      o2 = observe(g, mod, bits, chk)
      res['runs'] += 1
      for v in chk.violations[before:]:
        sig = v[0]
        if sig == 'getter-raises' and 'NameError' in v[1] and o1['outcome'] == ('raise', 'NameError'):
          # the variable is genuinely unbound at this point of the ORIGINAL run too (which ends in the same
          # NameError at its first read): recorded finding D20, kept apart from any other raising getter
          sig = 'getter-raises-unbound-in-original'
        first.setdefault(sig, (v[1], list(bits)))
      implicit = o1['outcome'][0] == 'raise' and o1['outcome'][1] != 'ValueError'
      same = (o1['outcome'] == o2['outcome']) if implicit else all(o1[k] == o2[k] for k in ('outcome', 'events', 'a', 'G', 'GS'))
      if not same:
        first.setdefault('run-disturbed', ('with the checking operators the converted run differs from the original: %r vs %r'
                                          % (o1['outcome'], o2['outcome']), list(bits)))
      return o1['used']
    harness.adaptive_vectors(run, max_len=6, cap=16)
    res['invocations'] = chk.invocations
    res['sites'] = len(chk.sites)
    res['stats'] = chk.stats
    for sig, (what, bits) in first.items():
      kind = 'harness' if sig in ('run-disturbed', 'checker-crash', 'restore') else 'contract'
      res['failures'].append(dict(kind=kind, sig=sig, what=what, program=src, decisions=bits, options=optname))
  except Exception:
    res['failures'].append(dict(kind='harness', sig='crash', what=traceback.format_exc()[-600:], program=src, options=optname))
  finally:
    chk.restore()
    harness.unload(name)
  return res


def minimise(f):
  """Greedy line deletion in the body of f while the same signature keeps failing."""
  lines = f['program'].split('\n')
  start = next(i for i, l in enumerate(lines) if l.startswith('def f('))
  n = [10 ** 6]

  def fails(ls):
    s = '\n'.join(ls)
    try:
      compile(s, '<min>', 'exec')
    except SyntaxError:
      return None
    n[0] += 1
    r = check_item((n[0], f['options'], s))
    for g in r['failures']:
      if g['sig'] == f['sig']:
        return g
    return None
  best = f
  import signal

  class _Slow(Exception):
    pass

  def _alarm(signum, frame):
    raise _Slow()
  t_end = time.time() + 40
  for _ in range(2):
    for i in range(len(lines) - 2, start + 1, -1):     # keep the def line, the first and the last statement
      if time.time() > t_end:
        break
      if 'fuel' in lines[i]:
        continue                                       # the fuel counters make every loop terminate: never deleted
      cand = lines[:i] + lines[i + 1:]
      old_handler = signal.signal(signal.SIGALRM, _alarm)
      signal.alarm(10)
      try:
        g = fails(cand)
      except _Slow:
        g = None
      finally:
        signal.alarm(0)
        signal.signal(signal.SIGALRM, old_handler)
      if g is not None:
        lines, best = cand, g
  out = dict(best)
  out['program'] = '\n'.join(lines[start:])
  return out


def main():
  ap = argparse.ArgumentParser()
  ap.add_argument('seed', type=int)
  ap.add_argument('tier')
  ap.add_argument('--random', type=int, default=None)
  ap.add_argument('--k', type=int, default=None)
  ap.add_argument('--options', default=','.join(opspace.OPTION_SETS))
  ap.add_argument('--maxfail', type=int, default=10)
  ap.add_argument('--budget', type=float, default=None)
  ap.add_argument('--globals', action='store_true', help='let random programs assign the module global GS (known finding)')
  a = ap.parse_args()
  thorough = a.tier == 'thorough'
  opts = a.options.split(',')
  nrand = a.random if a.random is not None else (12000 if thorough else 700)
  K = a.k if a.k is not None else (3 if thorough else 2)
  budget = a.budget if a.budget is not None else (840.0 if thorough else 45.0)
  t0 = time.time()
  opspace.private_tmp('c03')
  try:
    rnd = random.Random(a.seed)
    items = []
    j = 0
    nskel = 0
    for tree in progen.skeletons(K):
      src = progen.skeleton_program(tree).replace(progen.HEADER, opspace.HEADER)
      if nskel % 2:
        src = opspace.add_directives(src, rnd)
      items.append((len(items), opts[j % len(opts)], src))
      j += 1
      nskel += 1
    for i in range(nrand):
      src = opspace.state_program(a.seed * 1000003 + i, size=2 + (i % 5), with_directives=(i % 3 != 2), with_globals=a.globals)
      items.append((len(items), opts[j % len(opts)], src))
      j += 1
    witness_idx = len(items)
    items.append((witness_idx, 'plain', opspace.GLOBAL_STATE_WITNESS))
    random.Random(a.seed).shuffle(items)
    items.sort(key=lambda it: it[0] != witness_idx)      # the routed witness first: a budget cut must not drop it
    by_idx = dict((it[0], it) for it in items)
    evaluated = sites = runs = conv_errors = done = programs = 0
    stats = {}
    failures, samples, seen, conv_samples = [], [], set(), []
    for r in harness.pool_map(check_item, items, chunksize=2, deadline=t0 + budget + 20):
      done += 1
      if time.time() - t0 > budget:
        break
      programs += 1
      evaluated += r['invocations']
      sites += r['sites']
      runs += r['runs']
      for k, v in r['stats'].items():
        stats[k] = stats.get(k, 0) + v
      it = by_idx[r['idx']]
      if r['conv_error']:
        conv_errors += 1
        if len(conv_samples) < 4:
          conv_samples.append(r['conv_error'])
      if r['sites'] and len(samples) < 2 and 'set_loop_options' in it[2] and r['stats'].get('unresolved'):
        samples.append('options=%s :: %s' % (it[1], it[2][it[2].index('def f('):][:700]))
      if r['idx'] == witness_idx:
        # routed witness: whatever the contract checks report for it is one finding with a stable key
        fs = [f for f in r['failures'] if f['kind'] == 'contract']
        if fs:
          failures.append(dict(fs[0], kind='global-state', sig='getter-reads-branch-local-setter-writes-global',
                               program=it[2][it[2].index('def f('):], all_signatures=sorted(f['sig'] for f in fs)))
        continue
      for f in r['failures']:
        key = (f['kind'], f['sig'])
        if key not in seen and len(failures) < a.maxfail:
          seen.add(key)
          failures.append(f)
    # (minimisation re-converts variants of the program in this process: skipped when the budget is already spent, e.g.
    #  on a tree where conversions have become pathologically slow)
    failures = [minimise(f) if f['kind'] == 'contract' and time.time() - t0 < budget else f for f in failures]
    harness.emit(dict(
        evaluated=evaluated, distinct_nontrivial=sites, programs=programs, runs=runs, items_done=done, items_total=len(items),
        truncated_by_budget=done < len(items), wall_seconds=round(time.time() - t0, 1), conversion_errors=conv_errors,
        conversion_error_samples=conv_samples, skeleton_programs=nskel, random_programs=nrand, options=opts,
        state_checks_with_writes=stats.get('written', 0), state_checks_with_unresolved_composite=stats.get('unresolved', 0),
        state_checks_without_defining_frame=stats.get('noframe', 0), expression_operator_invocations=stats.get('expr_ops', 0),
        loop_opts_checked=stats.get('opts_checked', 0), loop_opts_with_directives=stats.get('directives_seen', 0),
        rule='progen skeletons K<=%d (every second one with set_loop_options directives) and seeded random programs of the '
             'state space (progen + attribute / item / global state, 2 of 3 with directives written as malt.experimental.'
             'set_loop_options / directives.set_loop_options / an imported alias, keyword and positional); avoid D1,D2,D6; one '
             'option set per program rotating over %d; decision vectors explored adaptively (<= 16 per program); evaluated = '
             'dynamic operator invocations checked; non-trivial = distinct (program, operator, generated line, symbol_names) '
             'with a non-empty state whose names were compared with the defining frame' % (K, len(opts)),
        samples=samples, failures=failures))
  finally:
    opspace.finish()


if __name__ == '__main__':
  main()
