"""Run-time evaluation of the create_exception decision table (C12) over a zoo of exception classes
(replay hook / bounded stand-in): which type reaches the caller, with which message."""
import builtins
import json
import sys

from malt.impl import api
from malt.pyct import error_utils, errors


class Plain(Exception):
  pass


class PlainChild(Plain):
  pass


class OwnInit(Exception):
  def __init__(self, a, b):
    super().__init__('%s/%s' % (a, b))


class ValueChildOwnInit(ValueError):
  def __init__(self, used, limit):
    super().__init__('quota %s of %s' % (used, limit))


class RuntimeChildKw(RuntimeError):
  def __init__(self, *, code):
    super().__init__('code %s' % code)


class ValueChildPlain(ValueError):
  pass


class KeyChild(KeyError):
  pass


def zoo():
  out = []
  for name in dir(builtins):
    t = getattr(builtins, name)
    if isinstance(t, type) and issubclass(t, Exception) and t not in (SystemExit,):
      try:
        if t is UnicodeDecodeError:
          e = t('utf8', b'x', 0, 1, 'bad')
        elif t is UnicodeEncodeError:
          e = t('utf8', 'x', 0, 1, 'bad')
        elif t is UnicodeTranslateError:
          e = t('x', 0, 1, 'bad')
        else:
          e = t('boom')
      except Exception:
        continue
      out.append(e)
  out += [Plain('p'), PlainChild('pc'), OwnInit(1, 2), ValueChildOwnInit(3, 4), RuntimeChildKw(code=7),
          ValueChildPlain('v'), KeyChild('k'), errors.PyCTError('x'), api.AutoGraphError('x'),
          api.ConversionError('x'), api.StagingError('x')]
  return out


def expected(e):
  """The decision table, as the property states it."""
  T = type(e)
  if T in (errors.PyCTError, api.AutoGraphError, api.ConversionError, api.StagingError):
    return T
  if T.__init__ is Exception.__init__ or T in error_utils.KNOWN_STRING_CONSTRUCTOR_ERRORS:
    return T
  if T is KeyError:
    return 'KeyError-subclass'
  return api.StagingError


def main():
  failures, n = [], 0
  for e in zoo():
    n += 1
    md = api._ErrorMetadata([], None, '%s: %s' % (type(e).__name__, e), {}, __file__)
    want = expected(e)
    try:
      got = md.to_exception(e)
    except Exception as ex:
      failures.append(dict(kind='contract', sig='raises:' + type(e).__name__,
                           what='re-creating %s raised %s: %s' % (type(e).__name__, type(ex).__name__, str(ex)[:120])))
      continue
    ok = (isinstance(got, KeyError) and type(got) is not KeyError and type(got).__name__ == 'KeyError') \
        if want == 'KeyError-subclass' else type(got) is want
    if not ok:
      failures.append(dict(kind='contract', sig='type:' + type(e).__name__,
                           what='%s came back as %s, expected %s' % (type(e).__name__, type(got).__name__, getattr(want, '__name__', want))))
    elif 'boom' in str(e) and 'boom' not in str(got):
      failures.append(dict(kind='contract', sig='message:' + type(e).__name__, what='original message lost'))
    elif getattr(got, 'ag_error_metadata', None) is not md or got.__suppress_context__ is not True:
      failures.append(dict(kind='contract', sig='metadata:' + type(e).__name__, what='metadata / suppress_context not set'))
  print(json.dumps(dict(evaluated=n, distinct_nontrivial=n, failures=failures[:6],
                        rule='every builtin Exception class that takes a message, the Unicode errors, user classes with and '
                             'without their own constructor (also below the listed builtins), the PyCT/AutoGraph classes',
                        samples=['ValueChildOwnInit(ValueError) with __init__(self, used, limit) -> StagingError'])))


main()
