"""Run-time evaluation of the reaching_definitions.Analyzer.visit_node contract (and of the assumed _NodeState
value-type contracts) on small concrete inputs: real Analyzer, real Scope objects, stub CFG nodes, random
states (replay hook for undecided obligations / bounded stand-in)."""
import ast
import json
import random
import sys

from malt.pyct import anno, cfg, qual_names
from malt.pyct.static_analysis import activity, reaching_definitions as rd

NAMES = [qual_names.QN(n) for n in 'abcd']


def subset(rnd, p=0.45):
  return set(x for x in NAMES if rnd.random() < p)


def mkscope(rnd):
  s = activity.Scope(None)
  s.read, s.modified, s.deleted, s.bound, s.globals = subset(rnd), subset(rnd), subset(rnd, 0.25), subset(rnd), subset(rnd, 0.2)
  owner = ast.parse('def f(a): pass').body[0]
  s._owner = owner   # params is a WeakValueDictionary: keep the owner alive
  for x in subset(rnd, 0.25):
    s.mark_param(x, owner)
  return s


def content(st):
  return {k: set(v) for k, v in st.value.items()}


def rand_state(rnd, pool):
  st = rd._NodeState()
  for k in subset(rnd):
    st.value[k] = set(d for d in pool if rnd.random() < 0.5)
  return st


def one(rnd):
  n = rnd.randint(1, 3)
  asts = [ast.Pass() if rnd.random() < 0.25 else ast.Expr(ast.Constant(0)) for _ in range(n)]
  nodes = [cfg.Node(set(), set(), a) for a in asts]
  for a in range(n):
    for b in range(n):
      if rnd.random() < 0.4:
        nodes[a].next.add(nodes[b])
        nodes[b].prev.add(nodes[a])
  for a in asts:
    if not isinstance(a, ast.Pass):
      anno.setanno(a, anno.Static.SCOPE, mkscope(rnd))
  g = cfg.Graph(entry=nodes[0], exit=frozenset([nodes[-1]]), error=frozenset(),
                index={nd.ast_node: nd for nd in nodes}, stmt_prev={}, stmt_next={})
  an = rd.Analyzer(g, rd.Definition)
  an.can_ignore = lambda node: True
  pool = [rd.Definition() for _ in range(3)]
  for nd in nodes:
    an.in_[nd], an.out[nd] = rand_state(rnd, pool), rand_state(rnd, pool)
  node = nodes[rnd.randrange(n)]
  pre_gen = None
  if rnd.random() < 0.4 and anno.hasanno(node.ast_node, anno.Static.SCOPE):
    an.visit_node(node)                      # so that gen_map[node] exists already
    for nd in nodes:
      an.in_[nd], an.out[nd] = rand_state(rnd, pool), rand_state(rnd, pool)
    pre_gen = an.gen_map[node]
  old_out = {nd: content(an.out[nd]) for nd in nodes}
  old_in_obj = {nd: an.in_[nd] for nd in nodes}
  old_out_obj = {nd: an.out[nd] for nd in nodes}
  res = an.visit_node(node)
  # ---- the contract
  want_in = {}
  for p in node.prev:
    for k, v in old_out[p].items():
      want_in.setdefault(k, set()).update(v)
  if content(an.in_[node]) != want_in:
    return 'in-join', 'in_[node] is not the join of the predecessors\' out states'
  if anno.hasanno(node.ast_node, anno.Static.SCOPE):
    sc = anno.getanno(node.ast_node, anno.Static.SCOPE)
    gen = an.gen_map.get(node)
    if gen is None:
      return 'gen-missing', 'no generated definitions recorded for a node with a scope'
    if pre_gen is not None and gen is not pre_gen:
      return 'gen-recreated', 'gen_map[node] was replaced on a second visit (definitions must be created once)'
    if pre_gen is None:
      keys = ((set(sc.bound) | set(sc.globals)) - set(sc.deleted)) | set(sc.params.keys())
      if set(gen.value.keys()) != keys or any(len(v) != 1 for v in gen.value.values()):
        return 'gen-keys', 'gen_map[node] must hold exactly one definition per bound/global non-deleted name and per parameter'
      ds = [next(iter(v)) for v in gen.value.values()]
      if len(set(map(id, ds))) != len(ds) or any(d in pool for d in ds):
        return 'gen-fresh', 'generated definitions must be fresh and distinct'
    kill = set(sc.modified) | set(sc.deleted)
    want_out = {k: set(v) for k, v in content(gen).items()}
    for k, v in want_in.items():
      if k not in kill:
        want_out.setdefault(k, set()).update(v)
    if content(an.out[node]) != want_out:
      return 'out-eq', 'out[node] != gen | (in - kill)'
  elif an.out[node] is not an.in_[node]:
    return 'out-passthrough', 'a node without a scope must pass its in state through'
  if bool(res) != (content(an.out[node]) != old_out[node]):
    return 'revisit', 'visit_node returned %r but the out state %s' % (res, 'changed' if content(an.out[node]) != old_out[node] else 'did not change')
  for nd in nodes:
    if nd is not node and (an.in_[nd] is not old_in_obj[nd] or an.out[nd] is not old_out_obj[nd] or content(an.out[nd]) != old_out[nd]):
      return 'frame', 'the state of another node was touched'
  # ---- the assumed _NodeState value-type contracts
  a, b = rand_state(rnd, pool), rand_state(rnd, pool)
  ca, cb = content(a), content(b)
  u = a | b
  wu = {k: set(ca.get(k, set())) | set(cb.get(k, set())) for k in set(ca) | set(cb)}
  if content(u) != wu or u is a or u is b or content(a) != ca or content(b) != cb:
    return 'nodestate-or', '_NodeState.__or__ is not the pointwise union into a new state'
  ks = subset(rnd)
  s = a - ks
  if content(s) != {k: v for k, v in ca.items() if k not in ks} or s is a or content(a) != ca:
    return 'nodestate-sub', '_NodeState.__sub__ must drop exactly the given keys, into a new state'
  if (a == b) != (ca == cb) or (a != b) != (ca != cb):
    return 'nodestate-eq', '_NodeState equality is not equality of contents'
  c = rd._NodeState(a)
  if content(c) != ca or c.value is a.value or any(c.value[k] is a.value[k] for k in ca):
    return 'nodestate-copy', '_NodeState(other) must be a deep copy'
  return None


def main():
  seed = int(sys.argv[1]) if len(sys.argv) > 1 else 0
  tier = sys.argv[2] if len(sys.argv) > 2 else 'quick'
  n = 4000 if tier == 'quick' else 80000
  rnd = random.Random(seed)
  failures, i = [], 0
  for i in range(n):
    try:
      r = one(rnd)
    except Exception as e:     # a contract broken badly enough to crash the transfer function
      r = ('raised', '%s: %s' % (type(e).__name__, e))
    if r:
      failures.append(dict(kind='contract', sig=r[0], what=r[1], case=i, seed=seed))
      if len(failures) >= 3:
        break
  print(json.dumps(dict(evaluated=i + 1, distinct_nontrivial=i + 1, failures=failures,
                        rule='bounded: random graphs of <= 3 stub nodes, random Scope sets over 4 names, random in/out states '
                             'over 3 definitions, one visit_node call (40% preceded by a first visit); every case also evaluates '
                             'the _NodeState |, -, ==, copy contracts on two random states',
                        samples=['3 nodes, node 1 has preds {0, 1}; out[0] = {a: {d0}}, out[1] = {a: {d1}, b: {d0}}'])))


main()
