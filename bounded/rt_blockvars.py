"""Run-time evaluation of the ControlFlowTransformer._get_block_vars/_get_block_basic_vars/
_get_block_composite_vars contracts on small concrete inputs (replay hook / bounded stand-in)."""
import ast
import itertools
import json
import random
import sys

from malt.converters import control_flow
from malt.pyct import anno, qual_names, transformer
from malt.pyct.static_analysis import activity

QN = qual_names.QN
A, B_, C_ = QN('a'), QN('b'), QN('c')
NAMES = [A, B_, C_, QN(A, attr='x'), QN(B_, attr='y'), QN(A, subscript=QN(qual_names.Literal('k'))),
         QN(C_, subscript=B_)]


def sub(rnd, pool, p=0.45):
  return set(x for x in pool if rnd.random() < p)


def budget(a, default):
  return default if a == 'quick' else default * 20 if a == 'thorough' else int(a)


def one(rnd):
  info = transformer.EntityInfo(name='f', source_code='', source_file='', future_features=(), namespace={})
  t = control_flow.ControlFlowTransformer(transformer.Context(info, None, None))
  scope = activity.Scope(None)
  scope.globals, scope.nonlocals = sub(rnd, NAMES[:3], 0.25), sub(rnd, NAMES[:3], 0.25)
  modified = sub(rnd, NAMES, 0.6)
  defined_in, live_in, live_out = sub(rnd, NAMES), sub(rnd, NAMES), sub(rnd, NAMES)
  node = ast.If(test=ast.Constant(1), body=[], orelse=[])
  anno.setanno(node, anno.Static.DEFINED_VARS_IN, frozenset(defined_in))
  anno.setanno(node, anno.Static.LIVE_VARS_IN, frozenset(live_in))
  anno.setanno(node, anno.Static.LIVE_VARS_OUT, frozenset(live_out))
  with t.state[control_flow._Function] as fn:
    fn.scope = scope
    got = t._get_block_vars(node, set(modified))
    basic_got = t._get_block_basic_vars(set(modified), set(live_in), set(live_out))
    comp_got = t._get_block_composite_vars(set(modified), set(live_in))
  basic = {s for s in modified if not s.is_composite() and (s in live_in or s in live_out or s in scope.nonlocals)}
  comp = {s for s in modified if s.is_composite()
          and all(q in live_in for q in s.support_set if q.is_symbol())}
  input_only = {v for v in basic if v in live_in and v not in live_out}
  undefined = {v for v in modified if v not in defined_in and v not in scope.globals and v not in scope.nonlocals
               and not v.is_composite()}
  bad = []
  if set(basic_got) != basic:
    bad.append('_get_block_basic_vars result')
  if set(comp_got) != comp:
    bad.append('_get_block_composite_vars result')
  if not (isinstance(got, tuple) and len(got) == 3):
    bad.append('result is not a 3-tuple')
  else:
    sv, und, nouts = got
    sv = list(sv)
    if set(sv) != basic | comp:
      bad.append('state variables != basic | composite')
    if len(set(sv)) != len(sv):
      bad.append('state variables repeated')
    if not (0 <= nouts <= len(sv)):
      bad.append('nouts out of bounds')
    if any((i >= nouts) != (v in input_only) for i, v in enumerate(sv)):
      bad.append('outputs-first violated: index >= nouts must be exactly the input-only variables')
    if set(und) != undefined:
      bad.append('undefined set')
  if bad:
    def nm(s):
      return sorted(str(x) for x in s)
    return dict(kind='contract', sig=';'.join(bad)[:60], what='; '.join(bad), violated=bad, modified=nm(modified), defined_in=nm(defined_in),
                live_in=nm(live_in), live_out=nm(live_out), globals=nm(scope.globals), nonlocals=nm(scope.nonlocals),
                got=[[str(x) for x in got[0]], [str(x) for x in got[1]], got[2]] if isinstance(got, tuple) and len(got) == 3 else repr(got))
  return None


def main():
  seed = int(sys.argv[1]) if len(sys.argv) > 1 else 0
  n = budget(sys.argv[2] if len(sys.argv) > 2 else 'quick', 4000)
  rnd = random.Random(seed)
  failures, nontrivial = [], 0
  for i in range(n):
    f = one(rnd)
    nontrivial += 1
    if f:
      failures.append(f)
      if len(failures) >= 3:
        break
  print(json.dumps(dict(evaluated=i + 1, distinct_nontrivial=nontrivial, failures=failures,
                        rule='bounded: random subsets of 7 qualified names (3 simple, 4 composite) for modified / '
                             'defined_in / live_in / live_out / globals / nonlocals; real ControlFlowTransformer methods',
                        samples=['modified={a,b,a.x} live_in={a} live_out={b} -> (state vars, undefined, nouts)'])))


main()
