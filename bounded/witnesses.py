"""Witness programs of the recorded findings; prints which of them still fail on the current tree."""
import json
import os
import sys
import traceback

sys.path.insert(0, os.path.dirname(os.path.abspath(__file__)))
import harness

WITNESSES = []


def witness(wid, props):
  def deco(fn):
    WITNESSES.append((wid, props, fn))
    return fn
  return deco


def _load(src, name):
  return harness.load_source(src, 'vp_wit_' + name)


@witness('D1-for-target-killed-on-exit-edge', ['C01', 'C02', 'C06', 'C07'])
def d1():
  import malt
  m = _load('''
def f(xs, c):
  x = 0
  if c:
    x = 5
  for x in xs:
    pass
  return x
''', 'd1')
  g = malt.to_graph(m.f)
  got, want = g([], True), m.f([], True)
  if got != want:
    return 'for-loop target assigned before the loop: f([], True) = %r, original %r' % (got, want)


@witness('D2-chained-comparison-evaluates-middle-twice', ['C01'])
def d2():
  import malt
  m = _load('''
def f(g):
  return 0 < g() < 10
''', 'd2')
  calls = []

  def g():
    calls.append(1)
    return 5
  malt.to_graph(m.f)(g)
  if len(calls) != 1:
    return 'middle operand of a comparison chain evaluated %d times' % len(calls)


@witness('D15-callee-nonlocal-write-ignored', ['C01', 'C06'])
def d15():
  import malt
  m = _load('''
def f(c):
  def g():
    nonlocal x
    x = 1
  g()
  if c:
    x = 2
  return x
''', 'd15')
  want = m.f(False)
  try:
    got = malt.to_graph(m.f)(False)
  except Exception as e:
    got = type(e).__name__
  if got != want:
    return ('a local function that assigns a nonlocal is called before an if that may rebind it: f(False) gives %r, '
            'original %r (the variable is missing from the defined-on-entry set, so it is reset to Undefined)' % (got, want))


@witness('D18-except-name-not-reserved', ['C11'])
def d18():
  import malt
  m = _load('''
def f(fscope):
  for i in range(2):
    try:
      if i:
        raise ValueError(0)
    except ValueError as fscope_1:
      fscope = type(fscope_1).__name__
  return fscope
''', 'd18')
  want = m.f(0)
  try:
    got = malt.to_graph(m.f)(0)
  except Exception as e:
    got = type(e).__name__
  if got != want:
    return ('the name bound by `except E as name` is isolated from the enclosing scope and therefore not reserved: '
            'a generated symbol (fscope_1) coincides with it: converted gives %r, original %r' % (got, want))


@witness('D8-liveness-mutates-scope-read', ['C07'])
def d8():
  import ast
  from malt.pyct import anno, cfg, qual_names
  from malt.pyct.static_analysis import activity, liveness
  a = ast.Expr(ast.Constant(0))
  sc = activity.Scope(None)
  x, T = qual_names.QN('x'), qual_names.QN('T')
  sc.read = {x, T}
  sc.annotations = {T}
  anno.setanno(a, anno.Static.SCOPE, sc)
  anno.setanno(a, anno.Static.DEFINED_FNS_IN, frozenset())
  nd = cfg.Node(set(), set(), a)
  g = cfg.Graph(entry=nd, exit=frozenset([nd]), error=frozenset(), index={a: nd}, stmt_prev={}, stmt_next={})
  an = liveness.Analyzer(g, False)
  an.visit_node(nd)
  if sc.read != {x, T}:
    return ('liveness.Analyzer(include_annotations=False).visit_node removes the annotations from the '
            'Scope.read set in place (gen aliases node_scope.read): read is now %s' % sorted(map(str, sc.read)))


@witness('D20-getter-reads-unbound-nonlocal-state', ['C03'])
def d20():
  import malt
  from malt.impl import api
  m = _load('''
def f(n):
  def g():
    nonlocal x
    for i in range(n):
      x = i
    return 0
  r = g()
  x = 1
  return r
''', 'd20')
  ag = api._TRANSPILER.get_extra_locals()['ag__']
  real = ag.for_stmt
  seen = []

  def eager_for_stmt(iter_, extra_test, body, get_state, set_state, symbol_names, opts):
    try:
      get_state()                 # what any staging operator does before deciding how to run the loop
    except NameError as e:
      seen.append(str(e))
    return real(iter_, extra_test, body, get_state, set_state, symbol_names, opts)
  ag.for_stmt = eager_for_stmt
  try:
    g = malt.to_graph(m.f)
    r = g(0)
  finally:
    ag.for_stmt = real
  if seen:
    return ('zero-trip loop over a state variable that is declared nonlocal and still unbound: the native loop touches nothing '
            '(f(0) = %r), get_state() raises NameError: %s' % (m.f(0), seen[0][:80]))


# ---- regression witnesses of REPAIRED defects: they must pass.  No `finding:` line matches their ids, so a
# ---- failure is reported as a VIOLATION again ("a fixed entry suppresses nothing").

def _same(src, name, calls, **kw):
  import malt
  m = _load(src, name)
  g = malt.to_graph(m.f, **kw)
  for args in calls:
    def run(fn):
      try:
        return ('return', repr(fn(*args)))
      except Exception as e:   # compared by type
        return ('raise', type(e).__name__)
    a, b = run(m.f), run(g)
    if a != b:
      return 'f%r: original %r, converted %r' % (args, a, b)


@witness('D19-nested-nonlocal-read-not-exported', ['C01', 'C02', 'C03', 'C07', 'C08'])
def d19():
  return _same('''
def f(t):
  y = 1
  if t:
    return 0
  def g_1(p):
    def g_2(p):
      nonlocal y
      x = y
      return p + y
    return g_2(3)
  y = g_1(3)
  return y
''', 'd19', [(0,), (1,)])


@witness('D4-nonlocal-closure-liveness', ['C01', 'C07'])
def d4():
  return _same('''
def f(c):
  z = 1
  def g():
    nonlocal z
    z = z + 1
    return z
  if c:
    z = 10
  return g()
''', 'd4', [(True,), (False,)])


@witness('D14-augassign-rhs-unbound', ['C01'])
def d14():
  return _same('''
def f(c):
  x = 1
  if c:
    del x
  x += 1
  return x
''', 'd14', [(True,), (False,)])


@witness('D6-except-as-name', ['C01', 'C05', 'C08'])
def d6():
  return _same('''
def f(c):
  try:
    if c:
      raise ValueError(3)
    r = 0
  except ValueError as e:
    r = e.args[0]
  return r
''', 'd6', [(True,), (False,)])


@witness('D3-nested-conditional-expression', ['C04'])
def d3():
  import malt
  m = _load('''
def f(a, b):
  return (1 if a else 2) if b else 3
''', 'd3')
  code = malt.to_code(m.f)
  import ast
  if any(isinstance(n, ast.IfExp) for n in ast.walk(ast.parse(code))):
    return 'a conditional expression nested in a conditional expression stays native in the generated code'


@witness('C07-earlier-same-name-local-function-still-reaches', ['C01', 'C07'])
def c07_same_name_defs():
  """A second `def` of the same name does not un-define the first function object: it may still be called through
  another reference, so the variables it closes over stay live."""
  return _same('''
def f(c):
  x = 1
  cbs = []
  def cb():
    return x
  cbs.append(cb)
  def cb():
    return 0
  if c:
    x = 2
  return cbs[0]() + cb()
''', 'c07sn', [(True,), (False,)])


@witness('C11-blocks-in-a-nested-function-avoid-its-own-names', ['C11'])
def c11_nested_own_names():
  """The helper names generated for a block inside a NESTED function (if_body, else_body, loop_body, loop_test, get_state,
  set_state, itr, ...) avoid that function's own parameters and locals, also when those are used only outside the block."""
  import malt
  roles = []
  for name in ('if_body', 'else_body', 'get_state', 'set_state', 'loop_body', 'loop_test', 'extra_test', 'itr',
               'do_return', 'retval_', 'break_', 'continue_'):
    roles.append(('param', name, '''
def f(x):
  def inner(y, %(n)s):
    if y > 0:
      y = y + 1
    else:
      y = y - 1
    k = 0
    while k < 2:
      k = k + 1
    for i in range(2):
      y = y + i
      if y > 100:
        break
      if y > 50:
        continue
      y = y + 1
    if y > 1000:
      return None
    return (y, k, %(n)s)
  return inner(x, 'user value')
''' % dict(n=name)))
    roles.append(('local', name, '''
def f(x):
  def inner(y):
    %(n)s = y * 2
    if y > 0:
      y = y + 1
    else:
      y = y - 1
    k = 0
    while k < 2:
      k = k + 1
    for i in range(2):
      y = y + i
      if y > 100:
        break
      if y > 50:
        continue
      y = y + 1
    if y > 1000:
      return None
    return (y, k, %(n)s)
  return inner(x)
''' % dict(n=name)))
  for role, name, src in roles:
    m = _load(src, 'c11n_%s_%s' % (role, name))
    g = malt.to_graph(m.f)
    for arg in (3, -3):
      want = m.f(arg)
      try:
        got = g(arg)
      except Exception as e:
        got = '%s: %s' % (type(e).__name__, e)
      if got != want:
        return '%s `%s` of a nested function: f(%d) = %r, original %r' % (role, name, arg, got, want)


@witness('C17-default-placeholders-are-distinct-nodes', ['C17', 'C09'])
def c17_defaults_tree():
  """The tree handed back by transform_ast is a tree also for functions with several defaults: every erased default
  is a node of its own (and parse_expression returns a new node per call)."""
  import ast
  import malt
  from malt.impl import api
  from malt.pyct import parser
  a, b = parser.parse_expression('None'), parser.parse_expression('None')
  if a is b:
    return 'parser.parse_expression returned the same node object twice'
  m = _load('''
def f(a, b=1, c=2, *args, k=3, m=4, **kw):
  if a:
    b = b + 1
  return (a, b, c, args, k, m, kw)
''', 'c17d')
  seen = []
  real = api._TRANSPILER.transform_ast

  def spy(node, ctx):
    out = real(node, ctx)
    seen.append(out)
    return out
  api._TRANSPILER.transform_ast = spy
  try:
    g = malt.to_graph(m.f)
  finally:
    del api._TRANSPILER.transform_ast
  for tree in seen:
    ids = {}
    for n in ast.walk(tree):
      if isinstance(n, (ast.expr_context, ast.operator, ast.boolop, ast.unaryop, ast.cmpop)):
        continue            # CPython shares these singletons
      if id(n) in ids:
        return 'node object %s occurs twice in the tree returned by transform_ast' % ast.dump(n)[:80]
      ids[id(n)] = n
  if g(1) != m.f(1) or g(0, 5, k=9) != m.f(0, 5, k=9):
    return 'converted function with several defaults differs from the original'


@witness('C01-return-in-try-whose-handler-falls-through', ['C01'])
def c01_try_return_handler_falls_through():
  """An `if` whose body ends in try/except with a return in the try body (or try-else) and a handler that falls
  through: the statements after the if still run when the handled exception is raised."""
  return _same('''
def f(c, bad):
  log = []
  if c:
    try:
      log.append('try')
      if bad:
        raise ValueError('bad')
      return ('ret-try', log)
    except ValueError:
      log.append('handler')
  log.append('tail')
  if c:
    try:
      if bad:
        raise KeyError('k')
    except KeyError:
      log.append('handler2')
    else:
      return ('ret-else', log)
  log.append('tail2')
  return (2, log)
''', 'c01try', [(True, True), (True, False), (False, False), (False, True)])


@witness('C06-raise-reaches-the-outer-handler', ['C06', 'C05'])
def c06_raise_outer_handler():
  """An explicit raise in an inner try that the inner handlers do not match reaches the OUTER handler: the definitions
  that are current at the raise reach the reads in that handler (also when the outer try body ends in return)."""
  import ast
  import inspect
  from malt.pyct import anno, cfg, naming, parser, qual_names, transformer
  from malt.pyct.static_analysis import activity, reaching_definitions
  m = _load('''
def f(a, b):
    x = 1
    try:
        try:
            x = 2
            if a:
                raise KeyError()
            x = 3
        except ValueError:
            x = 4
        return x
    except KeyError:
        if b:
            x = 5
        return x
''', 'c06raise')
  src = inspect.getsource(m.f)
  node = parser.parse(src)
  node = qual_names.resolve(node)
  ctx = transformer.Context(transformer.EntityInfo(name='f', source_code=src, source_file='x', future_features=(), namespace={}),
                            naming.Namer({}), None)
  node = activity.resolve(node, ctx, None)
  graphs = cfg.build(node)
  node = reaching_definitions.resolve(node, ctx, graphs)
  store2 = read_h = None
  for n in ast.walk(node):
    if isinstance(n, ast.Name) and n.id == 'x':
      if isinstance(n.ctx, ast.Store) and n.lineno == 5:
        store2 = n
      if isinstance(n.ctx, ast.Load) and n.lineno == 15:
        read_h = n
  if store2 is None or read_h is None:
    return 'witness program not recognised'
  d_store = set(map(id, anno.getanno(store2, anno.Static.DEFINITIONS, ())))
  d_read = set(map(id, anno.getanno(read_h, anno.Static.DEFINITIONS, ())))
  if not (d_store & d_read):
    return ('`x = 2` is current when KeyError is raised (f(True, False) = %r) but its definition does not reach the read of x '
            'in the outer handler (%d definitions reach it)' % (m.f(True, False), len(d_read)))


@witness('C16-do-not-convert-region-is-disabled-for-artifacts-too', ['C16'])
def c16_dnc_artifacts():
  """do_not_convert(f) reports DISABLED inside the call for every callable, also when f is already an AutoGraph
  artifact (a convert(user_requested=False) wrapper, an inner function returned by converted code), and restores the
  caller's context object afterwards."""
  import malt
  m = _load('''
import malt
LOG = []

def probe():
  LOG.append(malt.control_status_ctx().status.name)

def body(x):
  if x > 0:
    x = x + 1
  probe()
  return x

def make_inner():
  def inner(x):
    if x > 0:
      x = x + 1
    probe()
    return x
  return inner
''', 'c16dnc')
  dnc = malt.experimental.do_not_convert
  cases = [('plain function', dnc(m.body))]
  for rec in (False, True):
    cases.append(('convert(recursive=%s, user_requested=False) wrapper' % rec,
                  dnc(malt.convert(recursive=rec, user_requested=False)(m.body))))
  cases.append(('inner function returned by converted code', dnc(malt.convert(recursive=True)(m.make_inner)())))
  for label, fn in cases:
    del m.LOG[:]
    before = malt.control_status_ctx()
    fn(1)
    if malt.control_status_ctx() is not before:
      return 'do_not_convert(%s): the context object after the call is not the one before it' % label
    if m.LOG != ['DISABLED']:
      return 'do_not_convert(%s): status seen inside = %s, expected DISABLED' % (label, m.LOG)


@witness('C19-types-cross-break-and-continue', ['C19'])
def c19_jump_nodes():
  """A type that reaches a join only along a path through break / continue is in the inferred set of the join (the
  walk must revisit the successors of jump nodes when their state widens)."""
  import ast
  import inspect
  from malt.pyct import anno, cfg, naming, parser, qual_names, transformer
  from malt.pyct.static_analysis import activity, reaching_definitions, reaching_fndefs, type_inference
  m = _load('''
def f(n):
  x = 1
  z = 0
  i = 0
  while i < n:
    z = x
    if i == 1:
      break
    z = 0
    x = 1.0
    i = i + 1
  return z
''', 'c19jump')

  class R(type_inference.Resolver):
    def res_value(self, ns, value):
      return {type(value)}
    def res_arg(self, ns, types_ns, f_name, name, type_anno, f_is_local):
      return {int}
    def res_binop(self, ns, types_ns, node, left, right):
      if left == {int} and right == {int}:
        return {int}
      return None
    def res_compare(self, ns, types_ns, node, left, right):
      return {bool}
  src = inspect.getsource(m.f)
  node = parser.parse(src)
  node = qual_names.resolve(node)
  ctx = transformer.Context(transformer.EntityInfo(name='f', source_code=src, source_file='x', future_features=(), namespace={}),
                            naming.Namer({}), None)
  node = activity.resolve(node, ctx, None)
  graphs = cfg.build(node)
  node = reaching_definitions.resolve(node, ctx, graphs)
  node = reaching_fndefs.resolve(node, ctx, graphs)
  node = type_inference.resolve(node, ctx, graphs, R())
  ret = [n for n in ast.walk(node) if isinstance(n, ast.Return)][0]
  types = anno.getanno(ret.value, anno.Static.TYPES, None)
  got = type(m.f(3))
  if types is not None and got not in types:
    return 'f(3) returns a %s but the types inferred for the returned name are %s' % (got.__name__, sorted(t.__name__ for t in types))


@witness('C17-to_code-shows-the-generated-module-for-wrapped-functions', ['C17'])
def c17_to_code_wrapped():
  """to_code returns the text of the module that was loaded for to_graph also for a functools.wraps-style wrapper
  (inspect.getsource follows __wrapped__: the converted function must not carry the original's __wrapped__)."""
  import inspect
  import malt
  m = _load('''
import functools

def logged(fn):
  @functools.wraps(fn)
  def wrapper(x):
    if x:
      x = x + 1
    return fn(x)
  return wrapper

@logged
def decorated(x):
  return x * 2
''', 'c17wrap')
  g = malt.to_graph(m.decorated)
  text = malt.to_code(m.decorated)
  loaded = inspect.getsource(inspect.getmodule(g)) if inspect.getmodule(g) is not None else ''
  if 'ag__.' not in text:
    return 'to_code(decorated function) returns text without any operator call (the original source?): %r' % text[:120]
  if g(1) != m.decorated(1) or g(0) != m.decorated(0):
    return 'converted wrapper differs from the original'
  if hasattr(g, '__wrapped__'):
    return 'the converted function carries __wrapped__, so inspect.getsource shows the wrapped function instead of the generated code'


@witness('C10-entry-point-vs-callee-options-do-not-alias', ['C10'])
def c10_user_requested():
  """Option sets that differ only in user_requested / internal_convert_user_code are different cache keys: a function
  first converted as a callee and then requested as an entry point must behave like a fresh entry-point conversion
  (its FunctionScope switches conversion on even inside a do_not_convert region)."""
  from malt.core import ag_ctx
  from malt.impl import api
  m = _load('''
from malt.core import ag_ctx

def probe():
  return ag_ctx.control_status_ctx().status.name

def callee():
  return probe()

def f():
  return callee()
''', 'c10ur')

  def disabled(fn):
    with ag_ctx.ControlStatusCtx(status=ag_ctx.Status.DISABLED):
      return fn()
  api.to_graph(m.f)()                 # callee converted with user_requested=False
  served = api.to_graph(m.callee)     # now requested as an entry point
  saved = api._TRANSPILER
  api._TRANSPILER = api.PyToPy()
  try:
    fresh = api.to_graph(m.callee)
  finally:
    api._TRANSPILER = saved
  got, want = disabled(served), disabled(fresh)
  if got != want:
    return ('to_graph(callee) after callee was converted as a callee: status inside is %s, a fresh conversion under the '
            'same options gives %s' % (got, want))


def main():
  prop = sys.argv[1]
  failing, run = [], 0
  for wid, props, fn in WITNESSES:
    if prop not in props:
      continue
    run += 1
    try:
      what = fn()
    except Exception as e:
      what = 'witness raised %s: %s' % (type(e).__name__, str(e)[:200])
    if what:
      failing.append(dict(id=wid, what=what))
  print(json.dumps(dict(run=run, failing=failing)))


main()
