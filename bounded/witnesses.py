"""Witness programs of the recorded findings; prints which of them still fail on the current tree."""
import json
import os
import sys
import traceback

sys.path.insert(0, os.path.dirname(os.path.abspath(__file__)))
import harness

WITNESSES = []


def witness(wid, props):
  def deco(fn):
    WITNESSES.append((wid, props, fn))
    return fn
  return deco


def _load(src, name):
  return harness.load_source(src, 'vp_wit_' + name)


@witness('D1-for-target-killed-on-exit-edge', ['C01', 'C02', 'C06', 'C07'])
def d1():
  import malt
  m = _load('''
def f(xs, c):
  x = 0
  if c:
    x = 5
  for x in xs:
    pass
  return x
''', 'd1')
  g = malt.to_graph(m.f)
  got, want = g([], True), m.f([], True)
  if got != want:
    return 'for-loop target assigned before the loop: f([], True) = %r, original %r' % (got, want)


@witness('D2-chained-comparison-evaluates-middle-twice', ['C01'])
def d2():
  import malt
  m = _load('''
def f(g):
  return 0 < g() < 10
''', 'd2')
  calls = []

  def g():
    calls.append(1)
    return 5
  malt.to_graph(m.f)(g)
  if len(calls) != 1:
    return 'middle operand of a comparison chain evaluated %d times' % len(calls)


@witness('D15-callee-nonlocal-write-ignored', ['C01', 'C06'])
def d15():
  import malt
  m = _load('''
def f(c):
  def g():
    nonlocal x
    x = 1
  g()
  if c:
    x = 2
  return x
''', 'd15')
  want = m.f(False)
  try:
    got = malt.to_graph(m.f)(False)
  except Exception as e:
    got = type(e).__name__
  if got != want:
    return ('a local function that assigns a nonlocal is called before an if that may rebind it: f(False) gives %r, '
            'original %r (the variable is missing from the defined-on-entry set, so it is reset to Undefined)' % (got, want))


@witness('D18-except-name-not-reserved', ['C11'])
def d18():
  import malt
  m = _load('''
def f(fscope):
  for i in range(2):
    try:
      if i:
        raise ValueError(0)
    except ValueError as fscope_1:
      fscope = type(fscope_1).__name__
  return fscope
''', 'd18')
  want = m.f(0)
  try:
    got = malt.to_graph(m.f)(0)
  except Exception as e:
    got = type(e).__name__
  if got != want:
    return ('the name bound by `except E as name` is isolated from the enclosing scope and therefore not reserved: '
            'a generated symbol (fscope_1) coincides with it: converted gives %r, original %r' % (got, want))


@witness('D8-liveness-mutates-scope-read', ['C07'])
def d8():
  import ast
  from malt.pyct import anno, cfg, qual_names
  from malt.pyct.static_analysis import activity, liveness
  a = ast.Expr(ast.Constant(0))
  sc = activity.Scope(None)
  x, T = qual_names.QN('x'), qual_names.QN('T')
  sc.read = {x, T}
  sc.annotations = {T}
  anno.setanno(a, anno.Static.SCOPE, sc)
  anno.setanno(a, anno.Static.DEFINED_FNS_IN, frozenset())
  nd = cfg.Node(set(), set(), a)
  g = cfg.Graph(entry=nd, exit=frozenset([nd]), error=frozenset(), index={a: nd}, stmt_prev={}, stmt_next={})
  an = liveness.Analyzer(g, False)
  an.visit_node(nd)
  if sc.read != {x, T}:
    return ('liveness.Analyzer(include_annotations=False).visit_node removes the annotations from the '
            'Scope.read set in place (gen aliases node_scope.read): read is now %s' % sorted(map(str, sc.read)))


def main():
  prop = sys.argv[1]
  failing, run = [], 0
  for wid, props, fn in WITNESSES:
    if prop not in props:
      continue
    run += 1
    try:
      what = fn()
    except Exception as e:
      what = 'witness raised %s: %s' % (type(e).__name__, str(e)[:200])
    if what:
      failing.append(dict(id=wid, what=what))
  print(json.dumps(dict(run=run, failing=failing)))


main()
