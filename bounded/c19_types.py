"""C19 bounded stand-in: static type inference over-approximates the types that occur at run time.

usage: c19_types.py <seed> <tier> [--n N] [--no-witnesses] [--maxfail K]

For every generated program the real pipeline (qual_names, activity, cfg, reaching_definitions, reaching_fndefs,
type_inference.resolve) runs with a TRUTHFUL resolver (`Truthful`): literals -> their type; external names ->
type of the real object in the namespace; arguments of the analysed function -> the set of types of the inputs
actually tried (annotated parameters of local functions -> the annotation, which the generator keeps true;
unannotated ones -> None); operators -> evaluated on representative values of every operand-type combination;
external calls -> the declared return-type table of the helpers (checked against the real helpers at start-up);
tuple displays are represented as tuples of element types exactly as the inference does; everything else None.

An instrumented copy of the same (annotated) tree wraps every Load expression that carries anno.Static.TYPES in
`c19log(id, expr)`, logs every annotated Store name right after its assignment, every annotated parameter at
entry, and, at the entry of every local function, the captured (free) variables against the
anno.Static.CLOSURE_TYPES of that definition.  The copy is executed for every input pair and every decision
vector explored by harness.adaptive_vectors (the programs branch on the decision source c()).

Oracle: every observed run-time type is covered by the annotated set (Any covers everything; a tuple of types
covers a tuple value element-wise; a class covers its instances; Callable covers callables).  Nodes without an
annotation are "nothing reported" and are always fine.

Program space (f(a, b); a in {int, float}, b str): assignments of constants / names / arithmetic / comparison /
not / tuple and list displays / constant subscripts of str and tuples / calls to typed helpers, tuple unpacking
(flat and nested, from displays, from a tuple variable, from a helper returning a pair), multiple targets,
if / elif / else, while (fuel) with break / continue, for, re-assignment of m1, m2 (int / float / bool) and
x, y, z (anything) with different types on different paths, values of unknown type (helper without declared
type, list subscripts, loop variables, conditional / boolean expressions, unannotated parameters) flowing into
dedicated variables, local functions (two levels) that read captured variables, rebind `nonlocal` variables,
take annotated and unannotated parameters, with and without return annotation, called from statements, tests,
arguments and loops of the defining function.

Kept OUT of the default space (each has an explicit witness; all are genuine by the wording of C19):
  new-T1-augassign            `x = 1; x += 0.5`  - augmented assignment is not modelled, x stays {int}
  new-T2-loop-target          `x = 1; for x in ['a']: ...` - the for target keeps its previous types
  new-T3-nonlocal-rebinding   a local function rebinds a nonlocal with another type; the caller's view is stale
  new-T4-closure-types-late   closure types contributed by a sibling local function / through an alias arrive
                              after the callee was analysed (or never)
  new-T5-unknown-rhs          `y = 1; y = unknown()` - an assignment from an unknown type keeps the old set
  new-T6-starred-target       `p, *q = 1, 'a', 2.0` - q is given the element type instead of list
  new-T7-closure-types-after-call-statement  `z = g()` where g reads z: CLOSURE_TYPES / the body of g see the
                              type z has after the statement, not the one it has during the call
Hence: augmented assignments are type preserving, loop targets are private names, nonlocal rebinding only on
the type-stable n1 (int) / s1 (str), local functions are called by name from their defining function only,
unknown values are only ever assigned to u1 / u2 / once-assigned locals, no starred targets, a statement that
calls a local function assigns nothing but r1 / r2 (which local functions never read).
Non-trivial = >= 5 checked points and >= 1 checked point whose annotated set has >= 2 members; distinct by source.
"""
import argparse
import ast
import collections.abc
import copy
import hashlib
import itertools
import operator
import os
import random
import signal
import symtable
import sys
import traceback
import typing

sys.path.insert(0, os.path.dirname(os.path.abspath(__file__)))
import harness

from malt.pyct import anno
from malt.pyct import cfg
from malt.pyct import qual_names
from malt.pyct import transformer
from malt.pyct.static_analysis import activity
from malt.pyct.static_analysis import reaching_definitions
from malt.pyct.static_analysis import reaching_fndefs
from malt.pyct.static_analysis import type_inference


# ----------------------------------------------------------------------------------------------- helpers / world

def stype(v):
  """The inference's own representation: a tuple value is typed by the tuple of its element types."""
  if isinstance(v, tuple):
    return tuple(stype(e) for e in v)
  return type(v)


class World(object):
  """Namespace of one execution: typed helpers + decision source + loggers."""

  def __init__(self, bits):
    self.bits = list(bits)
    self.i = 0
    self.seen = {}
    self.clos = {}
    self.unk_n = 0

  def c(self):
    v = self.bits[self.i] if self.i < len(self.bits) else False
    self.i += 1
    return v

  def ns(self):
    w = self

    def ext_int(x=0, k=0):
      return 7

    def ext_float(x=0, k=0):
      return 1.5

    def ext_str(x=0, k=0):
      return 'ab'

    def ext_bool(x=0, k=0):
      return True

    def ext_pair(x=0):
      return (3, 'cd')

    def ext_list(x=0):
      return [1, 'e']

    def ext_pick(x=0):
      return 5 if w.c() else 'pq'

    def ext_same(x, k=0):
      return x

    def ext_unk(x=0):
      w.unk_n += 1
      return [2.5, 'u', (1,), 4][w.unk_n % 4]

    def c19log(i, v):
      w.seen.setdefault(i, set()).add(stype(v))
      return v

    def c19clos(fid, thunks):
      for name, th in thunks.items():
        try:
          v = th()
        except NameError:
          continue
        w.clos.setdefault((fid, name), set()).add(stype(v))

    return dict(c=w.c, ext_int=ext_int, ext_float=ext_float, ext_str=ext_str, ext_bool=ext_bool, ext_pair=ext_pair,
                ext_list=ext_list, ext_pick=ext_pick, ext_same=ext_same, ext_unk=ext_unk, c19log=c19log, c19clos=c19clos)


# declared return types of the external helpers: name -> f(arg type sets) -> set | None
RETS = {
    'c': lambda a: {bool},
    'ext_int': lambda a: {int},
    'ext_float': lambda a: {float},
    'ext_str': lambda a: {str},
    'ext_bool': lambda a: {bool},
    'ext_pair': lambda a: {(int, str)},
    'ext_list': lambda a: {list},
    'ext_pick': lambda a: {int, str},
    'ext_same': lambda a: (set(a[0]) if a and a[0] is not None else None),
    'ext_unk': lambda a: None,
    'len': lambda a: {int},
    'range': lambda a: {range},
}

REPS = {int: [3, -2], float: [2.5], bool: [True, False], str: ['ab', ''], list: [[1], []], type(None): [None]}
BINOPS = {ast.Add: operator.add, ast.Sub: operator.sub, ast.Mult: operator.mul, ast.Div: operator.truediv,
          ast.FloorDiv: operator.floordiv}
UNOPS = {ast.USub: operator.neg, ast.UAdd: operator.pos, ast.Not: operator.not_, ast.Invert: operator.invert}


def reps(t):
  if isinstance(t, tuple):
    parts = [reps(e) for e in t]
    if any(p is None for p in parts):
      return None
    return [tuple(c) for c in itertools.islice(itertools.product(*parts), 8)]
  return REPS.get(t)


class Truthful(type_inference.Resolver):
  """Answers from the real objects / the inputs tried / the declared tables; None whenever it does not know."""

  def __init__(self, arg_types):
    self.arg_types = arg_types

  def res_name(self, ns, types_ns, name):
    n = str(name)
    if n in ('int', 'float', 'str', 'bool'):     # only ever asked for annotations in this space: the denoted type
      t = {'int': int, 'float': float, 'str': str, 'bool': bool}[n]
      return {t}, t
    if n in ns and not n.startswith('c19'):
      return {stype(ns[n])}, ns[n]
    return None, None

  def res_value(self, ns, value):
    return {stype(value)}

  def res_arg(self, ns, types_ns, f_name, name, type_anno, f_is_local):
    if not f_is_local:
      t = self.arg_types.get(str(name))
      return set(t) if t else None
    if type_anno is not None:
      t = {'int': int, 'float': float, 'str': str, 'bool': bool}.get(str(type_anno))
      return {t} if t else None
    return None

  def res_call(self, ns, types_ns, node, f_type, args, keywords):
    f = node.func
    if isinstance(f, ast.Name) and f.id in RETS:
      r = RETS[f.id](args)
      return (set(r) if r is not None else None), None
    return None, None

  def _apply(self, fn, *sets):
    out = set()
    for combo in itertools.product(*sets):
      rr = [reps(t) for t in combo]
      if any(r is None for r in rr):
        out.add(typing.Any)             # Any / a class without representatives: anything may come out
        continue
      for vals in itertools.product(*rr):
        try:
          out.add(stype(fn(*vals)))
        except Exception:
          pass
    return out

  def res_binop(self, ns, types_ns, node, left, right):
    op = BINOPS.get(type(node.op))
    if isinstance(node.op, ast.Mult) and any(isinstance(t, tuple) for t in list(left) + list(right)):
      return None                       # (int, str) * n: the tuple-of-types depends on the VALUE n
    return self._apply(op, left, right) if op else None

  def res_unop(self, ns, types_ns, node, opnd):
    if isinstance(node.op, ast.Not):
      return {bool}
    op = UNOPS.get(type(node.op))
    return self._apply(op, opnd) if op else None

  def res_compare(self, ns, types_ns, node, left, right):
    if all(isinstance(o, (ast.Eq, ast.NotEq, ast.Lt, ast.LtE, ast.Gt, ast.GtE, ast.Is, ast.IsNot, ast.In, ast.NotIn))
           for o in node.ops):
      return {bool}
    return None

  def res_list_literal(self, ns, elt_types):
    return {list}

  def res_slice(self, ns, types_ns, node_or_slice, value, slice_):
    out = set()
    for t in value:
      if t is typing.Any:
        out.add(typing.Any)
      elif t is str:
        if isinstance(node_or_slice, int) or slice_ == {int}:
          out.add(str)
        else:
          return None
      elif isinstance(t, tuple):
        if isinstance(node_or_slice, int):
          if node_or_slice >= len(t):
            return None
          out.add(t[node_or_slice])
        else:
          s = node_or_slice.slice
          if isinstance(s, ast.Constant) and type(s.value) is int and -len(t) <= s.value < len(t):
            out.add(t[s.value])
          elif slice_ == {int}:
            out.update(t)
          else:
            return None
      else:
        return None
    return out


def resolver_selfcheck():
  """The tables must be true of the real helpers and operators (an untruthful resolver is an oracle bug)."""
  bad = []
  w = World([True, False, True])
  ns = w.ns()
  for name, fn in RETS.items():
    if name in ('len', 'range', 'c'):
      continue
    for arg in (1, 'a', (1, 'b')):
      for _ in range(4):
        v = ns[name](arg)
        decl = fn([{stype(arg)}])
        if decl is not None and not any(covers(s, stype(v)) for s in decl):
          bad.append('%s(%r) returned %r, declared %r' % (name, arg, v, decl))
  r = Truthful({})
  alt = {int: [5, 0, -7], float: [0.5, -3.0], bool: [True, False], str: ['xyz', 'q'], list: [[1, 2], ['a']]}
  alt[(int, str)] = [(9, 'z')]
  for opn, op in BINOPS.items():
    for lt, rt in itertools.product(alt, repeat=2):
      decl = r.res_binop(None, None, ast.BinOp(left=None, op=opn(), right=None), {lt}, {rt})
      for lv, rv in itertools.product(alt[lt], alt[rt]):
        try:
          v = op(lv, rv)
        except Exception:
          continue
        if decl is not None and not any(covers(s, stype(v)) for s in decl):
          bad.append('%s %s %s -> %r not in %r' % (lt, opn.__name__, rt, stype(v), decl))
  for opn, op in UNOPS.items():
    for lt in alt:
      decl = r.res_unop(None, None, ast.UnaryOp(op=opn(), operand=None), {lt})
      for lv in alt[lt]:
        try:
          v = op(lv)
        except Exception:
          continue
        if decl is not None and not any(covers(s, stype(v)) for s in decl):
          bad.append('%s %s -> %r not in %r' % (opn.__name__, lt, stype(v), decl))
  return bad


def covers(s, t):
  """Does the static entry s cover the observed stype t?"""
  if s is typing.Any:
    return True
  if isinstance(s, tuple):
    return isinstance(t, tuple) and len(s) == len(t) and all(covers(a, b) for a, b in zip(s, t))
  if isinstance(s, type):
    if isinstance(t, tuple):
      return issubclass(tuple, s)
    return isinstance(t, type) and issubclass(t, s)
  if typing.get_origin(s) is collections.abc.Callable:
    return isinstance(t, type) and hasattr(t, '__call__')
  return False


# ----------------------------------------------------------------------------------------------- analysis

def analyze(src, arg_types, ns):
  tree = ast.parse(src)
  node = [n for n in tree.body if isinstance(n, ast.FunctionDef) and n.name == 'f'][0]
  ei = transformer.EntityInfo(name='f', source_code=src, source_file='<c19>', future_features=(), namespace=ns)
  ctx = transformer.Context(ei, None, None)
  node = qual_names.resolve(node)
  node = activity.resolve(node, ctx)
  graphs = cfg.build(node)
  node = reaching_definitions.resolve(node, ctx, graphs)
  node = reaching_fndefs.resolve(node, ctx, graphs)
  node = type_inference.resolve(node, ctx, graphs, Truthful(arg_types))
  return node


def free_vars(src):
  """(name, lineno) of every function -> its free variables (captured from enclosing functions)."""
  out = {}

  def walk(tbl):
    for ch in tbl.get_children():
      if ch.get_type() == 'function':
        out[(ch.get_name(), ch.get_lineno())] = sorted(ch.get_frees())
      walk(ch)
  walk(symtable.symtable(src, '<c19>', 'exec'))
  return out


class Points(object):
  """Numbering of the annotated nodes of the analysed tree."""

  def __init__(self, node, src):
    self.info = {}       # id -> (kind, line, text, static types tuple)
    self.closure = {}    # fid -> (fn name, line, {var: static set})
    frees = free_vars(src)
    n_id = 0
    for n in ast.walk(node):
      if anno.hasanno(n, anno.Static.TYPES):
        kind = None
        if isinstance(n, ast.arg):
          kind = 'arg'
        elif isinstance(n, ast.Name) and isinstance(n.ctx, ast.Store):
          kind = 'store'
        elif isinstance(n, ast.expr) and not isinstance(getattr(n, 'ctx', None), (ast.Store, ast.Del)) \
            and not isinstance(n, ast.Starred):
          kind = 'expr'
        if kind:
          n_id += 1
          n._c19 = n_id
          try:
            text = ast.unparse(n)
          except Exception:
            text = type(n).__name__
          self.info[n_id] = (kind, getattr(n, 'lineno', 0), text[:50], tuple(anno.getanno(n, anno.Static.TYPES)))
      if isinstance(n, ast.FunctionDef) and n.name != 'f':
        n_id += 1
        n._c19f = n_id
        n._c19free = frees.get((n.name, n.lineno), [])
        ct = anno.getanno(n, anno.Static.CLOSURE_TYPES, None)
        self.closure[n_id] = (n.name, n.lineno, None if ct is None else {str(k): set(v) for k, v in ct.items()})


def _log_call(i, expr):
  return ast.Call(func=ast.Name(id='c19log', ctx=ast.Load()), args=[ast.Constant(value=i), expr], keywords=[])


class Instrument(ast.NodeTransformer):
  def visit_arg(self, node):
    return node                                  # never descend into annotations

  def visit_FunctionDef(self, node):
    node.returns = None
    pre = []
    for a in node.args.args + node.args.kwonlyargs:
      i = getattr(a, '_c19', None)
      a.annotation = None
      if i:
        pre.append(ast.Expr(value=_log_call(i, ast.Name(id=a.arg, ctx=ast.Load()))))
    fid = getattr(node, '_c19f', None)
    if fid and node._c19free:
      keys = [ast.Constant(value=v) for v in node._c19free]
      vals = [ast.Lambda(args=ast.arguments(posonlyargs=[], args=[], kwonlyargs=[], kw_defaults=[], defaults=[]),
                         body=ast.Name(id=v, ctx=ast.Load())) for v in node._c19free]
      pre.append(ast.Expr(value=ast.Call(func=ast.Name(id='c19clos', ctx=ast.Load()),
                                         args=[ast.Constant(value=fid), ast.Dict(keys=keys, values=vals)], keywords=[])))
    body = []
    for st in node.body:
      r = self.visit(st)
      body.extend(r if isinstance(r, list) else [r])
    decl = [s for s in body if isinstance(s, (ast.Nonlocal, ast.Global))]
    rest = [s for s in body if not isinstance(s, (ast.Nonlocal, ast.Global))]
    node.body = decl + pre + rest
    return node

  def visit_Assign(self, node):
    node.value = self.visit(node.value)
    after = []
    for tg in node.targets:
      for n in ast.walk(tg):
        if isinstance(n, ast.Name) and isinstance(n.ctx, ast.Store) and getattr(n, '_c19', None):
          after.append(ast.Expr(value=_log_call(n._c19, ast.Name(id=n.id, ctx=ast.Load()))))
    return [node] + after

  def generic_visit(self, node):
    node = super().generic_visit(node)
    i = getattr(node, '_c19', None)
    if i and isinstance(node, ast.expr) and not isinstance(getattr(node, 'ctx', None), (ast.Store, ast.Del)) \
        and not isinstance(node, ast.Starred):
      return _log_call(i, node)
    return node


class _Timeout(BaseException):
  pass


def _on_alarm(signum, frame):
  raise _Timeout()


ANALYSIS_TIMEOUT = 20
INPUTS = [(3, 's'), (2.5, 'tt')]
ARG_TYPES = {'a': {int, float}, 'b': {str}}


def check_one(src, inputs=INPUTS, arg_types=ARG_TYPES, max_len=6, cap=20):
  """-> dict(status='ok'|'fail'|'crash', runs, checked, joins, failure)"""
  res = dict(status='ok', runs=0, checked=0, joins=0, closure_checked=0, failure=None)
  try:
    compile(src, '<c19>', 'exec')
  except SyntaxError as e:
    res.update(status='fail', failure=dict(kind='generator-bug', sig='syntax', what=str(e)))
    return res
  try:
    signal.signal(signal.SIGALRM, _on_alarm)
    signal.setitimer(signal.ITIMER_REAL, ANALYSIS_TIMEOUT)
    try:
      node = analyze(src, arg_types, World([]).ns())
    finally:
      signal.setitimer(signal.ITIMER_REAL, 0)
  except _Timeout:
    res.update(status='fail', failure=dict(kind='analysis-does-not-terminate', sig='timeout',
                                           what='type inference did not reach a fixed point within %d s' % ANALYSIS_TIMEOUT))
    return res
  except Exception as e:
    res.update(status='crash', failure=dict(kind='analysis-crash', sig=type(e).__name__,
                                            what='%s: %s' % (type(e).__name__, str(e)[:200])))
    return res
  pts = Points(node, src)
  inst = Instrument().visit(copy.deepcopy(node))
  mod = ast.fix_missing_locations(ast.Module(body=[inst], type_ignores=[]))
  try:
    code = compile(mod, '<c19-instrumented>', 'exec')
  except Exception as e:
    res.update(status='fail', failure=dict(kind='harness-error', sig='instrument', what='%s: %s' % (type(e).__name__, e)))
    return res
  seen, clos = {}, {}
  first_seen = {}

  for inp in inputs:
    def run(bits):
      w = World(bits)
      ns = w.ns()
      try:
        exec(code, ns)
        ns['f'](*inp)
      except RecursionError:
        pass
      except Exception:
        pass
      res['runs'] += 1
      for i, ts in w.seen.items():
        for t in ts:
          if t not in seen.setdefault(i, set()):
            seen[i].add(t)
            first_seen[(i, t)] = (inp, list(bits))
      for k, ts in w.clos.items():
        for t in ts:
          if t not in clos.setdefault(k, set()):
            clos[k].add(t)
            first_seen[(k, t)] = (inp, list(bits))
      return w.i
    harness.adaptive_vectors(run, max_len=max_len, cap=cap)

  for i, ts in sorted(seen.items()):
    kind, line, text, static = pts.info[i]
    res['checked'] += 1
    if len(static) >= 2:
      res['joins'] += 1
    for t in ts:
      if not any(covers(s, t) for s in static):
        inp, bits = first_seen[(i, t)]
        res.update(status='fail', failure=dict(
            kind='unsound-types', sig='%s-%s' % (kind, _short(t)),
            what='line %d `%s` (%s): annotated %s, observed %s (input %r, decisions %s)' % (
                line, text, kind, _fmt(static), _fmt1(t), inp, bits),
            input=list(inp), decisions=bits))
        return res
  for (fid, name), ts in sorted(clos.items()):
    fname, line, ct = pts.closure[fid]
    if ct is None or name not in ct:
      continue
    res['closure_checked'] += 1
    for t in ts:
      if not any(covers(s, t) for s in ct[name]):
        inp, bits = first_seen[((fid, name), t)]
        res.update(status='fail', failure=dict(
            kind='unsound-closure-types', sig='%s' % _short(t),
            what='local function %s (line %d): captured %s has CLOSURE_TYPES %s, observed %s at a call (input %r, '
                 'decisions %s)' % (fname, line, name, _fmt(ct[name]), _fmt1(t), inp, bits),
            input=list(inp), decisions=bits))
        return res
  return res


def _fmt1(t):
  if isinstance(t, tuple):
    return '(%s)' % ', '.join(_fmt1(e) for e in t)
  return getattr(t, '__name__', None) or str(t)


def _fmt(ts):
  return '{%s}' % ', '.join(sorted(_fmt1(t) for t in ts))


def _short(t):
  return 'tuple' if isinstance(t, tuple) else getattr(t, '__name__', 'x')


# ----------------------------------------------------------------------------------------------- generator

INIT = ['m1 = 0', 'm2 = 1.5', 'n1 = 1', "s1 = 'k'", 'x = 0', "y = 'q'", 'z = 2.5', "tp = (1, 'v')", 'xs = [1, 2]']


class Env(object):
  """Variables by category visible at a program point."""

  def __init__(self, num, ints, strs, mix, unk, fns, store_num, store_mix, in_local=False):
    self.num, self.ints, self.strs, self.mix, self.unk, self.fns = num, ints, strs, mix, unk, fns
    self.store_num, self.store_mix = store_num, store_mix
    self.in_local = in_local
    self.closed = False            # True: expressions may not read captured variables (tp, xs, ...)

  def child(self, **kw):
    e = Env(list(self.num), list(self.ints), list(self.strs), list(self.mix), list(self.unk), list(self.fns),
            list(self.store_num), list(self.store_mix), self.in_local)
    e.closed = self.closed
    for k, v in kw.items():
      setattr(e, k, v)
    return e


class TGen(object):
  def __init__(self, rnd):
    self.rnd = rnd
    self.uid = 0

  def U(self):
    self.uid += 1
    return self.uid

  # ---- expressions (by category; every one of these has a KNOWN static type, except unk)
  def intx(self, d, env):
    rnd = self.rnd
    r = rnd.random()
    if d <= 0 or r < 0.3:
      return rnd.choice(env.ints + [str(rnd.randint(0, 5))] * 2)
    if r < 0.5:
      return '(%s %s %s)' % (self.intx(d - 1, env), rnd.choice(['+', '-', '*']), self.intx(d - 1, env))
    if r < 0.6:
      return 'ext_int(%s)' % self.mixx(d - 1, env)
    if r < 0.68 and not env.closed:
      return 'len(xs)'
    if r < 0.76:
      return '(-%s)' % self.intx(d - 1, env)
    if r < 0.84:
      return '(%s // 2)' % self.intx(d - 1, env)
    fs = [f for f in env.fns if f[2] == 'int']
    if fs:
      return self.call_local(rnd.choice(fs), d, env)
    return rnd.choice(env.ints + ["2"])

  def numx(self, d, env):
    rnd = self.rnd
    r = rnd.random()
    if d <= 0 or r < 0.25:
      return rnd.choice(env.num + env.ints + ['1', '2.5', 'True', 'False', '0.5', '4'])
    if r < 0.5:
      return '(%s %s %s)' % (self.numx(d - 1, env), rnd.choice(['+', '-', '*']), self.numx(d - 1, env))
    if r < 0.58:
      return '(%s / 2)' % self.numx(d - 1, env)
    if r < 0.66:
      return '(%s %s %s)' % (self.numx(d - 1, env), rnd.choice(['<', '<=', '==', '>']), self.numx(d - 1, env))
    if r < 0.72:
      return '(not %s)' % self.mixx(d - 1, env)
    if r < 0.8:
      return '%s(%s)' % (rnd.choice(['ext_int', 'ext_float', 'ext_bool']), self.mixx(d - 1, env))
    if r < 0.85:
      return 'ext_float(%s, k=%s)' % (self.mixx(d - 1, env), self.mixx(d - 1, env))
    if r < 0.9:
      return '(%s%s)' % (rnd.choice(['-', '+']), self.numx(d - 1, env))
    return self.intx(d, env)

  def strx(self, d, env):
    rnd = self.rnd
    r = rnd.random()
    if d <= 0 or r < 0.35:
      return rnd.choice(env.strs + ["'w'", "'hi'"])
    if r < 0.55:
      return '(%s + %s)' % (self.strx(d - 1, env), self.strx(d - 1, env))
    if r < 0.65:
      return '(%s * 2)' % self.strx(d - 1, env)
    if r < 0.8:
      return 'ext_str(%s)' % self.mixx(d - 1, env)
    if r < 0.9 and env.strs:
      return '%s[0]' % rnd.choice(env.strs)
    fs = [f for f in env.fns if f[2] == 'str']
    if fs:
      return self.call_local(rnd.choice(fs), d, env)
    return rnd.choice(env.strs + ["'v'"])

  def mixx(self, d, env):
    rnd = self.rnd
    r = rnd.random()
    if d <= 0 or r < 0.22:
      return rnd.choice(env.mix + env.mix + env.num + env.strs + ([] if env.closed else ['tp', 'xs'])
                        + ['1', "'c'", '2.0', 'True'])
    if r < 0.36:
      return self.numx(d, env)
    if r < 0.46:
      return self.strx(d, env)
    if r < 0.54:
      return '(%s, %s)' % (self.flatx(d - 1, env), self.flatx(d - 1, env))
    if r < 0.6:
      return '[%s, %s]' % (self.mixx(d - 1, env), self.anyx(d - 1, env))
    if r < 0.68:
      return 'ext_pick(%s)' % self.mixx(d - 1, env)
    if r < 0.76:
      return 'ext_same(%s)' % self.mixx(d - 1, env)
    if r < 0.82 and not env.closed:
      return 'tp[%d]' % rnd.randint(0, 1)
    if r < 0.87:
      return '(%s == %s)' % (self.mixx(d - 1, env), self.mixx(d - 1, env))
    if r < 0.91 and env.mix:
      return '(%s != %s)' % (rnd.choice(env.mix), self.flatx(d - 1, env))
    if r < 0.94:
      return 'ext_pair(%s)' % self.mixx(d - 1, env)
    if env.fns:
      return self.call_local(rnd.choice(env.fns), d, env)
    return rnd.choice(env.mix + ['3'])

  def flatx(self, d, env):
    """never tuple-typed: tuple displays are built from these only (a tuple inside a tuple re-assigned in a loop
    makes the type sets grow without bound and the analysis diverge - a termination matter, not C19)"""
    r = self.rnd.random()
    if r < 0.45:
      return self.numx(d, env)
    if r < 0.85:
      return self.strx(d, env)
    return 'ext_pick(%s)' % self.flatx(d - 1, env) if d > 0 else "'f'"

  def unkx(self, d, env):
    rnd = self.rnd
    r = rnd.random()
    if r < 0.3:
      return 'ext_unk(%s)' % self.mixx(d - 1, env)
    if r < 0.45:
      return 'xs[%d]' % rnd.randint(0, 1)
    if r < 0.6 and env.unk:
      return rnd.choice(env.unk)
    if r < 0.75:
      return '(%s if c() else %s)' % (self.mixx(d - 1, env), self.mixx(d - 1, env))
    if r < 0.85:
      return '(%s or %s)' % (self.mixx(d - 1, env), self.mixx(d - 1, env))
    if r < 0.93 and env.unk:
      return '(%s, %s)' % (rnd.choice(env.unk), self.mixx(d - 1, env))
    return 'ext_same(ext_unk(%s))' % self.mixx(d - 1, env)

  def anyx(self, d, env):
    return self.unkx(d, env) if self.rnd.random() < 0.25 else self.mixx(d, env)

  def call_local(self, fn, d, env):
    name, params, ret = fn
    args = []
    for p in params:
      args.append(self.intx(d - 1, env) if p == 'int' else self.anyx(d - 1, env))
    return '%s(%s)' % (name, ', '.join(args))

  # ---- statements
  def simple(self, ind, env_full):
    rnd = self.rnd
    d = rnd.randint(1, 3)
    r = rnd.random()
    # T7: a statement that calls a local function must not rebind anything the function can read, so only
    # expression statements, tests and assignments to r1 / r2 (invisible to local functions) contain such calls
    env = env_full.child(fns=[])
    env.unk = env_full.unk
    if r < 0.1 and env_full.fns and not env_full.in_local:
      rv = rnd.choice(['r1', 'r2'])
      line = '%s%s = %s' % (ind, rv, self.call_local(rnd.choice(env_full.fns), d, env_full))
      if rv not in env_full.mix:
        env_full.mix.append(rv)
      return [line]
    r = rnd.random()
    if r < 0.16 and env.store_num:
      return ['%s%s = %s' % (ind, rnd.choice(env.store_num), self.numx(d, env))]
    if r < 0.36 and env.store_mix:
      return ['%s%s = %s' % (ind, rnd.choice(env.store_mix), self.mixx(d, env))]
    if r < 0.42 and not env.in_local:
      return ['%sn1 = %s' % (ind, self.intx(d, env))] if rnd.random() < 0.6 else ['%ss1 = %s' % (ind, self.strx(d, env))]
    if r < 0.5 and not env.in_local:
      if rnd.random() < 0.6:
        return ['%stp = (%s, %s)' % (ind, self.flatx(d - 1, env), self.flatx(d - 1, env))]
      return ['%stp = ext_pair(%s)' % (ind, self.mixx(d - 1, env))]
    if r < 0.55 and not env.in_local:
      return ['%sxs = %s' % (ind, rnd.choice(['[%s, %s]' % (self.mixx(d - 1, env), self.anyx(d - 1, env)),
                                              'ext_list(%s)' % self.mixx(d - 1, env)]))]
    if r < 0.7 and len(env.store_mix) >= 2:
      p, q = rnd.sample(env.store_mix, 2)
      k = rnd.random()
      if k < 0.35:
        return ['%s%s, %s = tp' % (ind, p, q)]
      if k < 0.65:
        return ['%s%s, %s = %s, %s' % (ind, p, q, self.mixx(d - 1, env), self.mixx(d - 1, env))]
      if k < 0.8:
        return ['%s%s, %s = ext_pair(%s)' % (ind, p, q, self.mixx(d - 1, env))]
      if k < 0.9 and env.store_num:
        return ['%s(%s, %s), %s = (%s, %s), %s' % (ind, p, q, rnd.choice(env.store_num), self.flatx(d - 1, env),
                                                   self.flatx(d - 1, env), self.numx(d - 1, env))]
      return ['%s%s = %s = %s' % (ind, p, q, self.mixx(d, env))]
    if r < 0.8 and not env.in_local:
      u = rnd.choice(['u1', 'u2'])
      line = '%s%s = %s' % (ind, u, self.unkx(d, env))
      if u not in env.unk:
        env.unk.append(u)
      return [line]
    if r < 0.88 and not env.in_local:
      return [rnd.choice(['%sn1 += %s' % (ind, self.intx(1, env)), "%ss1 += 'z'" % ind, '%sn1 *= 2' % ind,
                          '%sn1 -= 1' % ind])]
    if r < 0.94 and env_full.fns:
      return ['%s%s' % (ind, self.call_local(rnd.choice(env_full.fns), d, env_full))]
    if env.store_mix:
      return ['%s%s = %s' % (ind, rnd.choice(env.store_mix), self.mixx(d, env))]
    return ['%spass' % ind]

  def block(self, ind, depth, env, budget, in_loop):
    lines = []
    for _ in range(self.rnd.randint(1, 3)):
      if budget[0] > 0 and depth < 3 and self.rnd.random() < 0.5:
        budget[0] -= 1
        lines += self.compound(ind, depth, env, budget, in_loop)
      else:
        lines += self.simple(ind, env)
    return lines

  def test(self, env):
    r = self.rnd.random()
    if r < 0.55:
      return 'c()'
    if r < 0.75:
      return '%s < %s' % (self.numx(1, env), self.numx(1, env))
    if r < 0.85 and env.fns:
      return '%s == 3' % self.call_local(self.rnd.choice(env.fns), 1, env)
    return '%s == %s' % (self.mixx(1, env), self.mixx(1, env))

  def compound(self, ind, depth, env, budget, in_loop):
    rnd = self.rnd
    ind2 = ind + '  '
    kinds = ['if', 'ifelse', 'ifelse', 'while', 'for', 'def', 'def', 'ret']
    if in_loop:
      kinds += ['brk', 'cont']
    k = rnd.choice(kinds)
    if k == 'if':
      return ['%sif %s:' % (ind, self.test(env))] + self.block(ind2, depth + 1, env.child(), budget, in_loop)
    if k == 'ifelse':
      out = ['%sif %s:' % (ind, self.test(env))] + self.block(ind2, depth + 1, env.child(), budget, in_loop)
      if rnd.random() < 0.3:
        out += ['%selif %s:' % (ind, self.test(env))] + self.block(ind2, depth + 1, env.child(), budget, in_loop)
      return out + ['%selse:' % ind] + self.block(ind2, depth + 1, env.child(), budget, in_loop)
    if k == 'while':
      fu = 'fu_%d' % self.U()
      return (['%s%s = 0' % (ind, fu), '%swhile %s < 2 and %s:' % (ind, fu, self.test(env)), '%s%s += 1' % (ind2, fu)]
              + self.block(ind2, depth + 1, env.child(), budget, True))
    if k == 'for':
      i = 'i_%d' % self.U()
      it = rnd.choice(['xs', 'xs', '(%s, %s)' % (self.flatx(1, env), self.flatx(1, env)), 'range(2)', 'tp'])
      e2 = env.child()
      e2.unk = e2.unk + [i]
      return ['%sfor %s in %s:' % (ind, i, it)] + self.block(ind2, depth + 1, e2, budget, True)
    if k == 'brk':
      return ['%sif c():' % ind, '%sbreak' % ind2]
    if k == 'cont':
      return ['%sif c():' % ind, '%scontinue' % ind2]
    if k == 'ret':
      return ['%sif c():' % ind, '%sreturn %s' % (ind2, self.anyx(2, env))]
    if k == 'def':
      if env.in_local == 2:
        return self.simple(ind, env)
      lines, fn = self.local_def(ind, env)
      env.fns.append(fn)
      calls = []
      for _ in range(rnd.randint(1, 2)):
        if rnd.random() < 0.5:
          rv = rnd.choice(['r1', 'r2'])
          calls.append('%s%s = %s' % (ind, rv, self.call_local(fn, 2, env)))
          if rv not in env.mix:
            env.mix.append(rv)
        else:
          calls.append('%s%s' % (ind, self.call_local(fn, 2, env)))
      return lines + calls
    raise AssertionError(k)

  def local_def(self, ind, env):
    rnd = self.rnd
    ind2 = ind + '  '
    name = 'g_%d' % self.U()
    shape = rnd.choice([('int',), ('int', 'any'), (), ('any',)])
    pn = ['p_%d' % self.U() for _ in shape]
    sig = ', '.join('%s: int' % n if s == 'int' else n for n, s in zip(pn, shape))
    ret = rnd.choice(['int', 'str', None, None])
    level = 1 if not env.in_local else 2
    e = env.child(in_local=level)
    e.fns = []                     # local functions are called from their defining function only (T4)
    e.mix = [v for v in e.mix if v not in ('r1', 'r2')]      # T7: call results are invisible to local functions
    e.ints = e.ints + [n for n, s in zip(pn, shape) if s == 'int']
    e.unk = [n for n, s in zip(pn, shape) if s == 'any']
    e.store_num, e.store_mix = [], []
    body = []
    rebinding = None
    if rnd.random() < 0.45:
      rebinding = rnd.choice(['n1', 's1'])
      body.append('%snonlocal %s' % (ind2, rebinding))
    for _ in range(rnd.randint(0, 3)):
      r = rnd.random()
      loc = 'l_%d' % self.U()
      if r < 0.4:
        body.append('%s%s = %s' % (ind2, loc, self.mixx(2, e)))
        e.mix = e.mix + [loc]
      elif r < 0.55:
        body.append('%s%s = %s' % (ind2, loc, self.numx(2, e)))
        e.num = e.num + [loc]
      elif r < 0.7:
        body.append('%s%s = %s' % (ind2, loc, self.unkx(2, e)))
        e.unk = e.unk + [loc]
      elif r < 0.85:
        # a join inside the local function.  Both sides must have a KNOWN type (T5), and a captured variable is
        # not reliably known here (never-called function, name declared nonlocal further out): parameters,
        # literals and helper calls only
        ec = Env(num=[], ints=[n for n, s_ in zip(pn, shape) if s_ == 'int'], strs=[], mix=[], unk=[], fns=[],
                 store_num=[], store_mix=[], in_local=level)
        ec.closed = True
        body.append('%sif c():' % ind2)
        body.append('%s  %s = %s' % (ind2, loc, self.mixx(2, ec)))
        body.append('%selse:' % ind2)
        body.append('%s  %s = %s' % (ind2, loc, self.mixx(2, ec)))
        e.mix = e.mix + [loc]
      elif level == 1:
        lines, fn = self.local_def(ind2, e)
        body += lines
        e.fns = e.fns + [fn]
        body.append('%s%s = %s' % (ind2, loc, self.call_local(fn, 2, e)))      # loc is fresh: fn cannot read it
        e.mix = e.mix + [loc]
    if rebinding == 'n1':
      body.append('%sn1 = %s' % (ind2, self.intx(2, e)))
    elif rebinding == 's1':
      body.append('%ss1 = %s' % (ind2, self.strx(2, e)))
    if ret == 'int':
      body.append('%sreturn %s' % (ind2, self.intx(2, e)))
    elif ret == 'str':
      body.append('%sreturn %s' % (ind2, self.strx(2, e)))
    else:
      body.append('%sreturn %s' % (ind2, self.anyx(2, e)))
    head = '%sdef %s(%s)%s:' % (ind, name, sig, ' -> %s' % ret if ret else '')
    return [head] + body, (name, shape, ret)

  def program(self, size):
    env = Env(num=['m1', 'm2', 'a'], ints=['n1'], strs=['s1', 'b'], mix=['x', 'y', 'z'], unk=[], fns=[],
              store_num=['m1', 'm2'], store_mix=['x', 'y', 'z'])
    budget = [size]
    body = ['  ' + s for s in INIT]
    body += self.block('  ', 0, env, budget, False)
    while budget[0] > 0 and len(body) < 60:
      body += self.block('  ', 0, env, budget, False)
    return 'def f(a, b):\n' + '\n'.join(body) + '\n  return (x, y, z, m1, m2, n1, s1, tp)\n'


# ----------------------------------------------------------------------------------------------- shrinking

def shrink(src, kind):
  def fails(s):
    try:
      r = check_one(s)
    except Exception:
      return False
    return r['status'] == 'fail' and r['failure']['kind'] == kind
  cur = src
  for _ in range(40):
    tree = ast.parse(cur)
    fdef = tree.body[0]
    cands = []
    for n in ast.walk(tree):
      for fld in ('body', 'orelse'):
        lst = getattr(n, fld, None)
        if isinstance(lst, list) and lst and isinstance(lst[0], ast.stmt):
          for i in range(len(lst)):
            if n is fdef and fld == 'body' and i < len(INIT):
              continue
            cands.append((n, fld, i))
    done = False
    for (n, fld, i) in cands:
      lst = getattr(n, fld)
      saved = lst[i]
      if isinstance(saved, (ast.Nonlocal, ast.Global)):
        continue
      if isinstance(saved, ast.Return) and isinstance(n, ast.FunctionDef) and n is not fdef:
        continue
      if any(isinstance(x, ast.Name) and x.id.startswith('fu_') for x in ast.walk(saved)) and not hasattr(saved, 'body'):
        continue
      options = [[]]
      if hasattr(saved, 'body') and not isinstance(saved, (ast.FunctionDef, ast.While)):
        options.append(list(saved.body))
      for opt in options:
        new = lst[:i] + opt + lst[i + 1:]
        if not new and fld == 'body':
          new = [ast.Pass()]
        setattr(n, fld, new)
        try:
          s2 = ast.unparse(ast.fix_missing_locations(tree))
          ok = fails(s2)
        except Exception:
          ok = False
        if ok:
          cur = s2
          done = True
          break
        setattr(n, fld, lst)
      if done:
        break
    if not done:
      break
  return cur


# ----------------------------------------------------------------------------------------------- driver

def work(item):
  idx, seed, size = item
  out = dict(idx=idx, status=None, runs=0, nontrivial=False, failure=None, src=None, key=None, checked=0, joins=0,
             closure_checked=0)
  try:
    src = TGen(random.Random(seed)).program(size)
    out['key'] = hashlib.sha1(src.encode()).hexdigest()
    r = check_one(src)
    out.update(status=r['status'], runs=r['runs'], checked=r['checked'], joins=r['joins'],
               closure_checked=r['closure_checked'])
    out['nontrivial'] = r['status'] == 'ok' and r['checked'] >= 5 and r['joins'] >= 1
    if r['status'] == 'ok' and len(src) < 900:
      out['src'] = src
    if r['status'] in ('fail', 'crash'):
      f = dict(r['failure'])
      if r['status'] == 'fail' and f['kind'].startswith('unsound'):
        try:
          small = shrink(src, f['kind'])
          r2 = check_one(small)
          if r2['status'] == 'fail' and r2['failure']['kind'] == f['kind']:
            f, src = dict(r2['failure']), small
        except Exception:
          pass
      f.update(program=src, seed=seed)
      out['failure'] = f
      out['status'] = 'fail'
  except Exception:
    out['status'] = 'fail'
    out['failure'] = dict(kind='harness-error', sig='exception', what=traceback.format_exc()[-600:], program=None, seed=seed)
  return out


WITNESSES = [
    ('new-T1-augassign', 'type-changing-augmented-assignment',
     'def f(a, b):\n  x = 1\n  x += 0.5\n  return x\n',
     'augmented assignment is not modelled: x keeps {int} after `x += 0.5`'),
    ('new-T2-loop-target', 'for-target-keeps-old-types',
     "def f(a, b):\n  x = 1\n  for x in ['a']:\n    y = x\n  return x\n",
     'the for target is not modelled: x keeps {int} inside and after `for x in [\'a\']`'),
    ('new-T3-nonlocal-rebinding', 'caller-view-stale',
     "def f(a, b):\n  x = 1\n  def g():\n    nonlocal x\n    x = 'a'\n  g()\n  return x\n",
     'a local function rebinds a nonlocal with another type; after the call the caller still has x: {int}'),
    ('new-T4-closure-types-late', 'sibling-local-function',
     "def f(a, b):\n  x = 1\n  def g():\n    return x\n  def h():\n    return g()\n  g()\n  x = 'a'\n  return h()\n",
     'closure types contributed by the call in h reach g after g was analysed: x in g stays {int}'),
    ('new-T4-closure-types-late', 'alias',
     "def f(a, b):\n  x = 1\n  def g():\n    return x\n  r = g\n  x = 'a'\n  return r()\n",
     'closure types are collected only at statements that name g: the call through the alias r is missed'),
    ('new-T7-closure-types-after-call-statement', 'assignment-of-the-call-result',
     "def f(a, b):\n  z = 2.5\n  def g() -> str:\n    y = z\n    return 'a'\n  z = g()\n  return z\n",
     'closure types are taken from the state AFTER the calling statement: `z = g()` records z: {str} although z is a '
     'float while g runs'),
    ('new-T5-unknown-rhs', 'old-types-kept',
     'def f(a, b):\n  y = 1\n  y = ext_unk()\n  return y\n',
     'assignment from an expression of unknown type keeps the previous set instead of forgetting it'),
    ('new-T5-unknown-rhs', 'conditional-expression',
     "def f(a, b):\n  y = 1\n  y = 'a' if c() else 2.5\n  return y\n",
     'a conditional expression has no inferred type; the target keeps its previous set {int}'),
    ('new-T6-starred-target', 'element-type-instead-of-list',
     "def f(a, b):\n  p, *q = 1, 'a', 2.5\n  return q\n",
     'starred unpacking target q is given the type of element 1 (str); it is a list'),
]


def run_witnesses():
  out = []
  for kind, sig, src, what in WITNESSES:
    try:
      r = check_one(src)
    except Exception:
      out.append(dict(kind='harness-error', sig=kind, what=traceback.format_exc()[-400:], program=src))
      continue
    if r['status'] != 'ok':
      out.append(dict(kind=kind, sig=sig, what='%s [%s: %s]' % (what, r['failure']['kind'], r['failure']['what']),
                      program=src))
  return out


def main():
  ap = argparse.ArgumentParser()
  ap.add_argument('seed', type=int)
  ap.add_argument('tier')
  ap.add_argument('--n', type=int, default=None)
  ap.add_argument('--no-witnesses', action='store_true')
  ap.add_argument('--maxfail', type=int, default=10)
  a = ap.parse_args()
  n = a.n if a.n is not None else (150000 if a.tier == 'thorough' else 5000)
  bad = resolver_selfcheck()
  failures = [dict(kind='harness-error', sig='resolver-untruthful', what=b, program=None) for b in bad[:3]]
  items = [(i, a.seed * 1000003 + i, 1 + (i % 5)) for i in range(n)]
  evaluated = programs = okp = nfail = checked = joins = closure_checked = 0
  seen = set()
  samples = []
  keys = set()
  for r in harness.pool_map(work, items, chunksize=8):
    programs += 1
    evaluated += r['runs']
    checked += r['checked']
    joins += r['joins']
    closure_checked += r['closure_checked']
    if r['status'] == 'ok':
      okp += 1
      if r['nontrivial'] and r['key'] not in seen:
        seen.add(r['key'])
        if len(samples) < 2 and r['src'] and r['closure_checked']:
          samples.append(r['src'])
    else:
      nfail += 1
      f = r['failure']
      k = (f['kind'], f['sig'])
      if (k not in keys or len(failures) < 4) and len(failures) < a.maxfail:
        keys.add(k)
        failures.append(f)
  wit = [] if a.no_witnesses else run_witnesses()
  harness.emit(dict(
      evaluated=evaluated, distinct_nontrivial=len(seen), programs=programs, programs_ok=okp, failing_programs=nfail,
      annotated_points_checked=checked, points_with_joined_sets=joins, closure_type_entries_checked=closure_checked,
      witnesses_run=0 if a.no_witnesses else len(WITNESSES),
      rule=('bounded (NOT proved): %d seeded random programs f(a, b) of 1-5 compound statements (see module '
            'docstring for the space and what is kept out of it); each analysed with the truthful resolver and its '
            'instrumented copy run on inputs %s x decision vectors explored adaptively (<= 6 decisions, <= 20 vectors '
            'per input); every logged run-time type must be covered by the TYPES / CLOSURE_TYPES annotation; '
            'non-trivial = >= 5 checked points with >= 1 joined (>= 2 member) set; distinct by source hash'
            % (n, INPUTS)),
      samples=samples, failures=wit + failures))


if __name__ == '__main__':
  main()
