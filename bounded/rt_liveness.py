"""Run-time evaluation of the liveness.Analyzer.visit_node contract on small concrete inputs
(replay for refuted/undecided obligations; also a bounded stand-in).  Real Analyzer, real Scope
objects, stub CFG nodes."""
import ast
import itertools
import json
import random
import sys

from malt.pyct import anno, cfg
from malt.pyct import qual_names
from malt.pyct.static_analysis import activity, annos, liveness

NAMES = [qual_names.QN(n) for n in 'abc']


def subset(rnd):
  return set(x for x in NAMES if rnd.random() < 0.45)


def mkscope(rnd):
  s = activity.Scope(None)
  s.read, s.modified, s.deleted, s.bound = subset(rnd), subset(rnd), subset(rnd), subset(rnd)
  s.nonlocals = set(x for x in s.bound if rnd.random() < 0.5)
  return s


def one(rnd):
  n = rnd.randint(1, 3)
  asts = [ast.Pass() if rnd.random() < 0.25 else ast.Expr(ast.Constant(0)) for _ in range(n)]
  nodes = [cfg.Node(set(), set(), a) for a in asts]
  for a in range(n):
    for b in range(n):
      if rnd.random() < 0.4:
        nodes[a].next.add(nodes[b])
        nodes[b].prev.add(nodes[a])
  fns = []
  for a in asts:
    if isinstance(a, ast.Pass):
      continue
    anno.setanno(a, anno.Static.SCOPE, mkscope(rnd))
    reach = set()
    for _ in range(rnd.randint(0, 2)):
      f = ast.Lambda(args=None, body=None) if rnd.random() < 0.3 else ast.FunctionDef(name='f', args=None, body=[], decorator_list=[])
      anno.setanno(f, annos.NodeAnno.ARGS_AND_BODY_SCOPE, mkscope(rnd))
      reach.add(f)
    anno.setanno(a, anno.Static.DEFINED_FNS_IN, frozenset(reach))
  g = cfg.Graph(entry=nodes[0], exit=frozenset([nodes[-1]]), error=frozenset(),
                index={nd.ast_node: nd for nd in nodes}, stmt_prev={}, stmt_next={})
  an = liveness.Analyzer(g, True)
  for nd in nodes:
    an.in_[nd], an.out[nd] = subset(rnd), subset(rnd)
  node = nodes[rnd.randrange(n)]
  old_in = {nd: set(an.in_[nd]) for nd in nodes}
  old_out = {nd: set(an.out[nd]) for nd in nodes}
  snap = {}
  for a in asts:
    if anno.hasanno(a, anno.Static.SCOPE):
      sc = anno.getanno(a, anno.Static.SCOPE)
      snap[a] = (set(sc.read), set(sc.modified), set(sc.deleted))
  r = an.visit_node(node)
  # contract
  exp_out = set().union(*[old_in[s] for s in node.next]) if node.next else set()
  a = node.ast_node
  if anno.hasanno(a, anno.Static.SCOPE):
    rd, md, dl = snap[a]
    exp_in = rd | (exp_out - md - dl)
    for f in anno.getanno(a, anno.Static.DEFINED_FNS_IN):
      if isinstance(f, ast.Lambda):
        continue
      fs = anno.getanno(f, annos.NodeAnno.ARGS_AND_BODY_SCOPE)
      exp_in |= (fs.read - (fs.bound - fs.nonlocals))   # names read that are not the function's own locals
  else:
    exp_in = set(exp_out)
  bad = []
  if an.out[node] != exp_out:
    bad.append('out[node] != union of successors live-in')
  if an.in_[node] != exp_in:
    bad.append('in_[node] != gen | (out - kill) | closures')
  if bool(r) != (old_in[node] != exp_in):
    bad.append('return value != (live-in changed)')
  for nd in nodes:
    if nd is not node and (an.in_[nd] != old_in[nd] or an.out[nd] != old_out[nd]):
      bad.append('state of another node modified')
  for a2, (rd, md, dl) in snap.items():
    sc = anno.getanno(a2, anno.Static.SCOPE)
    if (sc.read, sc.modified, sc.deleted) != (rd, md, dl):
      bad.append('a Scope object was mutated')
  if bad:
    def names(s):
      return sorted(str(x) for x in s)
    return dict(violated=bad, nodes=n, edges=sorted((i, j) for i in range(n) for j in range(n) if nodes[j] in nodes[i].next),
                visited=nodes.index(node), live_in_before={i: names(old_in[nodes[i]]) for i in range(n)},
                scope={i: [names(x) for x in snap[asts[i]]] if asts[i] in snap else None for i in range(n)},
                got_in=names(an.in_[node]), expected_in=names(exp_in), got_out=names(an.out[node]),
                expected_out=names(exp_out), returned=bool(r))
  return None


def _budget(a, default):
  if a == 'quick':
    return default
  if a == 'thorough':
    return default * 20
  return int(a)


def main():
  seed = int(sys.argv[1]) if len(sys.argv) > 1 else 0
  budget = _budget(sys.argv[2] if len(sys.argv) > 2 else 'quick', 3000)
  rnd = random.Random(seed)
  failures = []
  for i in range(budget):
    f = one(rnd)
    if f:
      failures.append(f)
      if len(failures) >= 3:
        break
  for f in failures:
    f.setdefault('kind', 'contract'); f.setdefault('sig', ';'.join(f['violated'])[:60]); f.setdefault('what', '; '.join(f['violated']))
  print(json.dumps(dict(evaluated=i + 1, distinct_nontrivial=i + 1, failures=failures,
                        rule='bounded: random graphs of <= 3 stub CFG nodes with random Scope sets over 3 names and '
                             'random reaching local functions; the visit_node postcondition is evaluated on the real '
                             'Analyzer; every case has a non-empty scope or successor set (counted as non-trivial)',
                        samples=['visit_node on a 1-3 node graph with random read/modified/deleted/bound/nonlocals'])))


main()
