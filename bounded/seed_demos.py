"""Regression run of the demonstration scripts of the seeded changes (seeded/<id>-<name>/demo.py, written by the
independent sub-agents): each exits 0 while the property holds for its scenario.  On the unchanged tree all of them
pass; a demo that fails is a concrete, replayable violation (its output is the explanation).

usage: seed_demos.py <property id>   -> one JSON line {run, failing: [{id, what}]}"""
import glob
import json
import os
import subprocess
import sys
import tempfile

ROOT = os.path.dirname(os.path.dirname(os.path.abspath(__file__)))


def main():
  prop = sys.argv[1]
  repo = os.environ.get('VERIF_REPO', '/repo')
  failing, run = [], 0
  for d in sorted(glob.glob(os.path.join(ROOT, 'seeded', prop + '-*'))):
    demo = os.path.join(d, 'demo.py')
    if not os.path.exists(demo):
      continue
    run += 1
    scratch = tempfile.mkdtemp(prefix='verif_demo_')
    env = dict(os.environ, PYTHONPATH=repo, TMPDIR=scratch, PYTHONDONTWRITEBYTECODE='1')
    try:
      p = subprocess.run([sys.executable, demo], cwd=scratch, env=env, capture_output=True, text=True, timeout=300)
      rc, out = p.returncode, (p.stdout + p.stderr)
    except subprocess.TimeoutExpired:
      rc, out = -1, 'timed out after 300 s'
    finally:
      subprocess.run(['rm', '-rf', scratch])
    if rc != 0:
      failing.append(dict(id=os.path.basename(d), what=('exit %s: ' % rc) + out.strip()[-700:]))
  print(json.dumps(dict(run=run, failing=failing)))


main()
