"""Program spaces and conversion helpers shared by the C03 / C04 / C17 bounded stand-ins.

  option sets      optional features none / BUILTIN_FUNCTIONS / EQUALITY_OPERATORS / both  x  recursive True / False
  planted space    (C04) every overloadable construct planted in every syntactic context
  unusual space    (C17) progen programs with unusual-literal statements spliced in
  state space      (C03) progen programs extended with composite state (attributes, subscripts, globals) and
                   loop directives

Every program follows the progen protocol: a module defining f(t, c, a) (see progen.py).
"""
import ast
import os
import random
import re
import shutil
import sys
import tempfile

sys.path.insert(0, os.path.dirname(os.path.abspath(__file__)))
import progen

# ---------------------------------------------------------------------------------------- option sets

OPTION_SETS = ['plain', 'builtins', 'eq', 'both', 'plain_norec', 'builtins_norec', 'eq_norec', 'both_norec']


def option_args(optname):
  from malt.core import converter
  base = optname.replace('_norec', '')
  feats = {'plain': None, 'builtins': converter.Feature.BUILTIN_FUNCTIONS,
           'eq': converter.Feature.EQUALITY_OPERATORS,
           'both': (converter.Feature.BUILTIN_FUNCTIONS, converter.Feature.EQUALITY_OPERATORS)}[base]
  return dict(recursive=not optname.endswith('_norec'), experimental_optional_features=feats)


def uses_builtins(optname):
  return optname.startswith('builtins') or optname.startswith('both')


def uses_eq(optname):
  return optname.startswith('eq') or optname.startswith('both')


def to_graph(fn, optname):
  import malt
  return malt.to_graph(fn, **option_args(optname))


def to_code(fn, optname):
  import malt
  return malt.to_code(fn, **option_args(optname))


def ag_module():
  from malt.impl import api
  return api._TRANSPILER.get_extra_locals()['ag__']


# ---------------------------------------------------------------------------------------- private tmp dir

_PRIVATE_TMP = None


def private_tmp(tag):
  """Everything this process (and its forked workers) writes goes below one directory that finish() removes:
  malt.pyct.loader's generated modules (tempfile.NamedTemporaryFile) and harness.load_source's programs."""
  global _PRIVATE_TMP
  _PRIVATE_TMP = tempfile.mkdtemp(prefix='verif_%s_' % tag)
  tempfile.tempdir = _PRIVATE_TMP
  return _PRIVATE_TMP


def finish():
  global _PRIVATE_TMP
  if _PRIVATE_TMP:
    tempfile.tempdir = None
    shutil.rmtree(_PRIVATE_TMP, ignore_errors=True)
    _PRIVATE_TMP = None


# ---------------------------------------------------------------------------------------- D3 shape

def has_nested_ifexp(src_or_tree):
  """D3 trigger: a conditional expression anywhere below another conditional expression."""
  tree = ast.parse(src_or_tree) if isinstance(src_or_tree, str) else src_or_tree
  for n in ast.walk(tree):
    if isinstance(n, ast.IfExp):
      for m in ast.walk(n):
        if m is not n and isinstance(m, ast.IfExp):
          return True
  return False


# ======================================================================================== C04 planted space

HEADER = progen.HEADER + '''
import malt
from malt.lang import directives
from malt.lang.directives import set_loop_options as slo

GS = 0

import os as _os
NULL = open(_os.devnull, 'w')      # print(..., file=NULL): arguments are evaluated, nothing reaches stdout

class pdb(object):                 # call_trees recognises debugger entry calls by their *name*: a harmless stand-in
  set_trace = staticmethod(lambda *args, **kwargs: None)

ipdb = pdb

def deco(*args):
  def wrap(fn):
    return fn
  return wrap

def ident(fn):
  return fn

class Box2(object):
  pass
'''

# constructs that are expressions.  They read only `y` (always an int) so that planting them anywhere cannot
# raise; ids inside t(..) are irrelevant.
EXPR_CONSTRUCTS = [
    ('call', 'h1(y)'),
    ('call_kw', 'h2(y, k=y)'),
    ('call_star', 'h2(y, *a, k=y)'),
    ('call_dstar', "h2(y, **{'k': y})"),
    ('call_method', 'a.count(y)'),
    ('call_nested', 'h1(h1(y))'),
    ('call_print', "print(end='')"),
    ('and', '(c() and t(7))'),
    ('or', '(c() or t(8))'),
    ('and3', '(c() and y and t(9))'),
    ('mixed_bool', '(c() and y or not t(10))'),
    ('not', '(not c())'),
    # `not` over a single comparison: folding it into the complementary comparator would bypass not_
    ('not_is', '(not (y is None))'),
    ('not_in', '(not (y in a))'),
    ('not_lt', '(not (y < 3))'),
    ('ifexp', '(t(3) if c() else t(4))'),
    ('chain', '(0 <= y < 9)'),
    ('eq', '(y == 1)'),
    ('ne', '(y != 1)'),
    ('lambda', '(lambda q: q and c())(y)'),
    ('comp', '[q for q in range(2) if q or c()]'),
]
IFEXP_CONSTRUCTS = ('ifexp',)
CALLFREE_CONSTRUCTS = ('chain', 'eq', 'ne', 'not_is', 'not_in', 'not_lt')

# LIMITS (defects of the pinned tree outside C04, found while building this space; kept out of it):
#  * `w: int = e` on a variable that becomes conditional / loop state: the generated `nonlocal w` makes the module
#    a SyntaxError ("annotated name 'w' can't be nonlocal") that escapes to_graph  -> annassign uses a fresh name;
#  * a call in the return annotation of a nested def is converted with the *nested* function's scope variable
#    (`def g(p) -> ag__.converted_call(h, (y,), None, fscope_1)`): NameError when the def executes
#    -> the def_returns context only receives call-free constructs;
#  * `try: .. except: .. else: if ..` : cfg.visit_Try uses orelse[0] as a section key that visit_If reuses
#    (AssertionError -> ConversionError)  -> the try/else context starts with an assignment;
#  * a lambda inside a decorator expression of a nested def has no CFG (cfg._process_function_def does not visit
#    decorators): reaching_fndefs raises KeyError -> ConversionError  -> decorator contexts receive no lambda construct.

# expression contexts: statement snippets with one hole {E}; {N} is a per-planting unique number.
# `exempt_calls`: contexts in which a native call is documented to survive.
EXPR_CONTEXTS = [
    ('assign', ['w = {E}']),
    ('annassign', ['u_{N}: int = {E}']),      # a fresh name: see LIMITS below
    ('augassign', ['v += [{E}]']),
    ('walrus', ['w = (u_{N} := {E})']),
    ('expr_stmt', ['{E}']),
    ('call_arg', ['t({E})']),
    ('call_kwarg', ['w = h2(1, k={E})']),
    ('call_stararg', ['w = h2(*[{E}])']),
    ('call_dstararg', ["w = h2(1, **{{'k': {E}}})"]),
    ('call_func', ['w = [h1, {E}][0](1)']),
    ('subscript_index', ['w = (0, 1)[({E}) is None]']),
    ('subscript_tuple', ['w = {{(0, False): 1}}.get((0, ({E}) is None))']),
    ('slice_bound', ['w = a[:({E}) is None]']),
    ('attr_base', ['w = ({E}).__class__']),
    ('binop', ['w = [{E}] + [1]']),
    ('unaryop', ['w = -(({E}) is None)']),
    ('compare_left', ['w = ({E}) is None']),
    ('compare_chain_left', ['w = (({E}) is None) <= 1 < 2']),
    ('tuple_elt', ['w = ({E}, 1)']),
    ('list_elt', ['w = [1, {E}]']),
    ('dict_value', ['w = {{1: {E}}}']),
    ('dict_key', ['w = {{({E}) is None: 1}}']),
    ('set_elt', ['w = {{({E}) is None}}']),
    ('starred', ['w = [*[{E}]]']),
    ('fstring', ["w = f'{{{E}}}'"]),
    ('fstring_spec', ["w = f'{{1:{{(({E}) is None) + 2}}}}'"]),
    ('if_test', ['if {E}:', '  w = 1']),
    ('elif_test', ['if c():', '  w = 1', 'elif {E}:', '  w = 2']),
    ('while_test', ['while {E}:', '  w = 2', '  break']),
    ('for_iter', ['for i_{N} in [{E}]:', '  w = i_{N}']),
    ('return_value', ['if c():', '  return {E}']),
    ('raise_arg', ['try:', '  raise ValueError({E})', 'except ValueError:', '  w = 3']),
    ('assert_test', ["assert ({E}) is not a, 'm'"]),
    ('assert_msg', ['assert a is not None, {E}']),
    ('del_index', ['del v[5 + (({E}) is None):]']),
    ('with_item', ['with CM(t, ({E}) is None):', '  w = 4'], 'exempt_calls', 'exempt_args'),
    ('with_item_2', ['with CM(t, 1), CM(t, ({E}) is None) as q_{N}:', '  w = 4'], 'exempt_calls', 'exempt_args'),
    ('with_item_kw', ['with CM(t, k=({E}) is None):', '  w = 4'], 'exempt_calls', 'exempt_args'),
    ('with_item_elt', ['with [CM(t, 1), {E}][0]:', '  w = 4'], 'exempt_calls', 'exempt_args'),
    ('with_item_target', ['with CM(t, 1) as v[(({E}) is None) + 0]:', '  w = 4'], 'exempt_calls', 'exempt_args'),
    # arguments of the exempted call shapes: the exemption covers the call itself, never what its arguments contain
    ('print_arg', ['print({E}, file=NULL)'], 'exempt_args'),
    ('print_arg_2', ['print(1, {E}, 2, file=NULL)'], 'exempt_args'),
    ('print_stararg', ['print(*[{E}], file=NULL)'], 'exempt_args'),
    ('print_kw_end', ["print(1, end=['', {E}][0], file=NULL)"], 'exempt_args'),
    ('print_kw_file', ['print(1, file=[NULL, {E}][0])'], 'exempt_args'),
    ('print_dstararg', ["print(1, **{{'file': [NULL, {E}][0]}})"], 'exempt_args'),
    ('print_in_lambda', ['w = (lambda q: print({E}, file=NULL))(1)'], 'exempt_args'),
    ('print_in_comp', ['w = [print({E}, file=NULL) for q_ in range(2)]'], 'exempt_args'),
    ('print_in_print', ['print(print({E}, file=NULL), file=NULL)'], 'exempt_args'),
    ('pdb_arg', ['pdb.set_trace({E})'], 'exempt_args'),
    ('pdb_kw', ['pdb.set_trace(header={E})'], 'exempt_args'),
    ('ipdb_arg', ['w = ipdb.set_trace(1, {E})'], 'exempt_args'),
    ('breakpoint_arg', ['breakpoint({E})'], 'exempt_args'),          # PYTHONBREAKPOINT=0: returns at once
    ('breakpoint_kw', ['w = breakpoint(1, k={E})'], 'exempt_args'),
    ('with_body', ['with CM(t, 1):', '  w = {E}']),
    ('lambda_body', ['w = (lambda q: {E})(1)']),
    ('lambda_default', ['w = (lambda q={E}: q)()']),
    ('lambda_kwdefault', ['w = (lambda *, q={E}: q)()']),
    ('lambda_in_lambda', ['w = (lambda q: (lambda r: {E}))(1)(2)']),
    ('listcomp_elt', ['w = [{E} for q_ in range(2)]']),
    ('dictcomp_value', ['w = {{q_: {E} for q_ in range(2)}}']),
    ('dictcomp_key', ['w = {{({E}) is None: q_ for q_ in range(2)}}']),
    ('setcomp_elt', ['w = {{({E}) is None for q_ in range(2)}}']),
    ('genexp_elt', ['w = list({E} for q_ in range(2))']),
    ('comp_iter', ['w = [q_ for q_ in [{E}]]']),
    ('comp_iter_inner', ['w = [1 for q_ in range(2) for r_ in [{E}]]']),
    ('comp_if', ['w = [q_ for q_ in range(2) if {E}]']),
    ('and_left', ['w = ({E} and 1)']),
    ('and_right', ['w = (c() and {E})']),
    ('or_left', ['w = ({E} or 1)']),
    ('or_right', ['w = (c() or {E})']),
    ('not_operand', ['w = not {E}']),
    ('ifexp_test', ['w = (1 if {E} else 2)'], 'ifexp'),
    ('ifexp_body', ['w = ({E} if c() else 2)'], 'ifexp'),
    ('ifexp_orelse', ['w = (1 if c() else {E})'], 'ifexp'),
    ('eq_operand', ['w = [{E}] == [1]']),
    ('decorator_arg', ['@deco({E})', 'def g_{N}(p):', '  return p', 'w = g_{N}(1)'], 'nolambda'),
    ('decorator_expr', ['@[ident, {E}][0]', 'def g_{N}(p):', '  return p', 'w = g_{N}(1)'], 'nolambda'),
    ('def_default', ['def g_{N}(p, q={E}):', '  return q', 'w = g_{N}(1)']),
    ('def_kwdefault', ['def g_{N}(p, *, q={E}):', '  return q', 'w = g_{N}(1)']),
    ('def_annotation', ['def g_{N}(p: {E}):', '  return p', 'w = g_{N}(1)'], 'exempt_calls'),
    ('def_returns', ['def g_{N}(p) -> {E}:', '  return p', 'w = g_{N}(1)'], 'callfree'),
    ('def_body', ['def g_{N}(p):', '  r = {E}', '  return r', 'w = g_{N}(1)']),
    ('def_return_value', ['def g_{N}(p):', '  return {E}', 'w = g_{N}(1)']),
    ('def_in_def', ['def g_{N}(p):', '  def k_{N}(q):', '    return {E}', '  return k_{N}(p)', 'w = g_{N}(1)']),
]

# constructs that are statements
STMT_CONSTRUCTS = [
    ('if', ['if c():', '  w = t(1)'], ''),
    ('ifelse', ['if c():', '  w = t(1)', 'else:', '  w = t(2)'], ''),
    ('elif', ['if c():', '  w = t(1)', 'elif c():', '  w = t(2)', 'else:', '  w = 3'], ''),
    ('while', ['fuel_{N} = 0', 'while fuel_{N} < 2 and c():', '  fuel_{N} += 1', '  w = t(2)'], ''),
    ('for', ['for i_{N} in range(2):', '  w = t(3)'], ''),
    ('for_unpack', ['for i_{N}, j_{N} in [(1, 2), (3, 4)]:', '  w = t(i_{N})'], ''),
    ('break', ['if c():', '  break', 'w = t(4)'], 'loop'),
    ('break_bare', ['w = t(4)', 'break'], 'loop'),
    ('continue', ['if c():', '  continue', 'w = t(5)'], 'loop'),
    ('continue_bare', ['w = t(5)', 'continue'], 'loop'),
    ('return', ['if c():', '  return t(6)', 'w = t(7)'], ''),
    ('return_bare', ['w = t(7)', 'return w'], ''),
    ('return_none', ['if c():', '  return', 'w = t(7)'], ''),
]

# statement contexts: (name, prefix lines, suffix lines, flags); the block goes (indented) between the two
STMT_CONTEXTS = [
    ('top', None, None, ''),
    ('if_body', ['if c():'], [], ''),
    ('else_body', ['if c():', '  w = 2', 'else:'], [], ''),
    ('elif_body', ['if c():', '  w = 2', 'elif c():'], [], ''),
    ('for_body', ['for i_{N} in range(2):'], [], 'loop'),
    ('while_body', ['fuel_{N} = 0', 'while fuel_{N} < 2:', '  fuel_{N} += 1'], [], 'loop'),
    ('try_body', ['try:'], ['except ValueError:', '  w = 3'], ''),
    ('try_finally_body', ['try:'], ['finally:', '  w = 3'], ''),
    ('except_body', ['try:', '  raise ValueError(1)', 'except ValueError:'], [], ''),
    ('tryelse_body', ['try:', '  w = 4', 'except ValueError:', '  w = 5', 'else:', '  w = 7'], [], ''),
    ('finally_body', ['try:', '  w = 6', 'finally:'], [], ''),
    ('with_body', ['with CM(t, 1):'], [], ''),
    ('with_as_body', ['with CM(t, 1) as q_{N}:'], [], ''),
    ('def_body', ['def g_{N}(p):', '  w = 0'], ['  return p', 'w = g_{N}(1)'], 'def'),
]


def _indent(lines, n=1):
  return ['  ' * n + l for l in lines]


class Counter(object):
  def __init__(self):
    self.n = 100

  def next(self):
    self.n += 1
    return self.n


def wrap_stmt_context(ctx, block, counter):
  name, pre, suf, _ = ctx
  if pre is None:
    return list(block)
  n = counter.next()
  return [l.replace('{N}', str(n)) for l in pre] + _indent(block) + [l.replace('{N}', str(n)) for l in suf]


def plant_expr(construct, ectx, counter):
  n = counter.next()
  return [l.replace('{N}', str(n)).replace('{{', '\x00').replace('}}', '\x01').replace('{E}', construct[1])
          .replace('\x00', '{').replace('\x01', '}') for l in ectx[1]]


def plant_stmt(construct, counter):
  n = counter.next()
  return [l.replace('{N}', str(n)) for l in construct[1]]


def chain_ok(construct_flags, ctx_chain):
  """break / continue need an enclosing loop with no def in between (ctx_chain is outermost first)."""
  if 'loop' not in construct_flags:
    return True
  for ctx in reversed(ctx_chain):
    if 'def' in ctx[3]:
      return False
    if 'loop' in ctx[3]:
      return True
  return False


def program_of(blocks):
  """blocks: list of lists of lines (already wrapped in their statement contexts)."""
  body = ['x = a[0]', 'y = 1', 'z = 0', 'w = 0', 'v = [0]']
  for b in blocks:
    body += b
  body.append('return (x, y, z, w is None)')
  return HEADER + '\ndef f(t, c, a):\n' + '\n'.join(_indent(body)) + '\n'


def planted_cases(seed, tier, include_d3=False):
  """Yields (label, flags, [block, ...]) cases; each block is one planting (list of lines).
  include_d3: False = without the IfExp-inside-IfExp plantings, True = only those, 'all' = everything.
  flags contains 'exempt_args' for plantings inside the arguments of an exempted call shape (print, debugger entry
  calls, with-items): the callers run those first and under option sets with and without BUILTIN_FUNCTIONS.

  quick:    every (expression construct x expression context) pair, statement context rotating;
            every (statement construct x statement context) pair and every context pair around one rotating construct.
  thorough: expression pairs under every statement context; statement constructs under every context pair."""
  rnd = random.Random(seed)
  counter = Counter()
  thorough = tier == 'thorough'
  sctxs = STMT_CONTEXTS
  k = rnd.randrange(len(sctxs))
  for ec in EXPR_CONSTRUCTS:
    for ex in EXPR_CONTEXTS:
      flags = set(ex[2:])
      d3 = ec[0] in IFEXP_CONSTRUCTS and 'ifexp' in flags
      if include_d3 != 'all' and d3 != include_d3:
        continue
      if ec[0] == 'call_print' and ex[0] == 'call_func':
        continue      # print(end='') returns None: not callable
      if 'callfree' in flags and ec[0] not in CALLFREE_CONSTRUCTS:
        continue
      if 'nolambda' in flags and ec[0] == 'lambda':
        continue
      outer = sctxs if thorough else [sctxs[k % len(sctxs)], sctxs[0]][:1 + (k % 3 == 0)]
      if 'exempt_args' in flags and not thorough:
        # always once inside a loop body and once in a rotating other context
        loops = [c for c in sctxs if 'loop' in c[3]]
        other = [c for c in sctxs if 'loop' not in c[3]]
        outer = [loops[k % len(loops)], other[k % len(other)]]
      k += 1
      for sc in outer:
        block = wrap_stmt_context(sc, plant_expr(ec, ex, counter), counter)
        yield ('%s@%s@%s' % (ec[0], ex[0], sc[0]), flags, block)
  if include_d3 is True:
    return
  for st in STMT_CONSTRUCTS:
    for c1 in sctxs:
      if chain_ok(st[2], [c1]):
        block = wrap_stmt_context(c1, plant_stmt(st, counter), counter)
        yield ('%s@%s' % (st[0], c1[0]), set(), block)
      for c2 in sctxs[1:]:
        if c1[0] == 'top' or not chain_ok(st[2], [c2, c1]):
          continue
        if not thorough:
          k += 1
          if k % 4:
            continue
        block = wrap_stmt_context(c2, wrap_stmt_context(c1, plant_stmt(st, counter), counter), counter)
        yield ('%s@%s@%s' % (st[0], c1[0], c2[0]), set(), block)


D3_WITNESS = HEADER + '''
def f(t, c, a):
  y = 1
  w = ((t(1) if c() else t(2)) if c() else t(3))
  return w
'''


# ======================================================================================== C17 unusual literals

UNUSUAL = [
    # negative numbers / numeric literals
    ['x = -1'], ['x = a[-1]'], ['x = -y ** -2'], ['x = 1 - -1'], ['x = (-1).bit_length()'], ['x = -1j'],
    ['x = 1e-3 + -0.0'], ['x = ~-1'], ['x = +-+1'], ['x = 0xff + 1_000 + 0o17 + 0b11'],
    ['x = 123456789012345678901234567890'], ['x = 1e400'], ['x = -(-1)'], ['x = - 1 if y else -2'],
    ['x = (-1, -2.5, -3j)'], ['x = y - (-1) * -z'], ['x = not -1'], ['x = 2 ** -1'], ['x = -x'],
    # strings / f-strings
    ["x = f'{y!r:>{z}}'"], ["x = f\"{f'{y}'}\""], ["x = f'{{}}{y}'"], ["x = f'{y=}'"],
    ["x = f\"{'a' if y else 'b'}\""], ["x = f'{(lambda: 1)()}'"], ["x = f\"{y:{'>'}{z}}\""],
    ["x = f'{y}' 'lit' f'{z}'"], ["x = rb'\\d' + b'\\x00'"], ["x = r'\\n' + '\\n' + '\\\\'"],
    ["x = '''a'b\"c'''"], ["x = 'it''s' \"q\\\"\""], ["x = '\\u00e9\\U0001f600 \\t'"],
    ["x = f'{y:{z}.{z}}' + f'{y!s}' + f'{y!a}'"], ["x = f'{ {1: 2}[1] }'"], ["x = f'{y:>10}{z:<{y}}'"],
    ["x = f\"{f'{f\"{y}\"}'}\""], ["x = u'u'"], ["x = ''"], ["x = f''"], ["x = f'{y}' if y else f'{z!r}'"],
    ['x = """line1', 'line2"""'],
    # tuples in subscripts / slices
    ['x = {(1, 2): 3}[1, 2]'], ['x = {(1, 2): 3}[(1, 2)]'], ['x = {(): 1}[()]'], ['x = {(1,): 1}[1,]'],
    ['x = a[1:2]'], ['x = a[::2]'], ['x = a[::-1]'], ['x = a[:-1]'], ['x = Box2()', 'x.v = {}', 'x.v[1, 2] = 3', 'del x.v[1, 2]'],
    ['x = {(1, 2): 3}', 'x[1, 2] += 1'], ['x = a[...] if 0 else Ellipsis'], ['x = {(0, slice(None)): 1}.get((0, a[0:1] and 0))'],
    ['x = [a][0][1:][0:1]'], ['x = {(1, 2): 3}[*(1, 2),]'],
    # starred
    ['x, *y = a'], ['x = [*a, *a]'], ["x = {**{'k': 1}, 'j': 2}"], ['x = h2(*a, *a)'], ["x = h2(*a, **{'k': 1})"],
    ['for i_90, *j_90 in [(1, 2, 3)]:', '  x = j_90'], ['x = *a, 1'], ['*x, y = a'], ['[x, *y] = a'],
    ['x = {*a, 1}'], ['x = h2(1, *a, k=2, **{})'], ['(x, (y, *z)) = (1, (2, 3))'],
    # walrus
    ['if (n_ := len(a)) > 1:', '  x = n_'], ['x = [n_ := 1, n_ ** 2]'], ['x = (n_ := 5) + n_'],
    ['x = [(m_ := q) for q in range(2)]'], ['x = a[(n_ := 0)]'],
    # chained comparisons without calls
    ['x = y < z < 3'], ['x = 0 < y <= z != 4'], ['x = y is not None is not z'], ['x = y in a not in [a]'],
    ['x = 0 < y == z'], ['if 0 <= y < z < 10 > x:', '  x = 1'], ['x = (y < z) < 3'], ['x = y < (z < 3)'],
    ['x = not y < z < 3'], ['x = 1 if 0 < y < 2 else 2'],
    # lambdas in default arguments / odd signatures
    ['def g_90(p, q=lambda: 1, *, r=lambda s=(lambda: 2): s):', '  return q() + r()()', 'x = g_90(1)'],
    ['x = (lambda p=1, *q, r=2, **s: (p, q, r, s))()'], ['def g_91(p, /, q, *, r=3):', '  return p + q + r', 'x = g_91(1, 2)'],
    ['x = (lambda p, /, q=(lambda: -1)(): p + q)(1)'], ['def g_92(*p, **q):', '  return (p, q)', 'x = g_92(1, k=2)'],
    ['x = (lambda: (lambda: (lambda: -1)))()()()'], ['def g_93(p=-1, q=(1, -2), r=f"{1}"):', '  return p', 'x = g_93()'],
    ['def g_94(p: int = -1, *q: int, r: "str" = "s", **s: int) -> int:', '  return p', 'x = g_94()'],
    ['@deco(-1, k=(-2, 1e-3))', 'def g_95(p):', '  """doc -1"""', '  return p', 'x = g_95(1)'],
    # assorted shapes
    ['x = ...'], ['x = None'], ['x = y = z'], ['x_ann2: int = 1'], ['x_ann: int'], ['a[0] += 1'], ['x = Box()', 'x.v += -1'],
    ['x = y @ z if 0 else 0'], ['x = y // z if z else y % 3'], ['x = (y, z)[y < z]'], ['x = y if c() else z'],
    ['x = {q: -q for q in range(2)}'], ['x = {-q for q in range(2)}'], ['x = list(-q for q in range(2) if q if -q)'],
    ['x = [(p, q) for p in range(2) for q in range(p)]'], ['assert y is not None, f"m{y}"'],
    ['try:', '  raise ValueError(-1) from None', 'except (ValueError, TypeError):', '  pass'],
    ['with CM(t, -1) as (p_), CM(t, 2):', '  x = p_'], ['x = y << 1 >> 1 | 1 & 3 ^ 2'], ['x = (yield_ := 1)'],
    ['pass'], ['x = [[], (), {}, set()]'], ['x = a.__len__()'], ['x = (a)[(0)]'], ['x = [1, 2][y == 1]'],
    ['x = y if y else z if z else 0'], ['x = (y and z) or (not y)'],
    ['x = True + False - None.__class__.__name__.__len__()'], ['del x', 'x = 1'], ['x = y; z = x'],
    ['global GS', 'GS = -1'], ['import os as _os, sys as _sys'], ['from os import path as _p'],
    ['x = b"" or None or ...'], ['x = 1_0.0_1e-0_1'],
]

# Store positions: every place the grammar allows a target, with starred elements, nested tuple / list unpacking,
# attribute and subscript targets; loops carry break / continue and state variables so that control-flow conversion
# (for_stmt's `iterates = itr` expansion, if_stmt / while_stmt state) has to rebuild the targets.
STORE_SHAPES = [
    # for-loop targets
    ['for hd_, *tl_ in [(1, 2, 3), (4, 5)]:', '  if c():', '    break', '  x = x + hd_ + len(tl_)'],
    ['for (p_, *q_, r_), tag_ in [((1, 2, 3), 4)]:', '  if c():', '    continue', '  y = y + p_ + r_ + tag_'],
    ['for [p_, *q_] in [[1, 2]]:', '  z = z + p_'],
    ['for *q_, r_ in [(1, 2)]:', '  if c():', '    break', '  z = z + r_'],
    ['for *q_, in [(1, 2)]:', '  z = z + len(q_)'],
    ['for p_, (q_, (r_, *s_)) in [(1, (2, (3, 4)))]:', '  if r_:', '    continue', '  x = p_'],
    ['bx_ = Box2()', 'for bx_.v in range(2):', '  if c():', '    break', '  x = x + bx_.v'],
    ['for a[0] in range(2):', '  if c():', '    continue', '  x = x + a[0]'],
    ['bx_ = Box2()', 'for bx_.v, *a[0:1] in [(1, 2)]:', '  y = y + bx_.v'],
    ['bx_ = Box2()', 'for (bx_.v, a[0]), *q_ in [((1, 2), 3)]:', '  if c():', '    break', '  y = y + len(q_)'],
    ['bx_ = Box2()', 'bx_.n = Box2()', 'for bx_.n.v, a[-1] in [(1, 2)]:', '  z = bx_.n.v'],
    ['for i_95, *j_95 in [(1, 2)]:', '  for k_95, *j_95 in [(3, 4)]:', '    if c():', '      break', '    x = x + k_95', '  y = y + i_95'],
    ['def g_96(rows):', '  for hd_, *tl_ in rows:', '    if hd_:', '      return tl_', '  return None', 'x = g_96([(1, 2)])'],
    ['fuel_92 = 0', 'while fuel_92 < 2:', '  fuel_92 += 1', '  x, *y_s = a', '  if c():', '    break', '  z = z + x'],
    ['fuel_93 = 0', 'while fuel_93 < 2:', '  fuel_93 += 1', '  (p_, *q_), r_ = (1, 2), 3', '  if c():', '    continue', '  z = z + p_ + r_'],
    # assignment targets
    ['p_, (q_, *r_), s_ = 1, (2, 3), 4'], ['[p_, *q_] = a'], ['*p_, = a'], ['bx_ = Box2()', 'p_, *bx_.v = a'],
    ['a[0], *a[1:] = a'], ['p_ = q_, *r_ = a'], ['bx_ = Box2()', 'bx_.v = bx_.w = a[0] = 1'],
    ['bx_ = Box2()', '(bx_.v, [a[0], *q_]) = (1, [2, 3])'], ['if c():', '  p_, *q_ = a', 'else:', '  p_, q_ = 1, []', 'x = p_'],
    ['bx_ = Box2()', 'bx_.v = 0', 'bx_.v += 1', 'a[0] += bx_.v', 'a[0:1] += [1]'], ['bx_ = Box2()', 'bx_.v: int = 1', 'a[0]: int = 2'],
    # with-as targets
    ['with CM(t, (1, 2)) as (p_, *q_):', '  x = p_'], ['bx_ = Box2()', 'with CM(t, 1) as bx_.v:', '  x = bx_.v'],
    ['with CM(t, [1, 2]) as [p_, *q_], CM(t, 2) as a[0]:', '  if c():', '    x = p_'],
    ['with CM(t, ((1, 2), 3)) as ((p_, *q_), r_):', '  x = r_'],
    # comprehension targets
    ['x = [p_ for p_, *q_ in [(1, 2)]]'], ['x = {p_: q_ for (p_, *q_), r_ in [((1, 2), 3)]}'],
    ['bx_ = Box2()', 'x = [1 for bx_.v in range(2)]'], ['x = [1 for a[0] in range(1)]'],
    ['x = list(r_ for *q_, r_ in [(1, 2)] if r_)'], ['x = {r_ for [*q_, r_] in [[1, 2]] for s_, *u_ in [(r_, 1)]}'],
    # delete targets
    ['bx_ = Box2()', 'bx_.v = 1', 'del bx_.v'], ['del a[0:0]'], ['p_ = q_ = 1', 'del (p_, [q_])'], ['p_ = 1', 'del p_, a[5:]'],
]

# Known findings of the pinned tree that make the *transformed tree* violate a C17 clause; each is routed through its
# witness (stable kind:sig) and its trigger is kept out of the default space while the witness fails.
#   (kind, sig, statement lines)
KNOWN_TREE_FINDINGS = [
    ('known-walrus-arg', 'namedexpr-target-wrapped-in-ld', ['x = h1(n_ := 3)']),
    ('known-annassign-nonlocal', 'annotated-state-variable-declared-nonlocal', ['if c():', '  x: int = 1']),
    # the walrus target of a `while` test is bound inside the generated loop_test function, so the enclosing function
    # has no binding for it; a later block that carries it as state declares it nonlocal -> SyntaxError
    ('known-walrus-while-test', 'walrus-target-bound-in-generated-loop-test',
     ['fuel_90 = 0', 'while (n_ := fuel_90) < 2:', '  fuel_90 += 1', 'if c():', '  n_ = 7', 'x = n_']),
]

_CLAUSE = re.compile(r'\s*(else|elif|except|finally)\b')


def splice_unusual(src, rnd, count, pool=None):
  """Insert `count` unusual statements into the body of f at random positions (same indentation as the
  following line); insertions that make the module uncompilable are dropped."""
  lines = src.split('\n')
  start = next(i for i, l in enumerate(lines) if l.startswith('def f('))
  used = []
  for _ in range(count * 3):
    if len(used) >= count:
      break
    cands = [i for i in range(start + 1, len(lines)) if lines[i].strip() and not _CLAUSE.match(lines[i])]
    i = rnd.choice(cands)
    ind = lines[i][:len(lines[i]) - len(lines[i].lstrip())]
    snip = rnd.choice(pool or UNUSUAL)
    new = lines[:i] + [ind + l for l in snip] + lines[i:]
    try:
      compile('\n'.join(new), '<splice>', 'exec')
    except SyntaxError:
      continue
    lines = new
    used.append(snip[0])
  return '\n'.join(lines), used


def unusual_only_program(snips):
  body = ['x = a[0]', 'y = 1', 'z = 2']
  for s in snips:
    body += s
  body.append('return (x, y, z)')
  return HEADER + '\ndef f(t, c, a):\n' + '\n'.join(_indent(body)) + '\n'


# ======================================================================================== C03 state space

DIRECTIVE_CALLS = ['malt.experimental.set_loop_options', 'directives.set_loop_options', 'slo',
                   'malt.lang.directives.set_loop_options']
DIRECTIVE_ARGS = ['parallel_iterations', 'swap_memory', 'maximum_iterations', 'shape_invariants']


class StateGen(progen.Gen):
  """progen.Gen plus composite state variables (attributes that may be missing, dict / list items, a global)
  so that symbol_names contains composite names, resolvable or not."""

  def leaf(self, vars_, ind):
    r = self.rnd.random()
    if r < 0.08:
      return ['%sb.v = %s' % (ind, self.expr(vars_))], []
    if r < 0.14:
      return ['%sb.w = %s' % (ind, self.atom(vars_))], []       # b.w does not exist initially
    if r < 0.20:
      return ["%sd['k'] = %s" % (ind, self.expr(vars_))], []     # d['k'] does not exist initially
    if r < 0.24:
      return ['%sb.v += %s' % (ind, self.atom(vars_))], []
    if r < 0.28 and getattr(self, 'use_global', False):
      return ['%sGS = %s' % (ind, self.atom(vars_))], []      # see GLOBAL_STATE_WITNESS: off by default
    if r < 0.31:
      return ['%sb.n.v = %s' % (ind, self.atom(vars_))], []
    if r < 0.34:
      return ["%sd['j'] = d.get('j', 0) + 1" % ind], []
    return progen.Gen.leaf(self, vars_, ind)

  def program(self, size):
    self.fuel = self.ev = self.fn = self.loopvar = 0
    budget = [size]
    init = ['  global GS', '  x = a[0]', '  y = 1', '  z = 0', '  b = Box()', '  b.n = Box()', '  d = {}']
    body, vars_ = self.block(list(progen.VARS), '  ', 0, False, budget)
    while budget[0] > 0:
      more, vars_ = self.block(vars_, '  ', 0, False, budget)
      body += more
      if len(body) > 60:
        break
    tail = "  return (x, y, z, b.v, getattr(b, 'w', None), sorted(d.items()), GS)"
    return HEADER + '\ndef f(t, c, a):\n  print_ = t\n' + '\n'.join(init + body) + '\n' + tail + '\n'


# A `global` variable assigned inside a statement that the converter turns into a body function is only declared
# `global` there when it is part of the statement's state, i.e. when it is live; otherwise the assignment binds a local
# of the body function: the write to the global is lost (C01/C02), and a nested get_state reads that local while the
# set_state next to it (which does declare `global`) writes the module variable (C03).  Found by c03_opcontract.
GLOBAL_STATE_WITNESS = HEADER + '''
def f(t, c, a):
  global GS
  if c():
    return 1
  GS = 3
  for i_1 in range(2):
    GS = GS + 1
  return GS
'''

_LOOP_HEAD = re.compile(r'^(\s*)(for|while)\b.*:\s*$')


def add_directives(src, rnd, prob=0.6):
  """Insert a set_loop_options directive as the first statement of some loops of f.  Values are constants that
  encode the loop's ordinal, so that the expectation can be recomputed from the source alone."""
  lines = src.split('\n')
  start = next(i for i, l in enumerate(lines) if l.startswith('def f('))
  out = lines[:start + 1]
  n = 0
  for l in lines[start + 1:]:
    out.append(l)
    m = _LOOP_HEAD.match(l)
    if m and rnd.random() < prob:
      n += 1
      names = rnd.sample(DIRECTIVE_ARGS, rnd.randint(1, 3))
      vals = {'parallel_iterations': str(10 * n + 1), 'swap_memory': rnd.choice(['True', 'False']),
              'maximum_iterations': str(100 + n), 'shape_invariants': '[(%d, (None, %d))]' % (n, n)}
      call = rnd.choice(DIRECTIVE_CALLS)
      if rnd.random() < 0.25:
        first = names[0]
        pos = {'parallel_iterations': 0, 'swap_memory': 1, 'maximum_iterations': 2, 'shape_invariants': 3}
        # positional form: every parameter up to the chosen one must be given
        upto = max(pos[k] for k in names)
        args = ', '.join(vals[k] for k in DIRECTIVE_ARGS[:upto + 1])
      else:
        args = ', '.join('%s=%s' % (k, vals[k]) for k in names)
      out.append('%s  %s(%s)' % (m.group(1), call, args))
  return '\n'.join(out)


def state_program(seed, size, with_directives=True, avoid=('D1', 'D2', 'D6'), with_globals=False):
  rnd = random.Random(seed)
  gen = StateGen(rnd, avoid, 3, None)
  gen.use_global = with_globals
  src = gen.program(size)
  if with_directives:
    src = add_directives(src, rnd)
  return src


def expected_loop_options(src):
  """{loop key: {directive: value}} recomputed from the source of f.  A `for` loop's key is its unparsed
  target (unique in generated programs); a `while` loop's key is its fuel counter."""
  tree = ast.parse(src)
  f = next(n for n in tree.body if isinstance(n, ast.FunctionDef) and n.name == 'f')
  params = DIRECTIVE_ARGS
  out = {}
  for n in ast.walk(f):
    if not isinstance(n, (ast.For, ast.While)):
      continue
    if isinstance(n, ast.For):
      key = 'for:' + ast.unparse(n.target)
    else:
      m = re.search(r'fuel_\d+', ast.unparse(n.test))
      key = 'while:' + (m.group(0) if m else '?')
    opts = {}
    first = n.body[0]
    if (isinstance(first, ast.Expr) and isinstance(first.value, ast.Call)
        and ast.unparse(first.value.func) in DIRECTIVE_CALLS):
      call = first.value
      for i, a in enumerate(call.args):
        opts[params[i]] = ast.literal_eval(a)
      for kw in call.keywords:
        opts[kw.arg] = ast.literal_eval(kw.value)
    out[key] = opts
  return out
