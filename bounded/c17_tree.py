"""C17 bounded stand-in: generated code is a well-formed tree that loads as what to_code shows.

The tree returned by PyToPy.transform_ast is captured by wrapping the method on the transpiler singleton.  Per program x
option set, for every successful conversion:
  tree      no ast.AST object occurs twice (expr_context / operator tokens exempt: CPython's parser shares them);
  ctx       every expression context matches its syntactic position;
  compile   the tree compiles (as an AST and as unparsed text);
  reparse   dump(parse(unparse(t))) == dump(t), annotation fields (___pyct_anno*) stripped, with ast.unparse and with
            malt's parser.unparse (the one the loader uses);
  loaded    the function definition found in the file of the module actually loaded for to_graph(f) has the same dump
            as the captured tree, dedent(inspect.getsource(to_graph(f))) == to_code(f), and that text occurs in the file.

usage: c17_tree.py <seed> <tier> [--random N] [--k K] [--options a,b,...] [--budget S]
"""
import argparse
import ast
import hashlib
import inspect
import os
import random
import sys
import textwrap
import time
import traceback

sys.path.insert(0, os.path.dirname(os.path.abspath(__file__)))
import harness
import opspace
import progen

import malt
from malt.impl import api
from malt.pyct import parser as malt_parser

SHARED_OK = (ast.expr_context, ast.operator, ast.boolop, ast.unaryop, ast.cmpop)


# ---------------------------------------------------------------------------------------- oracles

def clean_dump(node):
  """ast.dump restricted to the grammar's own fields (malt appends '___pyct_anno*' to node._fields)."""
  if isinstance(node, ast.AST):
    parts = []
    for f in node._fields:
      if f.startswith('___'):
        continue
      if not hasattr(node, f):
        parts.append('%s=<missing>' % f)
        continue
      parts.append('%s=%s' % (f, clean_dump(getattr(node, f))))
    return '%s(%s)' % (type(node).__name__, ', '.join(parts))
  if isinstance(node, (list, tuple)):
    return '[%s]' % ', '.join(clean_dump(x) for x in node)
  return repr(node)


def strip_copy(node):
  """Copy of the tree with the grammar's fields only (annotations dropped; they reference analysis objects), and
  locations filled in: ast.unparse and compile need lineno on statements, which generated nodes do not carry."""
  if isinstance(node, ast.AST):
    kw = {}
    for f in node._fields:
      if not f.startswith('___') and hasattr(node, f):
        kw[f] = strip_copy(getattr(node, f))
    new = type(node)(**kw)
    for a in ('lineno', 'col_offset', 'end_lineno', 'end_col_offset'):
      if a in getattr(node, '_attributes', ()) and getattr(node, a, None) is not None:
        setattr(new, a, getattr(node, a))
    return new
  if isinstance(node, list):
    return [strip_copy(x) for x in node]
  if isinstance(node, tuple):
    return tuple(strip_copy(x) for x in node)
  return node


def grammar_children(node):
  for f in node._fields:
    if f.startswith('___'):
      continue
    v = getattr(node, f, None)
    if isinstance(v, ast.AST):
      yield f, v
    elif isinstance(v, (list, tuple)):
      for x in v:
        if isinstance(x, ast.AST):
          yield f, x


def find_sharing(tree):
  """-> description of the first AST object reachable along two different paths, or None."""
  seen = {}
  stack = [(tree, 'root')]
  while stack:
    node, path = stack.pop()
    if isinstance(node, SHARED_OK):
      continue
    if id(node) in seen:
      try:
        text = ast.unparse(node)[:80]
      except Exception:
        text = type(node).__name__
      return '%s `%s` reachable as %s and as %s' % (type(node).__name__, text, seen[id(node)][-90:], path[-90:])
    seen[id(node)] = path
    for f, c in grammar_children(node):
      stack.append((c, '%s.%s:%s' % (path, f, type(c).__name__)))
  return None


def find_bad_ctx(tree):
  """-> description of the first node whose ctx does not match its position, or None."""
  bad = []

  def want(node, ctx):
    """node sits in a position that requires ctx (Load / Store / Del)."""
    if ctx is not ast.Load and not isinstance(node, (ast.Name, ast.Attribute, ast.Subscript, ast.Starred, ast.List, ast.Tuple)):
      bad.append('%s `%s` in a position that is assigned / deleted' % (type(node).__name__, _text(node)))
    if isinstance(node, (ast.Name, ast.Attribute, ast.Subscript, ast.Starred, ast.List, ast.Tuple)):
      if not hasattr(node, 'ctx') or not isinstance(node.ctx, ctx):
        got = type(getattr(node, 'ctx', None)).__name__
        bad.append('%s `%s` has ctx %s where %s is required' % (type(node).__name__, _text(node), got, ctx.__name__))
    if isinstance(node, (ast.List, ast.Tuple)):
      for e in node.elts:
        want(e, ctx)
    elif isinstance(node, ast.Starred):
      want(node.value, ctx)
    elif isinstance(node, ast.Attribute):
      want(node.value, ast.Load)
    elif isinstance(node, ast.Subscript):
      want(node.value, ast.Load)
      want(node.slice, ast.Load)
    elif isinstance(node, ast.AST) and not isinstance(node, (ast.Name,)):
      walk(node)

  def walk(node):
    """node itself needs no particular ctx; dispatch its children by position."""
    stores = {
        ast.Assign: ('targets',), ast.AugAssign: ('target',), ast.AnnAssign: ('target',), ast.For: ('target',),
        ast.AsyncFor: ('target',), ast.comprehension: ('target',), ast.withitem: ('optional_vars',),
        ast.NamedExpr: ('target',),
    }.get(type(node), ())
    dels = ('targets',) if isinstance(node, ast.Delete) else ()
    if isinstance(node, ast.NamedExpr) and not isinstance(node.target, ast.Name):
      bad.append('NamedExpr target is %s `%s`' % (type(node.target).__name__, _text(node.target)))
    for f in node._fields:
      if f.startswith('___'):
        continue
      v = getattr(node, f, None)
      ctx = ast.Store if f in stores else ast.Del if f in dels else ast.Load
      for x in (v if isinstance(v, (list, tuple)) else [v]):
        if isinstance(x, SHARED_OK) or not isinstance(x, ast.AST):
          continue
        if isinstance(x, ast.expr):
          want(x, ctx)
        else:
          walk(x)
  walk(tree)
  return bad[0] if bad else None


def _text(node):
  try:
    return ast.unparse(node)[:60]
  except Exception:
    return '?'


def find_function(module_tree, name):
  for n in ast.walk(module_tree):
    if isinstance(n, (ast.FunctionDef, ast.AsyncFunctionDef)) and n.name == name:
      return n
  return None


def first_difference(a, b):
  i = 0
  while i < min(len(a), len(b)) and a[i] == b[i]:
    i += 1
  return 'at %d: ...%s  VS  ...%s' % (i, a[max(0, i - 60):i + 80], b[max(0, i - 60):i + 80])


class Capture(object):
  """Wraps transform_ast on the transpiler singleton; keeps the trees it returned."""

  def __init__(self):
    self.trees = []
    self.orig = None

  def __enter__(self):
    tr = api._TRANSPILER
    self.had = 'transform_ast' in tr.__dict__
    self.prev = tr.__dict__.get('transform_ast')
    orig = tr.transform_ast

    def transform_ast(node, ctx):
      out = orig(node, ctx)
      self.trees.append(out)
      return out
    tr.transform_ast = transform_ast
    return self

  def __exit__(self, *exc):
    tr = api._TRANSPILER
    if self.had:
      tr.transform_ast = self.prev
    else:
      del tr.__dict__['transform_ast']
    return False


def check_tree(t, g, code):
  """-> list of (sig, what).  g is None when loading the generated module failed (only the tree is judged then)."""
  out = []
  sh = find_sharing(t)
  if sh:
    out.append(('shared-node', sh))
  bc = find_bad_ctx(t)
  if bc:
    out.append(('bad-ctx', bc))
  d0 = clean_dump(t)
  # compile: as a tree (on a copy: fix_missing_locations writes into the nodes) and as text
  try:
    m = ast.fix_missing_locations(ast.Module(body=[strip_copy(t)], type_ignores=[]))
    compile(m, '<c17-tree>', 'exec')
  except Exception as e:
    out.append(('compile-tree', '%s: %s' % (type(e).__name__, str(e)[:200])))
  located = lambda n: ast.unparse(ast.fix_missing_locations(ast.Module(body=[strip_copy(n)], type_ignores=[])))
  for label, unparse in (('ast', located), ('malt', lambda n: malt_parser.unparse(n, include_encoding_marker=False))):
    try:
      text = unparse(t)
    except Exception as e:
      out.append(('unparse-' + label, '%s: %s' % (type(e).__name__, str(e)[:200])))
      continue
    try:
      compile(text, '<c17-text>', 'exec')
      back = ast.parse(text).body[0]
    except Exception as e:
      out.append(('compile-text-' + label, '%s: %s' % (type(e).__name__, str(e)[:200])))
      continue
    d1 = clean_dump(back)
    if d1 != d0:
      out.append(('reparse-' + label, 'parse(unparse(t)) differs from t ' + first_difference(d0, d1)))
  if clean_dump(t) != d0:
    out.append(('oracle-mutated-tree', 'the checks changed the tree'))
  if g is None:
    return out
  # what was loaded
  try:
    gfile = g.__code__.co_filename
    with open(gfile) as fh:
      gtext = fh.read()
    loaded = find_function(ast.parse(gtext), g.__name__)
    if loaded is None:
      out.append(('loaded-missing', 'no def %s in %s' % (g.__name__, os.path.basename(gfile))))
    else:
      d2 = clean_dump(loaded)
      if d2 != d0:
        out.append(('loaded-differs', 'the def in the loaded module file differs from the transformed tree '
                    + first_difference(d0, d2)))
    shown = inspect.getsource(g)
    if textwrap.dedent(shown) != code:
      out.append(('to_code-differs', 'to_code(f) is not dedent(inspect.getsource(to_graph(f)))'))
    if shown not in gtext:
      out.append(('to_code-not-in-module', 'the text shown for the function does not occur in the loaded module file'))
    lines = [l for l in code.split('\n') if l.strip()]
    glines = set(l.strip() for l in gtext.split('\n'))
    missing = [l for l in lines if l.strip() not in glines]
    if missing:
      out.append(('to_code-line-missing', 'line of to_code not in the module file: %s' % missing[0][:120]))
    if getattr(g, 'ag_module', None) is not None and getattr(g.ag_module, '__file__', gfile) != gfile:
      out.append(('module-file', 'ag_module.__file__ != code filename'))
  except Exception as e:
    out.append(('loaded-check-crash', '%s: %s' % (type(e).__name__, str(e)[:200])))
  return out


# ---------------------------------------------------------------------------------------- one program

def check_item(item):
  idx, optname, src, unusual = item
  name = 'vp_c17_%d_%d' % (os.getpid(), idx)
  res = dict(idx=idx, evaluated=0, nontrivial=False, failures=[], conv_error=None, nodes=0, load_failure=None)
  try:
    mod = harness.load_source(src, name)
  except SyntaxError as e:
    res['failures'].append(dict(kind='generator-bug', sig='syntax', what=str(e), program=src))
    return res
  try:
    with Capture() as cap:
      try:
        g = opspace.to_graph(mod.f, optname)
        code = opspace.to_code(mod.f, optname)
      except Exception as e:
        res['conv_error'] = '%s: %s' % (type(e).__name__, str(e)[:160])
        if cap.trees:
          # transform_ast returned a tree and the conversion failed afterwards (unparse / load / source map).  C17:
          # "conversion never fails because of an inconsistency between the tree and its printed form" -- when the
          # captured tree violates a tree clause, that IS the reason, and it is a failure.  Otherwise the failed
          # conversion is outside the quantifier and only recorded.
          t = cap.trees[0]
          clauses = check_tree(t, None, None)
          res['nodes'] = sum(1 for _ in ast.walk(t))
          if clauses:
            res['evaluated'] = 1
            sig, what = clauses[0]
            res['failures'].append(dict(
                kind='tree', sig='unloadable-' + sig, decisions=None, options=optname, unusual=unusual, program=src,
                what='conversion fails with %s and the transformed tree violates: %s' % (
                    res['conv_error'][:120], '; '.join('%s (%s)' % (s_, w_[:160]) for s_, w_ in clauses[:3]))))
          else:
            res['load_failure'] = dict(error=res['conv_error'], options=optname, program=src, unusual=unusual, tree_oracles=[])
        return res
    if len(cap.trees) != 1:
      res['failures'].append(dict(kind='harness', sig='capture', what='captured %d trees' % len(cap.trees), program=src))
      return res
    t = cap.trees[0]
    res['evaluated'] = 1
    res['nodes'] = sum(1 for _ in ast.walk(t))
    # non-trivial: some template expansion took place (an operator call that is not just ld / FunctionScope)
    res['nontrivial'] = any(isinstance(n, ast.Call) and isinstance(n.func, ast.Attribute)
                            and isinstance(n.func.value, ast.Name) and n.func.value.id == 'ag__'
                            and n.func.attr in ('if_stmt', 'for_stmt', 'while_stmt', 'if_exp', 'and_', 'or_', 'not_',
                                                'converted_call') for n in ast.walk(t))
    for sig, what in check_tree(t, g, code):
      res['failures'].append(dict(kind='tree', sig=sig, what=what, program=src, decisions=None, options=optname, unusual=unusual))
  except Exception:
    res['failures'].append(dict(kind='harness', sig='crash', what=traceback.format_exc()[-600:], program=src))
  finally:
    harness.unload(name)
  return res


def minimise(failure, optname):
  """Greedy line deletion on the body of f while the same signature keeps failing."""
  src = failure['program']
  lines = src.split('\n')
  start = next(i for i, l in enumerate(lines) if l.startswith('def f('))
  sig = failure['sig']
  n = [10 ** 6]

  def fails(ls):
    s = '\n'.join(ls)
    try:
      compile(s, '<min>', 'exec')
    except SyntaxError:
      return False
    n[0] += 1
    r = check_item((n[0], optname, s, None))
    return any(f['sig'] == sig for f in r['failures'])
  t_end = time.time() + 60
  for i in range(len(lines) - 1, start, -1):
    if 'fuel' in lines[i] or time.time() > t_end:
      continue                     # fuel counters keep every loop finite: never deleted
    cand = lines[:i] + lines[i + 1:]
    if fails(cand):
      lines = cand
  out = dict(failure)
  out['program'] = '\n'.join(lines)
  return out


def minimise_load(lf):
  """Shrink a program whose generated module fails to load with the same error class."""
  lines = lf['program'].split('\n')
  start = next(i for i, l in enumerate(lines) if l.startswith('def f('))
  key = lf['error'].split('(')[0][:40]
  n = [2 * 10 ** 6]

  def fails(ls):
    s = '\n'.join(ls)
    try:
      compile(s, '<min>', 'exec')
    except SyntaxError:
      return False
    n[0] += 1
    r = check_item((n[0], lf['options'], s, None))
    return bool(r['load_failure']) and r['load_failure']['error'].startswith(key)
  t_end = time.time() + 60
  for _ in range(2):
    for i in range(len(lines) - 1, start, -1):
      if i < len(lines) and 'fuel' not in lines[i] and time.time() < t_end:
        cand = lines[:i] + lines[i + 1:]
        if fails(cand):
          lines = cand
  out = dict(lf)
  out['program'] = '\n'.join(lines[start:])
  return out


def main():
  ap = argparse.ArgumentParser()
  ap.add_argument('seed', type=int)
  ap.add_argument('tier')
  ap.add_argument('--random', type=int, default=None)
  ap.add_argument('--k', type=int, default=None)
  ap.add_argument('--options', default=','.join(opspace.OPTION_SETS))
  ap.add_argument('--maxfail', type=int, default=10)
  ap.add_argument('--budget', type=float, default=None)
  a = ap.parse_args()
  thorough = a.tier == 'thorough'
  opts = a.options.split(',')
  nrand = a.random if a.random is not None else (20000 if thorough else 800)
  K = a.k if a.k is not None else (3 if thorough else 2)
  budget = a.budget if a.budget is not None else (840.0 if thorough else 45.0)
  t0 = time.time()
  opspace.private_tmp('c17')
  try:
    rnd = random.Random(a.seed)
    items = []
    j = 0
    # known findings: probe each witness once (auto, like D3 in c04_scan); while it fails it is reported under its own
    # stable key and its trigger stays out of the default space, once it passes the trigger joins the space
    failures, seen = [], set()
    pool = list(opspace.UNUSUAL) + list(opspace.STORE_SHAPES)
    known_open = []
    for n_, (kind, sig, lines) in enumerate(opspace.KNOWN_TREE_FINDINGS):
      wsrc = opspace.unusual_only_program([lines])
      r = check_item((10 ** 7 + n_, 'plain', wsrc, [lines[0]]))
      bad = [f for f in r['failures'] if f['kind'] == 'tree']
      if bad:
        known_open.append(kind)
        failures.append(dict(bad[0], kind=kind, sig=sig, program=wsrc[wsrc.index('def f('):], tree_clause=bad[0]['sig']))
        seen.add((kind, sig))
      else:
        pool.append(lines)
    first = set()
    # every Store-position shape alone under every option set (also in quick), ahead of everything else
    for s in opspace.STORE_SHAPES:
      src = opspace.unusual_only_program([s])
      for o in opts:
        first.add(len(items))
        items.append((len(items), o, src, [s[0]]))
    # every unusual statement alone, under every option set in thorough / two rotating ones in quick
    for s in opspace.UNUSUAL:
      src = opspace.unusual_only_program([s])
      for r in range(len(opts) if thorough else 2):
        items.append((len(items), opts[j % len(opts)], src, [s[0]]))
        j += 1
    nskel = 0
    for tree in progen.skeletons(K):
      items.append((len(items), opts[j % len(opts)], progen.skeleton_program(tree), None))
      j += 1
      nskel += 1
    for i in range(nrand):
      src = progen.random_program(a.seed * 1000003 + i, size=2 + (i % 5), avoid=('D6',) if i % 2 else ('D1', 'D2', 'D6'))
      used = None
      if i % 4 != 3:
        src, used = opspace.splice_unusual(src, rnd, 1 + i % 4, pool)
      items.append((len(items), opts[j % len(opts)], src, used))
      j += 1
    random.Random(a.seed).shuffle(items)
    items.sort(key=lambda it: it[0] not in first)
    by_idx = dict((it[0], it) for it in items)
    evaluated = nontrivial = conv_errors = done = nodes = 0
    samples, conv_samples, hashes = [], [], set()
    load_failures, load_seen = [], set()
    for r in harness.pool_map(check_item, items, chunksize=4):
      done += 1
      if time.time() - t0 > budget:
        break
      evaluated += r['evaluated']
      nodes += r['nodes']
      it = by_idx[r['idx']]
      h = hashlib.sha1((it[1] + it[2]).encode()).hexdigest()
      if r['nontrivial'] and h not in hashes:
        hashes.add(h)
        nontrivial += 1
        if len(samples) < 2 and it[3]:
          samples.append('options=%s unusual=%r :: %s' % (it[1], it[3], it[2][it[2].index('def f('):][:500]))
      if r['conv_error']:
        conv_errors += 1
        if len(conv_samples) < 5:
          conv_samples.append('%s unusual=%r' % (r['conv_error'], it[3]))
      if r['load_failure']:
        lf = r['load_failure']
        key = lf['error'].split('(')[0][:60]
        if key not in load_seen and len(load_failures) < 6:
          load_seen.add(key)
          load_failures.append(lf)
      for f in r['failures']:
        key = (f['kind'], f['sig'])
        if key not in seen and len(failures) < a.maxfail:
          seen.add(key)
          f['options'] = it[1]
          failures.append(f)
    failures = [minimise(f, f['options']) if f['kind'] == 'tree' else f for f in failures]
    harness.emit(dict(
        evaluated=evaluated, distinct_nontrivial=nontrivial, items_done=done, items_total=len(items),
        truncated_by_budget=done < len(items), wall_seconds=round(time.time() - t0, 1), ast_nodes_checked=nodes,
        conversion_errors=conv_errors, conversion_error_samples=conv_samples,
        load_failures=[minimise_load(lf) for lf in load_failures], skeleton_programs=nskel,
        random_programs=nrand, unusual_statements=len(opspace.UNUSUAL), store_shapes=len(opspace.STORE_SHAPES),
        known_findings_open=known_open, options=opts,
        rule='progen skeletons K<=%d, seeded random programs (3 of 4 with 1-4 of %d unusual-literal statements spliced in '
             'at random positions; half of them without the D1/D2 steering, all avoid D6), and every unusual statement on '
             'its own; %d Store-position shapes (starred / nested / attribute / subscript targets of for, assignment, with, '
             'comprehension, del; loops with break / continue) each alone under every option set and in the splice pool; '
             'one option set per program rotating over %d; a conversion that fails after transform_ast returned a tree that '
             'violates a clause is a failure (unloadable-*); evaluated = conversions whose captured '
             'tree passed through all oracles; non-trivial = the tree contains at least one control-flow / logical / call '
             'operator expansion (distinct by source+options); conversion errors are outside the quantifier and only '
             'counted' % (K, len(opspace.UNUSUAL), len(opspace.STORE_SHAPES), len(opts)),
        samples=samples, failures=failures))
  finally:
    opspace.finish()


if __name__ == '__main__':
  main()
