"""Run-time check of the worklist contract on the real cfg.GraphVisitor (replay / bounded stand-in).

All digraphs with <= N nodes (N=3 exhaustive, 4 sampled) x gen/kill tables over 2 facts, forward and
reverse: after visit_forward()/visit_reverse() every node reachable from the start set satisfies its
equation (the contract proved by Engine A for _visit_internal, evaluated on concrete inputs).
"""
import itertools
import json
import random
import sys

from malt.pyct import cfg


class Stub(object):
  def __init__(self, i):
    self.i = i


def build(n, edges, entry, exits):
  nodes = [cfg.Node(set(), set(), Stub(i)) for i in range(n)]
  for a, b in edges:
    nodes[a].next.add(nodes[b])
    nodes[b].prev.add(nodes[a])
  index = {nd.ast_node: nd for nd in nodes}
  g = cfg.Graph(entry=nodes[entry], exit=frozenset(nodes[e] for e in exits), error=frozenset(),
                index=index, stmt_prev={}, stmt_next={})
  return g, nodes


class GenKill(cfg.GraphVisitor):
  """out = gen | (in - kill), in = union over predecessors (forward) / successors (reverse)."""

  def __init__(self, graph, gen, kill, forward):
    self.gen, self.kill, self.forward = gen, kill, forward
    super(GenKill, self).__init__(graph)

  def init_state(self, _):
    return frozenset()

  def eq(self, node):
    srcs = node.prev if self.forward else node.next
    inn = frozenset().union(*[self.out[s] for s in srcs]) if srcs else frozenset()
    out = self.gen[node.ast_node.i] | (inn - self.kill[node.ast_node.i])
    return inn, out

  def visit_node(self, node):
    prev = self.out[node]
    self.in_[node], self.out[node] = self.eq(node)
    return prev != self.out[node]


def reachable(start, forward):
  seen, work = set(), list(start)
  while work:
    n = work.pop()
    if n in seen:
      continue
    seen.add(n)
    work.extend(n.next if forward else n.prev)
  return seen


def check(n, edges, entry, exits, gen, kill, forward):
  g, nodes = build(n, edges, entry, exits)
  a = GenKill(g, gen, kill, forward)
  if forward:
    a.visit_forward()
    start = [g.entry]
  else:
    a.visit_reverse()
    start = list(g.exit)
  for nd in reachable(start, forward):
    if (a.in_[nd], a.out[nd]) != a.eq(nd):
      return dict(nodes=n, edges=sorted(edges), entry=entry, exits=sorted(exits),
                  gen=[sorted(x) for x in gen], kill=[sorted(x) for x in kill], forward=forward,
                  unstable_node=nd.ast_node.i)
  return None


def _budget(a, default):
  if a == 'quick':
    return default
  if a == 'thorough':
    return default * 20
  return int(a)


def main():
  seed = int(sys.argv[1]) if len(sys.argv) > 1 else 0
  budget = _budget(sys.argv[2] if len(sys.argv) > 2 else 'quick', 4000)
  rnd = random.Random(seed)
  facts = [frozenset(), frozenset('a'), frozenset('b'), frozenset('ab')]
  evaluated, failures, shapes = 0, [], set()
  # exhaustive n <= 3 over edge sets, with a reduced gen/kill family
  for n in (1, 2, 3):
    pairs = [(a, b) for a in range(n) for b in range(n)]
    for mask in range(1 << len(pairs)):
      edges = [p for i, p in enumerate(pairs) if mask >> i & 1]
      for forward in (True, False):
        for t in range(3):
          gen = [rnd.choice(facts) for _ in range(n)]
          kill = [rnd.choice(facts) for _ in range(n)]
          exits = [n - 1]
          evaluated += 1
          shapes.add((n, mask, forward))
          f = check(n, edges, 0, exits, gen, kill, forward)
          if f:
            failures.append(f)
            if len(failures) >= 3:
              break
        if len(failures) >= 3:
          break
      if len(failures) >= 3:
        break
  while evaluated < budget and len(failures) < 3:
    n = rnd.choice((4, 5))
    edges = [(a, b) for a in range(n) for b in range(n) if rnd.random() < 0.3]
    gen = [rnd.choice(facts) for _ in range(n)]
    kill = [rnd.choice(facts) for _ in range(n)]
    forward = rnd.random() < 0.5
    exits = rnd.sample(range(n), rnd.randint(1, 2))
    evaluated += 1
    shapes.add((n, tuple(edges), forward))
    f = check(n, edges, 0, exits, gen, kill, forward)
    if f:
      failures.append(f)
  for f in failures:
    f.setdefault('kind', 'fixed-point'); f.setdefault('sig', 'unstable-node'); f.setdefault('what', 'a reachable node does not satisfy its equation after the walk')
  print(json.dumps(dict(evaluated=evaluated, distinct_nontrivial=len(shapes), failures=failures,
                        rule='bounded: all digraphs with <= 3 nodes (every edge set) x forward/reverse x 3 random '
                             'gen/kill tables over 2 facts, plus random 4-5 node graphs; distinct = distinct (graph, direction)',
                        samples=['3 nodes, edges [(0,1),(1,1),(1,2)], reverse walk, gen/kill over {a,b}'])))


main()
