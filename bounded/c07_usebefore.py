"""C07 bounded stand-in: liveness is sound (use-before-overwrite oracle).

The real analyses are run on the AST of `f` (pipeline of converters/control_flow.transform, liveness with
include_annotations=True); an instrumented copy of the same source (dfinstr.py) is executed under every explored
decision vector.  For every executed statement instance s and every local variable v of the function that
executes s (cell = this activation's v):

  out   when s finishes (fall through, break, continue, return, explicit raise): if the next event on the cell
        is a read (by this function, or inside a local function called later) rather than a write, v must be in
        anno.Static.LIVE_VARS_OUT of s            (if / for / while / try / except handler / Expr statements);
  in    when a statement s' is about to execute: same question, v must be in anno.Static.LIVE_VARS_IN of s'
        (every statement that is a CFG node, and if / for / while / try / with / except handler) -- this is
        "the entry of the statement that executes next".
  static  per graph (functions and lambdas) in_/out satisfy liveness.Analyzer.visit_node's equations:
        out = union of in_[succ]; in_ = read | (out - (modified | deleted)) | U (read(fn) - (bound(fn) -
        nonlocals(fn))) over the non-lambda local functions in DEFINED_FNS_IN.

Only variables owned by the executing function are judged at its statements: inside a nested function the
enclosing function's variables are either declared nonlocal there (control_flow._get_block_basic_vars treats
nonlocals as always live) or only read (never a loop/cond variable).  Zero-trip loops, loop targets reassigned in
the body, closures called later and `nonlocal` writers are in the space.  Implicit exceptions end the checking of
the run.  A missing live variable whose value travels along the loop-exit edge of a `for` that binds the same
variable is the recorded finding D1 and is reported as known-D1 (the default space avoids it; a witness run is
always made).

usage: c07_usebefore.py <seed> <tier> [--k K] [--random N] [--avoid D1,D2,D6]
"""
import argparse
import ast
import bisect
import hashlib
import os
import sys

sys.path.insert(0, os.path.dirname(os.path.abspath(__file__)))
import harness
import progen
import dfinstr

from malt.pyct import anno

D1_WITNESS = '''
G = [0]

def f(t, c, a):
  x = 0
  if c():
    x = 5
  for x in a[2:]:
    pass
  return x
'''

# shapes the property names explicitly; they must pass (D4 is fixed)
EXTRA = [
    # zero-trip loop before a use
    '''
G = [0]

def f(t, c, a):
  x = 1
  y = 2
  if c():
    y = 3
  for i in a[2:]:
    y = i
  while c():
    x = x + y
  return (x, y)
''',
    # loop target reassigned in the body, read after the loop
    '''
G = [0]

def f(t, c, a):
  s = 0
  for i in a:
    if c():
      i = i + 10
    s = s + i
    t(s)
  i = 0
  for j in a:
    if c():
      j = j + i
    i = j
    t(i)
  return (s, i)
''',
    # closure defined early, called later; nonlocal writer; closure reading a later-assigned variable
    '''
G = [0]

def f(t, c, a):
  x = 1
  y = 0
  def g():
    nonlocal x
    x = x + 10
    return y
  def r():
    return x + z
  if c():
    x = 2
  z = 5
  t(0)
  if c():
    y = 7
  t(1)
  k = g()
  t(2)
  if c():
    z = 6
  t(3)
  return (r(), k)
''',
    # nonlocal declared, closure conditionally called inside a loop
    '''
G = [0]

def f(t, c, a):
  n = 0
  m = 1
  def bump():
    nonlocal n
    n = n + m
  fuel = 0
  while fuel < 3 and c():
    fuel += 1
    if c():
      m = m * 2
    t(fuel)
    if c():
      bump()
  t(9)
  return n
''',
]


def check_run(an, p, log):
  fails = []
  checked = 0
  cov = dict(nested_instances=0, live_cells_confirmed=0, closure_reads_confirmed=0)
  tl = {}
  act_fid = {}
  for time, e in enumerate(log.ev):
    if e[0] == 'r':
      tl.setdefault(e[1], []).append((time, 0, e[2]))
    elif e[0] == 'w':
      tl.setdefault(e[1], []).append((time, 1, e[2]))
    elif e[0] == 'call':
      act_fid[e[1]] = e[2]
  for time, e in enumerate(log.ev):
    k = e[0]
    if k not in ('b', 'x', 'h'):
      continue
    sid, act = e[1], e[2]
    node = an.nodes[sid]
    key = anno.Static.LIVE_VARS_OUT if k == 'x' else anno.Static.LIVE_VARS_IN
    if not anno.hasanno(node, key):
      continue
    live = set(str(q) for q in anno.getanno(node, key))
    fid = act_fid[act]
    checked += 1
    if p.infos[fid].parent is not None:
      cov['nested_instances'] += 1
    for v in p.infos[fid].locals:
      t = tl.get((fid, act, v))
      if not t:
        continue
      i = bisect.bisect_right(t, (time, 2, 0))
      if i < len(t) and t[i][1] == 0:
        rk = t[i][2]
        if v in live:
          cov['live_cells_confirmed'] += 1
          if p.reads[rk][2] != fid:
            cov['closure_reads_confirmed'] += 1
          continue
        rname, rowner, rreader, aug = p.reads[rk]
        via = '' if rreader == fid else ' inside local function %s' % an.nodes[rreader].name
        side = 'LIVE_VARS_OUT' if k == 'x' else 'LIVE_VARS_IN'
        d1 = dfinstr.crosses_for_exit(an, log, v, act, time, t[i][0]) or (
            k == 'b' and isinstance(node, ast.For) and v in dfinstr._stored(node.target))
        fails.append(dict(kind='known-D1' if d1 else 'live-missing',
                          sig='for-target-killed-on-exit-edge' if d1 else '%s:%s' % (side, type(node).__name__), var=v,
                          stmt=dfinstr.text(node), read_at=dfinstr.stmt_text(an, an.nodes[rk]) + via,
                          what='the value %s holds when "%s" %s is read later by "%s"%s before being overwritten, '
                               'but %s is not in %s' % (v, dfinstr.text(node), 'finishes' if k == 'x' else 'starts',
                                                        dfinstr.stmt_text(an, an.nodes[rk]), via, v, side)))
  return checked, fails, cov


def check_program(item):
  idx, src, maxlen, cap = item
  res = dict(idx=idx, runs=0, checked=0, dead=0, failures=[], error=None, cov={})
  try:
    an = dfinstr.analyse(src)
  except Exception as e:
    res['error'] = dfinstr.analysis_error(src, e)
    return res
  try:
    p = dfinstr.instrument(src)
  except dfinstr.Unsupported as e:
    res['error'] = dict(kind='generator-bug', sig='unsupported', what='instrumenter: %s' % e)
    return res
  if not dfinstr.match_trees(an, p):
    res['error'] = dict(kind='oracle-gap', sig='tree-mismatch', what='node numbering differs between the two parses')
    return res
  seen = set()

  def add(f, bits):
    key = (f['kind'], f['sig'])
    if key in seen:
      return
    seen.add(key)
    f = dict(f)
    f['decisions'] = list(bits)
    res['failures'].append(f)
  for kind, where in dfinstr.lv_fixed_point(an):
    add(dict(kind='fixed-point', sig=kind, stmt=where, what='%s at %s' % (kind, where)), ())

  def run(bits):
    log, used, outcome = dfinstr.run(p, bits)
    res['runs'] += 1
    res['dead'] += 1 if log.dead or (outcome[0] == 'raise' and outcome[1] != 'ValueError') else 0
    n, fails, cov = check_run(an, p, log)
    res['checked'] += n
    for ck, cv in cov.items():
      res['cov'][ck] = res['cov'].get(ck, 0) + cv
    for f in fails:
      add(f, bits)
    return used
  harness.adaptive_vectors(run, max_len=maxlen, cap=cap)
  return res


def main():
  ap = argparse.ArgumentParser()
  ap.add_argument('seed', type=int)
  ap.add_argument('tier')
  ap.add_argument('--avoid', default='D1,D2,D6')
  ap.add_argument('--k', type=int, default=None)
  ap.add_argument('--random', type=int, default=None)
  ap.add_argument('--maxfail', type=int, default=10)
  a = ap.parse_args()
  avoid = tuple(x for x in a.avoid.split(',') if x)
  thorough = a.tier == 'thorough'
  K = a.k if a.k is not None else (3 if thorough else 2)
  nrand = a.random if a.random is not None else (12000 if thorough else 1000)
  items = [(0, D1_WITNESS, 4, 16)]
  for src in EXTRA:
    items.append((len(items), src, 8, 64))
  nwit = len(items)
  for tree in progen.skeletons(K):
    items.append((len(items), progen.skeleton_program(tree, avoid), 7, 48))
  nskel = len(items) - nwit
  for i in range(nrand):
    items.append((len(items), progen.random_program(a.seed * 1000003 + i, size=2 + (i % 5), avoid=avoid), 6, 32))
  # an extra block: comprehensions whose target re-uses a variable read in their own iterable (family 'compshadow')
  for i in range(nrand // 5):
    items.append((len(items), progen.random_program(a.seed * 5000011 + i, size=2 + (i % 4), avoid=avoid, features=('compshadow',)), 6, 32))
  runs = checked = dead = nontrivial = errors = 0
  best, counts, cov = {}, {}, {}
  seen, samples = set(), []
  for r in harness.pool_map(check_program, items, chunksize=4):
    src = items[r['idx']][1]
    runs += r['runs']
    checked += r['checked']
    dead += r['dead']
    for ck, cv in r['cov'].items():
      cov[ck] = cov.get(ck, 0) + cv
    h = hashlib.sha1(src.encode()).hexdigest()
    if r['checked'] >= 5 and h not in seen:
      seen.add(h)
      nontrivial += 1
    fl = list(r['failures'])
    if r['error']:
      errors += 1
      fl.append(r['error'])
    for f in fl:
      f = dict(f)
      if r['idx'] == 0:
        f['detail'] = '%s:%s' % (f['kind'], f['sig'])
        f['kind'], f['sig'] = 'known-D1', 'for-target-killed-on-exit-edge'
      key = '%s:%s' % (f['kind'], f['sig'])
      counts.setdefault(key, set()).add(r['idx'])
      body = src[src.index('def f('):]
      f['program'] = body
      if key not in best or len(body) < len(best[key]['program']):
        best[key] = f
    if len(samples) < 2 and r['checked'] >= 20 and r['idx'] >= nwit + nskel:
      samples.append(src[src.index('def f('):][-600:])
  failures = []
  for key in sorted(best):
    f = best[key]
    f['programs_failing'] = len(counts[key])
    failures.append(f)
  harness.emit(dict(
      evaluated=checked, runs=runs, programs=len(items), skeleton_programs=nskel, random_programs=nrand,
      witness_programs=nwit, distinct_nontrivial=nontrivial, runs_ended_by_implicit_exception=dead,
      analysis_errors=errors, coverage=cov, K=K, avoid=list(avoid),
      rule='progen.skeletons(K=%d) + %d progen.random_program(seed*1000003+i, size 2..6, avoid=%s) + the D1 witness '
           '+ %d hand-written shapes (zero-trip loop, loop target reassigned in the body, closure called later, '
           'nonlocal writer), each run under harness.adaptive_vectors decision vectors; evaluated = statement '
           'instances (begin / end events carrying LIVE_VARS_IN / LIVE_VARS_OUT) checked, each against every local '
           'of the executing function; non-trivial = distinct program with >= 5 checked instances; fixed point '
           'checked once per CFG; failures deduplicated per kind:sig keeping the smallest failing program'
           % (K, nrand, ','.join(avoid), len(EXTRA)),
      samples=samples, failures=failures[:a.maxfail]))


if __name__ == '__main__':
  main()
