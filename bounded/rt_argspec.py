"""Run-time evaluation of the `_node_matches_argspec` / `_arg_name` contracts (C15) over a bounded space of
lambda signatures (replay hook / bounded stand-in).

Oracle (from the property, not from the code): a candidate node is accepted exactly when its parameter names
agree kind by kind and in order with the function object's signature -- computed here from
`inspect.signature` parameter kinds, independently of `inspect.getfullargspec`."""
import ast
import inspect
import itertools
import json
import sys

from malt.pyct import parser


def signatures():
  """Bounded: up to 2 positional-only, 2 positional-or-keyword, 1 keyword-only, optional *a / **k;
  names drawn from a 3-letter alphabet so that equal / different names at each position both occur."""
  names = ['x', 'y', 'z']
  out = []
  for npos, nargs, nkw in itertools.product(range(3), range(3), range(2)):
    for star in (None, 'a', 'b'):
      for dstar in (None, 'k'):
        for shift in range(2):
          pool = names[shift:] + names[:shift]
          po = pool[:npos]
          ar = [n for n in pool if n not in po][:nargs]
          if len(po) < npos or len(ar) < nargs:
            continue
          kw = ['w'][:nkw]
          parts = list(po)
          if po:
            parts.append('/')
          parts += ar
          if star:
            parts.append('*' + star)
          elif kw:
            parts.append('*')
          parts += kw
          if dstar:
            parts.append('**' + dstar)
          out.append(', '.join(parts))
  return sorted(set(out))


def kinds(sig):
  P = inspect.Parameter
  ps = list(sig.parameters.values())
  return ([p.name for p in ps if p.kind in (P.POSITIONAL_ONLY, P.POSITIONAL_OR_KEYWORD)],
          next((p.name for p in ps if p.kind == P.VAR_POSITIONAL), None),
          [p.name for p in ps if p.kind == P.KEYWORD_ONLY],
          next((p.name for p in ps if p.kind == P.VAR_KEYWORD), None))


def node_kinds(node):
  a = node.args
  return ([x.arg for x in a.posonlyargs + a.args], a.vararg.arg if a.vararg else None,
          [x.arg for x in a.kwonlyargs], a.kwarg.arg if a.kwarg else None)


def main():
  sigs = signatures()
  fns = {s: eval('lambda %s: 0' % s) for s in sigs}
  nodes = {s: ast.parse('lambda %s: 0' % s, mode='eval').body for s in sigs}
  evaluated = nontrivial = 0
  failures = []
  for s1 in sigs:
    # _arg_name contract
    for a in [None] + nodes[s1].args.args[:1]:
      got = parser._arg_name(a)
      want = None if a is None else a.arg
      evaluated += 1
      if got != want and len(failures) < 5:
        failures.append(dict(kind='arg-name', sig='_arg_name', what='_arg_name(%r) = %r, expected %r' % (a, got, want),
                             program=s1))
    for s2 in sigs:
      got = parser._node_matches_argspec(nodes[s1], fns[s2])
      want = node_kinds(nodes[s1]) == kinds(inspect.signature(fns[s2]))
      evaluated += 1
      if want:
        nontrivial += 1
      if bool(got) != want and len(failures) < 5:
        failures.append(dict(kind='argspec-match', sig='accepts-different' if got else 'rejects-same',
                             what='_node_matches_argspec(lambda %s, lambda %s) = %r, expected %r' % (s1, s2, got, want),
                             program='node: lambda %s: 0 ; function: lambda %s: 0' % (s1, s2)))
  print(json.dumps(dict(
      evaluated=evaluated, distinct_nontrivial=nontrivial,
      rule='all ordered pairs of %d lambda signatures (<=2 positional-only, <=2 positional-or-keyword, <=1 '
           'keyword-only, optional *a/**k, names rotated over x,y,z); non-trivial = the pair should be accepted' % len(sigs),
      samples=sigs[:2] + sigs[-2:], failures=failures)))


if __name__ == '__main__':
  main()
