"""Run-time evaluation of the status-stack contracts (ControlStatusCtx.__enter__/__exit__, FunctionScope
__enter__/__exit__, control_status_ctx) on small concrete stacks, including stacks that hold the same
context object more than once (replay hook / bounded stand-in)."""
import itertools
import json
import random
import sys

from malt.core import ag_ctx, converter
from malt.operators import function_wrappers


def main():
  seed = int(sys.argv[1]) if len(sys.argv) > 1 else 0
  tier = sys.argv[2] if len(sys.argv) > 2 else 'quick'
  n = 4000 if tier == 'quick' else 80000 if tier == 'thorough' else int(tier)
  rnd = random.Random(seed)
  S = ag_ctx.Status
  pool = [ag_ctx.ControlStatusCtx(st) for st in (S.ENABLED, S.DISABLED, S.UNSPECIFIED, S.ENABLED)]
  failures, distinct = [], set()
  for i in range(n):
    base = [ag_ctx._default_control_status_ctx()] + [rnd.choice(pool) for _ in range(rnd.randint(0, 4))]
    ag_ctx.stacks.control_status = list(base)
    lst = ag_ctx.stacks.control_status
    op = rnd.choice(['enter', 'exit', 'fs', 'top', 'dnc', 'unspec', 'wfs'])
    bad = None
    distinct.add((op, tuple(pool.index(c) if c in pool else -1 for c in base)))
    try:
      if op == 'enter':
        c = rnd.choice(pool)
        r = c.__enter__()
        now = ag_ctx.stacks.control_status
        if not (r is c and now is lst and len(now) == len(base) + 1 and now[-1] is c
                and all(a is b for a, b in zip(now, base))):
          bad = '__enter__ must push self on top and keep everything below'
      elif op == 'exit':
        c = rnd.choice(pool)
        lst.append(c)                     # precondition of __exit__: self is on top
        before = list(lst)
        c.__exit__(None, None, None)
        now = ag_ctx.stacks.control_status
        if not (now is lst and len(now) == len(before) - 1 and all(a is b for a, b in zip(now, before))):
          bad = '__exit__ must pop exactly the top entry (self) and keep everything below, in order'
      elif op == 'fs':
        opts = converter.ConversionOptions(recursive=rnd.random() < 0.5, user_requested=rnd.random() < 0.5,
                                           optional_features=None)
        fs = function_wrappers.FunctionScope('f', 'fscope', opts)
        before = list(lst)
        fs.__enter__()
        mid = list(ag_ctx.stacks.control_status)
        ok_mid = (len(mid) == len(before) + 1 and mid[-1].status is S.ENABLED) if opts.user_requested else mid == before
        exc = rnd.random() < 0.5
        fs.__exit__(ValueError if exc else None, ValueError('x') if exc else None, None)
        now = ag_ctx.stacks.control_status
        if not (ok_mid and now is lst and len(now) == len(before) and all(a is b for a, b in zip(now, before))):
          bad = 'FunctionScope enter/exit must push an ENABLED context iff user_requested and restore the stack'
      elif op in ('dnc', 'unspec'):
        from malt.impl import api
        seen = []
        boom = rnd.random() < 0.3

        def probe(a, k=None):
          seen.append((ag_ctx.control_status_ctx().status, len(ag_ctx.stacks.control_status), a, k))
          if boom:
            raise KeyError('probe')
          return ('r', a)
        wrapped = (api.do_not_convert if op == 'dnc' else api.call_with_unspecified_conversion_status)(probe)
        want = S.DISABLED if op == 'dnc' else S.UNSPECIFIED
        try:
          r = wrapped(7, k=8)
        except KeyError:
          r = 'raised'
        now = ag_ctx.stacks.control_status
        if not (len(seen) == 1 and seen[0] == (want, len(base) + 1, 7, 8) and r == ('raised' if boom else ('r', 7))
                and now is lst and len(now) == len(base) and all(a is b for a, b in zip(now, base))):
          bad = ('the %s wrapper must call the function once, with the arguments, under a %s context pushed on '
                 'top, and restore the stack (also when the function raises)' % (op, want))
      elif op == 'wfs':
        opts = converter.ConversionOptions(recursive=rnd.random() < 0.5, user_requested=rnd.random() < 0.5,
                                           optional_features=None)
        seen = []

        boom = rnd.random() < 0.4

        def thunk(scope):
          seen.append((scope, [c.status for c in ag_ctx.stacks.control_status[len(base):]]))
          if boom:
            raise KeyError('thunk')           # the scope must be left (and the stack restored) on this exit too
          return 'ret'
        try:
          r = function_wrappers.with_function_scope(thunk, 'sc', opts)
        except KeyError:
          r = 'ret' if boom else 'unexpected KeyError'
        now = ag_ctx.stacks.control_status
        if not (r == 'ret' and len(seen) == 1 and isinstance(seen[0][0], function_wrappers.FunctionScope)
                and seen[0][1] == ([S.ENABLED] if opts.user_requested else [])
                and now is lst and len(now) == len(base) and all(a is b for a, b in zip(now, base))):
          bad = 'with_function_scope must run the thunk once inside a FunctionScope and restore the stack'
      else:
        top = ag_ctx.control_status_ctx()
        if top is not lst[-1] or len(lst) != len(base):
          bad = 'control_status_ctx must return the top of the stack without changing it'
    except Exception as e:   # a contract broken badly enough to trip an internal assertion
      bad = 'operation %s raised %s: %s' % (op, type(e).__name__, e)
    if bad:
      failures.append(dict(kind='contract', sig=op, what=bad, op=op,
                           stack=[str(c.status) for c in base], same_object_twice=len(set(map(id, base))) < len(base)))
      if len(failures) >= 3:
        break
  print(json.dumps(dict(evaluated=i + 1, distinct_nontrivial=len(distinct), failures=failures,
                        rule='bounded: random stacks of <= 5 entries over a pool of 4 context objects (so an object can '
                             'occur several times), one operation each; distinct = distinct (operation, stack shape)',
                        samples=['stack [default, ENABLED#0, DISABLED#1, ENABLED#0]; ENABLED#0.__exit__ with itself on top'])))


main()
