"""C06 bounded stand-in: reaching definitions / defined-on-entry are sound (last-writer oracle).

For every generated program the real analyses are run on the AST of `f` (same pipeline as
converters/control_flow.transform); an instrumented copy of the same source is executed under every explored
decision vector and its event log (dfinstr.py) is checked:

  read      the Definition the analysis created for the statement that performed the last write of the variable
            (Analyzer.gen_map of the writer's CFG node == what is annotated on its Store Name / parameter) must be
            in anno.Static.DEFINITIONS of the Load Name that was read;
  enter     at the entry of every if/for/while/try (and except handler) every bound local of the enclosing
            function must be in anno.Static.DEFINED_VARS_IN of the statement;
  static    per graph, the reported in_/out are a fixed point of the module's own equations
            (in_ = join of out[p]; out = gen | (in_ - kill)), and the definition annotated on every Store Name /
            parameter is exactly the generated one.

How values that cross a function boundary are judged (the analysis is per function):
  * the reader's function declares the name `nonlocal` and the last write happened before this activation
    started: the Definition of the `nonlocal` statement (the "value on entry") must be attached;
  * a free variable read in a nested function (no nonlocal): the analysis attaches the empty set on purpose
    (tests/pyct/static_analysis/reaching_definitions_test.py test_nested_functions pins that: "late binding");
    counted (closure_free_reads), required to be empty, not a failure;
  * the last write was done by a *callee* (a local function that declares the name nonlocal, called since this
    activation began): the analysis ignores the effect of calls -> kind callee-nonlocal-write (genuine; the
    defined-on-entry variant is observable: the converter clobbers the variable with Undefined).
Implicit exceptions (NameError / TypeError ...) end the checking of that run.
A missing last writer whose value travelled along the loop-exit edge of a `for` that binds the same variable is
the recorded finding D1 and is reported as known-D1 (the default space avoids it; a witness run is always made).

usage: c06_lastwriter.py <seed> <tier> [--k K] [--random N] [--avoid D1,D2,D6]
"""
import argparse
import ast
import hashlib
import os
import sys

sys.path.insert(0, os.path.dirname(os.path.abspath(__file__)))
import harness
import progen
import dfinstr

from malt.pyct import anno, qual_names

D1_WITNESS = '''
G = [0]

def f(t, c, a):
  x = 0
  if c():
    x = 5
  for x in a[2:]:
    pass
  return x
'''

# the smallest program found for the callee-nonlocal-write finding (f never binds x itself before the `if`)
CALLEE_WITNESS = '''
G = [0]

def f(t, c, a):
  def g():
    nonlocal x
    x = 1
  g()
  if c():
    x = 2
  return x
'''

CALLEE_WITNESS_2 = '''
G = [0]

def f(t, c, a):
  x = 0
  def g():
    nonlocal x
    x = 1
  g()
  return x
'''


def _defs(node):
  return anno.getanno(node, anno.Static.DEFINITIONS, None)


def writer_key(an, sid):
  n = an.nodes[sid]
  if isinstance(n, ast.For):
    return n.iter
  return n


def gen_def(an, p, sid, name, fid):
  """The Definition generated for `name` by the CFG node of writer statement sid in function fid's graph."""
  fn = an.nodes[fid]
  rd = an.rd_of.get(fn)
  if rd is None:
    return None
  cn = rd.graph.index.get(writer_key(an, sid))
  if cn is None or cn not in rd.gen_map:
    return None
  ds = rd.gen_map[cn].value.get(qual_names.QN(name))
  if not ds:
    return None
  return next(iter(ds))


def static_checks(an, p):
  bad = [dict(kind='fixed-point', sig=k, what='%s at %s' % (k, where), stmt=where) for k, where in dfinstr.rd_fixed_point(an)]
  # the annotation on every binding occurrence is exactly the generated definition
  for (sid, name), owner in p.wtbl.items():
    if owner is None:
      continue
    fid = p.stmt_fid[sid]
    node = an.nodes[sid]
    if isinstance(node, ast.ExceptHandler):
      continue
    d = gen_def(an, p, sid, name, fid)
    if d is None:
      bad.append(dict(kind='write-without-gen', sig=type(node).__name__, var=name, stmt=dfinstr.text(node),
                      what='statement binds %s but its CFG node generates no definition for it' % name))
      continue
    if isinstance(node, ast.FunctionDef):
      continue
    if isinstance(node, ast.arguments):
      holders = [x for x in ast.walk(node) if isinstance(x, ast.arg) and x.arg == name]
    else:
      tgt = node.target if isinstance(node, (ast.For, ast.AugAssign, ast.AnnAssign)) else (
          node.optional_vars if isinstance(node, ast.withitem) else node)
      tgts = node.targets if isinstance(node, ast.Assign) else [tgt]
      holders = [x for t in tgts for x in ast.walk(t)
                 if isinstance(x, ast.Name) and isinstance(x.ctx, ast.Store) and x.id == name]
    for h in holders:
      ds = _defs(h)
      if ds is None or len(ds) != 1 or ds[0] is not d:
        bad.append(dict(kind='store-anno-mismatch', sig=type(node).__name__, var=name, stmt=dfinstr.text(node),
                        what='DEFINITIONS on the binding occurrence of %s is not the generated definition' % name))
  return bad


def check_run(an, p, log):
  """Returns (checked, [failures], closure_free_reads)."""
  aidx = getattr(an, "aidx", None)
  if aidx is None:
    aidx = an.aidx = {id(n): i for i, n in reversed(list(enumerate(an.nodes)))}
  fails = []
  checked = free = 0
  cov = dict(reads=0, enters=0, reads_in_nested=0, nonlocal_entry_reads=0)
  last = {}
  act_start, act_fid = {}, {}
  for time, e in enumerate(log.ev):
    k = e[0]
    if k == 'call':
      act_start[e[1]], act_fid[e[1]] = time, e[2]
    elif k == 'w':
      last[e[1]] = (e[2], e[3], time)
    elif k == 'r':
      cell, nk, act = e[1], e[2], e[3]
      name, owner, reader, aug = p.reads[nk]
      if aug:
        continue          # `x op= e`: the read has no Load node of its own
      node = an.nodes[nk]
      defs = _defs(node)
      W = lambda node=node: dfinstr.stmt_text(an, node)
      lw = last.get(cell)
      checked += 1
      cov['reads'] += 1
      if p.infos[reader].parent is not None:
        cov['reads_in_nested'] += 1
      if defs is None:
        fails.append(dict(kind='no-annotation', sig='Load', var=name, stmt=W(),
                          what='read Name %s carries no DEFINITIONS annotation' % name))
        continue
      if lw is None or cell[1] is None:
        fails.append(dict(kind='oracle-gap', sig='unlogged-binding', var=name, stmt=W(),
                          what='a bound variable was read but no binding of it was logged'))
        continue
      wsid, wact, wtime = lw
      info = p.infos[reader]
      if wact == act:
        d = gen_def(an, p, wsid, name, reader)
        if d is None or not any(x is d for x in defs):
          wn = an.nodes[wsid]
          d1 = dfinstr.crosses_for_exit(an, log, name, act, wtime, time)
          fails.append(dict(kind='known-D1' if d1 else 'lastwriter-missing',
                            sig='for-target-killed-on-exit-edge' if d1 else '%s' % type(wn).__name__, var=name,
                            stmt=W(), writer=dfinstr.text(wn),
                            what='the definition of %s made by "%s" reaches the read in "%s" at run time but is '
                                 'not in its DEFINITIONS (%d attached)' % (name, dfinstr.text(wn), W(), len(defs))))
      elif wtime < act_start[act] and name in info.nonlocals:
        cov['nonlocal_entry_reads'] += 1
        nl = [s for s in ast.walk(an.nodes[reader]) if isinstance(s, ast.Nonlocal) and name in s.names
              and p.stmt_fid.get(aidx[id(s)]) == reader]
        d = None
        for s in nl:
          d = d or gen_def(an, p, aidx[id(s)], name, reader)
        if d is None or not any(x is d for x in defs):
          fails.append(dict(kind='nonlocal-entry-missing', sig='Nonlocal', var=name, stmt=W(),
                            what='value of nonlocal %s on entry is read but the definition of the nonlocal '
                                 'statement is not attached' % name))
      elif owner != reader and name not in info.nonlocals:
        free += 1
        if len(defs) != 0:
          fails.append(dict(kind='closure-read-defs', sig='nonempty', var=name, stmt=W(),
                            what='free variable read in a nested function has non-empty DEFINITIONS missing the writer'))
      else:
        wn = an.nodes[wsid]
        fails.append(dict(kind='callee-nonlocal-write', sig='definitions', var=name, stmt=W(),
                          writer=dfinstr.text(wn),
                          what='%s was last written by "%s" inside a called local function (nonlocal); the read in '
                               '"%s" only has definitions of its own function attached' % (name, dfinstr.text(wn), W())))
    elif k in ('b', 'h'):
      sid, act, bound = e[1], e[2], e[3]
      if bound is None:
        continue
      node = an.nodes[sid]
      if not anno.hasanno(node, anno.Static.DEFINED_VARS_IN):
        continue
      din = set(str(q) for q in anno.getanno(node, anno.Static.DEFINED_VARS_IN))
      fid = act_fid[act]
      checked += 1
      cov['enters'] += 1
      for v in sorted(bound & p.infos[fid].locals):
        if v in din:
          continue
        lw = last.get((fid, act, v))
        if lw is not None and lw[1] != act:
          fails.append(dict(kind='callee-nonlocal-write', sig='defined-in', var=v, stmt=dfinstr.text(node),
                            writer=dfinstr.text(an.nodes[lw[0]]),
                            what='%s is bound (by a called local function declaring it nonlocal) when "%s" is '
                                 'entered but is not in DEFINED_VARS_IN: the converter overwrites it with Undefined'
                                 % (v, dfinstr.text(node))))
        else:
          fails.append(dict(kind='defined-in-unsound', sig=type(node).__name__, var=v, stmt=dfinstr.text(node),
                            what='%s is bound when "%s" is entered but is not in DEFINED_VARS_IN' % (v, dfinstr.text(node))))
  return checked, fails, free, cov


def check_program(item):
  idx, src, maxlen, cap = item
  res = dict(idx=idx, runs=0, checked=0, free=0, dead=0, failures=[], error=None, cov={})
  try:
    an = dfinstr.analyse(src)
  except Exception as e:
    res['error'] = dfinstr.analysis_error(src, e)
    return res
  try:
    p = dfinstr.instrument(src)
  except dfinstr.Unsupported as e:
    res['error'] = dict(kind='generator-bug', sig='unsupported', what='instrumenter: %s' % e)
    return res
  if not dfinstr.match_trees(an, p):
    res['error'] = dict(kind='oracle-gap', sig='tree-mismatch', what='node numbering differs between the two parses')
    return res
  seen = set()

  def add(f, bits):
    key = (f['kind'], f['sig'])
    if key in seen:
      return
    seen.add(key)
    f = dict(f)
    f['decisions'] = list(bits)
    res['failures'].append(f)
  for f in static_checks(an, p):
    add(f, ())

  def run(bits):
    log, used, outcome = dfinstr.run(p, bits)
    res['runs'] += 1
    res['dead'] += 1 if log.dead or (outcome[0] == 'raise' and outcome[1] != 'ValueError') else 0
    n, fails, free, cov = check_run(an, p, log)
    res['checked'] += n
    for ck, cv in cov.items():
      res['cov'][ck] = res['cov'].get(ck, 0) + cv
    res['free'] += free
    for f in fails:
      add(f, bits)
    return used
  harness.adaptive_vectors(run, max_len=maxlen, cap=cap)
  return res


def main():
  ap = argparse.ArgumentParser()
  ap.add_argument('seed', type=int)
  ap.add_argument('tier')
  ap.add_argument('--avoid', default='D1,D2,D6')
  ap.add_argument('--k', type=int, default=None)
  ap.add_argument('--random', type=int, default=None)
  ap.add_argument('--maxfail', type=int, default=10)
  a = ap.parse_args()
  avoid = tuple(x for x in a.avoid.split(',') if x)
  thorough = a.tier == 'thorough'
  K = a.k if a.k is not None else (3 if thorough else 2)
  nrand = a.random if a.random is not None else (12000 if thorough else 1000)
  items = []
  wit = [('known-D1', D1_WITNESS), ('callee-nonlocal-write', CALLEE_WITNESS), ('callee-nonlocal-write', CALLEE_WITNESS_2)]
  for _, src in wit:
    items.append((len(items), src, 4, 16))
  nwit = len(items)
  for tree in progen.skeletons(K):
    items.append((len(items), progen.skeleton_program(tree, avoid), 7, 48))
  nskel = len(items) - nwit
  for i in range(nrand):
    items.append((len(items), progen.random_program(a.seed * 1000003 + i, size=2 + (i % 5), avoid=avoid), 6, 32))
  # an extra block: programs in which an inner try raises an exception that only an ENCLOSING try handles (the
  # definitions current at the raise must reach the outer handler), opt-in family 'outerraise' of progen
  nouter = nrand // 4
  for i in range(nouter):
    items.append((len(items), progen.random_program(a.seed * 9000011 + i, size=2 + (i % 4), avoid=avoid, features=('outerraise',)), 6, 32))
  # one more: programs that delete an ELEMENT of the list parameter (`del a[0]` does not redefine `a`), family 'delitem'
  for i in range(nrand // 6):
    items.append((len(items), progen.random_program(a.seed * 7000003 + i, size=2 + (i % 4), avoid=avoid, features=('delitem',)), 6, 32))
  # and: try / except / else / finally with an assignment and a jump in the else clause, family 'tryelse'
  for i in range(nrand // 5):
    items.append((len(items), progen.random_program(a.seed * 3000017 + i, size=2 + (i % 4), avoid=avoid, features=('tryelse',)), 6, 32))
  runs = checked = free = dead = nontrivial = errors = 0
  best = {}        # kind:sig -> failure with the smallest program
  counts, cov = {}, {}
  seen, samples = set(), []
  for r in harness.pool_map(check_program, items, chunksize=4):
    src = items[r['idx']][1]
    runs += r['runs']
    checked += r['checked']
    free += r['free']
    dead += r['dead']
    for ck, cv in r['cov'].items():
      cov[ck] = cov.get(ck, 0) + cv
    h = hashlib.sha1(src.encode()).hexdigest()
    if r['checked'] >= 5 and h not in seen:
      seen.add(h)
      nontrivial += 1
    fl = list(r['failures'])
    if r['error']:
      errors += 1
      fl.append(r['error'])
    for f in fl:
      f = dict(f)
      if r['idx'] < nwit and wit[r['idx']][0] == 'known-D1':
        f['detail'] = '%s:%s' % (f['kind'], f['sig'])
        f['kind'], f['sig'] = 'known-D1', 'for-target-killed-on-exit-edge'
      key = '%s:%s' % (f['kind'], f['sig'])
      counts.setdefault(key, set()).add(r['idx'])
      body = src[src.index('def f('):]
      f['program'] = body
      if key not in best or len(body) < len(best[key]['program']):
        best[key] = f
    if len(samples) < 2 and r['checked'] >= 20 and r['idx'] >= nwit + nskel:
      samples.append(src[src.index('def f('):][-600:])
  failures = []
  for key in sorted(best):
    f = best[key]
    f['programs_failing'] = len(counts[key])
    failures.append(f)
  harness.emit(dict(
      evaluated=checked, runs=runs, programs=len(items), skeleton_programs=nskel, random_programs=nrand,
      witness_programs=nwit, distinct_nontrivial=nontrivial, runs_ended_by_implicit_exception=dead,
      closure_free_reads=free, analysis_errors=errors, coverage=cov, K=K, avoid=list(avoid),
      rule='progen.skeletons(K=%d) + %d progen.random_program(seed*1000003+i, size 2..6, avoid=%s) + 3 witness '
           'programs, each run under harness.adaptive_vectors decision vectors (len<=7/6, <=48/32 per program); '
           'evaluated = read events + compound-statement entries checked against DEFINITIONS / DEFINED_VARS_IN; '
           'non-trivial = distinct program with >= 5 checked events; fixed point checked once per CFG; failures '
           'are deduplicated per kind:sig keeping the smallest failing program' % (K, nrand, ','.join(avoid)),
      samples=samples, failures=failures[:a.maxfail]))


if __name__ == '__main__':
  main()
