"""C01 bounded stand-in: converted function (default operators) is observationally identical to the
original, over bounded-exhaustive skeletons + seeded random programs x decision vectors.

usage: c01_diff.py <seed> <tier> [--avoid D1,D2,D6] [--k K] [--random N] [--options plain|builtins|eq|norec]
Prints one JSON line: evaluated, programs, distinct_nontrivial, failures[], samples[].
"""
import argparse
import hashlib
import os
import sys
import traceback

sys.path.insert(0, os.path.dirname(os.path.abspath(__file__)))
import harness
import progen

import malt
from malt.core import converter


def conv(fn, optname):
  feats = {'plain': None, 'builtins': converter.Feature.BUILTIN_FUNCTIONS,
           'eq': converter.Feature.EQUALITY_OPERATORS,
           'both': (converter.Feature.BUILTIN_FUNCTIONS, converter.Feature.EQUALITY_OPERATORS)}
  if optname == 'norec':
    return malt.to_graph(fn, recursive=False, experimental_optional_features=None)
  if optname == 'decorator':
    return malt.convert(recursive=True, optional_features=None)(fn)
  return malt.to_graph(fn, recursive=True, experimental_optional_features=feats[optname])


def check_program(item):
  idx, src, optname, maxlen = item
  name = 'vp_c01_%d_%d' % (os.getpid(), idx)
  res = dict(idx=idx, runs=0, nontrivial=False, failure=None, src=None, ops=0)
  try:
    mod = harness.load_source(src, name)
  except SyntaxError as e:
    res['failure'] = dict(kind='generator-bug', what=str(e))
    res['src'] = src
    return res
  try:
    try:
      g = conv(mod.f, optname)
    except Exception as e:
      res['failure'] = dict(kind='conversion-error', what='%s: %s' % (type(e).__name__, str(e)[:300]))
      res['src'] = src
      return res
    state = {}

    def run(bits):
      o1 = harness.observe(mod.f, mod, bits)
      o2 = harness.observe(g, mod, bits)
      res['runs'] += 1
      if len(o1['events']) > 3:
        res['nontrivial'] = True
      implicit = o1['outcome'][0] == 'raise' and o1['outcome'][1] != 'ValueError'
      if implicit:
        # implicit exceptions are outside the modelled control flow (documented): what finally blocks
        # observe afterwards may differ; the escaping exception type must still agree
        same = o1['outcome'] == o2['outcome']
      else:
        same = (o1['outcome'], o1['events'], o1['a'], o1['G']) == (o2['outcome'], o2['events'], o2['a'], o2['G'])
      if res['failure'] is None and not same:
        res['failure'] = dict(kind='observable-difference', decisions=list(bits), original=_short(o1),
                              converted=_short(o2), options=optname)
        res['src'] = src
      return o1['used']
    harness.adaptive_vectors(run, max_len=maxlen, cap=40)
  finally:
    harness.unload(name)
  return res


def _short(o):
  d = dict(o)
  d['events'] = d['events'][:40]
  return d


def main():
  ap = argparse.ArgumentParser()
  ap.add_argument('seed', type=int)
  ap.add_argument('tier')
  ap.add_argument('--avoid', default='D1,D2')
  ap.add_argument('--k', type=int, default=None)
  ap.add_argument('--random', type=int, default=None)
  ap.add_argument('--options', default='plain,builtins,eq,norec,decorator')
  ap.add_argument('--maxfail', type=int, default=12)
  a = ap.parse_args()
  avoid = tuple(x for x in a.avoid.split(',') if x)
  thorough = a.tier == 'thorough'
  K = a.k if a.k is not None else (3 if thorough else 2)
  nrand = a.random if a.random is not None else (12000 if thorough else 1200)
  opts = a.options.split(',')
  items = []
  idx = 0
  nskel = 0
  for tree in progen.skeletons(K):
    src = progen.skeleton_program(tree, avoid)
    items.append((idx, src, opts[idx % len(opts)], 7))
    idx += 1
    nskel += 1
  for i in range(nrand):
    size = 2 + (i % 5)
    src = progen.random_program(a.seed * 1000003 + i, size=size, avoid=avoid)
    items.append((idx, src, opts[idx % len(opts)], 6))
    idx += 1
  # an extra block of random programs whose if / else / try bodies and handlers may END in an unconditional return
  # (branches that "definitely return": the return-lowering pass reorders the statements that follow them); half of
  # them also contain a raise that only an enclosing try handles
  ndef = nrand // 3
  for i in range(ndef):
    size = 2 + (i % 4)
    src = progen.random_program(a.seed * 7000003 + i, size=size, avoid=avoid,
                                features=('defret',) if i % 2 else ('defret', 'outerraise'))
    items.append((idx, src, opts[idx % len(opts)], 6))
    idx += 1
  programs = runs = nontrivial = 0
  failures, samples = [], []
  seen = set()
  for r in harness.pool_map(check_program, items, chunksize=2):
    programs += 1
    runs += r['runs']
    h = hashlib.sha1(items[r['idx']][1].encode()).hexdigest()
    if r['nontrivial'] and h not in seen:
      seen.add(h)
      nontrivial += 1
    if r['failure'] and len(failures) < a.maxfail:
      f = dict(r['failure'])
      f['program'] = r['src']
      failures.append(f)
    if len(samples) < 2 and r['nontrivial'] and r['idx'] >= nskel:
      samples.append(items[r['idx']][1][-600:])
  harness.emit(dict(evaluated=runs, programs=programs, skeleton_programs=nskel, random_programs=nrand, definitely_returning_programs=ndef,
                    distinct_nontrivial=nontrivial, K=K, options=opts, avoid=list(avoid),
                    failures=failures, samples=samples))


if __name__ == '__main__':
  main()
