"""C08 bounded stand-in: scope (activity) analysis matches Python's own binding rules.

usage: c08_activity.py <seed> <tier> [--static N] [--random N] [--k K] [--no-shrink]

Clause 1 (static).  For every function / lambda of a generated module the view of
`activity.resolve` is compared with CPython's `symtable.symtable(source)`:

  parameters     SCOPE(node.args).params                        == symtable parameters
  locals         simple(AB.bound) - AB.globals - AB.nonlocals    == symtable is_local()
  body-bound     simple(BODY.bound) - globals - nonlocals        == local and (assigned or imported)
  globals        AB.globals                                      == is_declared_global()
  nonlocals      AB.nonlocals                                    == is_nonlocal()
  free           simple(AB.read - AB.bound)   with   lower <= free <= upper, where
                   lower = (is_free() - own nonlocal declarations) | own implicit globals referenced
                   upper = is_free() | every global name of the function or of a scope nested in it
  (AB = NodeAnno.ARGS_AND_BODY_SCOPE, BODY = NodeAnno.BODY_SCOPE.)  Why an interval for `free`: the
  analysis cannot tell a closure variable from a global / builtin (it never sees the module), and it
  passes what nested scopes use on to the enclosing function; CPython only assigns closure variables
  (and the function's own implicit globals) to a function.  The property demands that every name CPython
  makes free is reported, and that nothing local / unrelated is.  Names a function itself declares
  nonlocal are compared through `nonlocals` (the analysis keeps them in `bound`).
  read           names loaded by the function's own code (is_referenced(); AST for names that are also
                 comprehension targets)                                   <= simple(AB.read)
  Comprehension targets that occur nowhere else in the function and except-clause names are removed from
  both sides (the property excepts them).  A comprehension target that is also mentioned outside the
  comprehension's scope - in particular in the comprehension's own FIRST iterable, which is evaluated in
  the enclosing scope: `x = [x + 1 for x in x]`, `sum(k for k in range(k))` - stays compared.

Clause 2 (dynamic).  progen programs (skeletons + seeded random) are run from an instrumented copy, for
decision vectors from harness.adaptive_vectors.  Every simple statement inside a function is wrapped in
    c08s_ = c08pre_(k, locals());  try: <stmt with every Name load x replaced by c08ld_(k, 'x', x)>
    finally: c08post_(k, c08s_, locals())
A logged load must be in SCOPE(stmt).read; a name whose binding differs (identity) or vanished between
the two snapshots must be in SCOPE(stmt).modified | .deleted.  No false alarms from callees: loads are
only wrapped in the statement's own frame (lambda bodies are callee frames; comprehension targets are
skipped), and when an instrumented function was entered while the statement ran, names that some
function declares nonlocal / global are not compared (a callee can rebind a caller's variable only so).

Recorded defects are routed to explicit witnesses (kind known-D6, known-D7; the other genuine mismatches
found on the pinned tree: kind static-mismatch with a descriptive sig, see WITNESSES).  A witness that
fails switches the corresponding trigger off in the default space (feature) or, where the trigger cannot
be generated away (D7: every nested def with a parameter), excuses exactly the names the defect can
touch (mask).  A witness that passes (defect repaired) switches the feature on / the mask off.
"""
import argparse
import ast
import hashlib
import os
import random
import shutil
import symtable
import sys
import time
import traceback
import warnings

warnings.simplefilter('ignore', SyntaxWarning)
sys.path.insert(0, os.path.dirname(os.path.abspath(__file__)))
import harness
import progen

from malt.pyct import anno
from malt.pyct import naming
from malt.pyct import qual_names
from malt.pyct import transformer
from malt.pyct.static_analysis import activity
from malt.pyct.static_analysis import annos

NA = annos.NodeAnno
FUNCS = (ast.FunctionDef, ast.AsyncFunctionDef, ast.Lambda)
COMPS = (ast.ListComp, ast.SetComp, ast.DictComp, ast.GeneratorExp)


# ====================================================================== running the analysis

def analyze(src):
  node = ast.parse(src)
  info = transformer.EntityInfo(name='m', source_code=src, source_file=None, future_features=(),
                                namespace={})
  node = qual_names.resolve(node)
  ctx = transformer.Context(info, naming.Namer({}), None)
  return activity.resolve(node, ctx)


def simple(qns):
  return set(str(q) for q in qns if q.is_simple() and q.is_symbol())


def fkey(n):
  return (getattr(n, 'name', 'lambda'), n.lineno)


# ====================================================================== symtable side

def sym_index(table, out):
  for c in table.get_children():
    if c.get_type() == 'function' and c.get_name() not in ('genexpr', 'listcomp', 'setcomp', 'dictcomp'):
      k = (c.get_name(), c.get_lineno())
      out[k] = None if k in out else c      # None = ambiguous (two lambdas on a line): not compared
    sym_index(c, out)
  return out


def all_globals(table):
  g = set(s.get_name() for s in table.get_symbols() if s.is_global())
  for c in table.get_children():
    g |= all_globals(c)
  return g


# ====================================================================== AST helpers

def own_region(fn):
  """Nodes evaluated in fn's own scope: its body, plus decorators / defaults / annotations / bases of
  nested scopes, not their bodies or parameter lists."""
  stack = list(fn.body) if isinstance(fn.body, list) else [fn.body]
  while stack:
    n = stack.pop()
    yield n
    if isinstance(n, FUNCS):
      a = n.args
      stack.extend(d for d in a.defaults + a.kw_defaults if d is not None)
      for p in a.posonlyargs + a.args + a.kwonlyargs + [a.vararg, a.kwarg]:
        if p is not None and p.annotation is not None:
          stack.append(p.annotation)
      if not isinstance(n, ast.Lambda):
        stack.extend(n.decorator_list)
        if n.returns is not None:
          stack.append(n.returns)
    elif isinstance(n, ast.ClassDef):
      stack.extend(n.decorator_list + n.bases + [k.value for k in n.keywords])
    else:
      stack.extend(ast.iter_child_nodes(n))


def stored_names(target):
  return set(n.id for n in ast.walk(target) if isinstance(n, ast.Name) and isinstance(n.ctx, ast.Store))


def comp_targets(node):
  out = set()
  for g in node.generators:
    out |= stored_names(g.target)
  return out


def unshadowed(fn):
  """(names, loads): the simple names that occur in fn's own region at a place where no comprehension
  target of that name is in scope, in any role / as a load.  The first iterable of a comprehension is
  evaluated in the enclosing scope: `[x + 1 for x in x]` reads the enclosing x once (the iterable); every
  other mention of x belongs to the comprehension."""
  names, loads = set(param_names(fn)) if getattr(fn, 'args', None) is not None else set(), set()

  def visit(n, shadow):
    if n is None:
      return
    if isinstance(n, list):
      for m in n:
        visit(m, shadow)
    elif isinstance(n, ast.Name):
      if n.id not in shadow:
        names.add(n.id)
        if isinstance(n.ctx, ast.Load):
          loads.add(n.id)
    elif isinstance(n, COMPS):
      gens = n.generators
      visit(gens[0].iter, shadow)
      inner = shadow | comp_targets(n)
      visit(gens[0].target, inner)
      visit(gens[0].ifs, inner)
      for g in gens[1:]:
        visit(g.iter, inner)
        visit(g.target, inner)
        visit(g.ifs, inner)
      if isinstance(n, ast.DictComp):
        visit(n.key, inner)
        visit(n.value, inner)
      else:
        visit(n.elt, inner)
    elif isinstance(n, FUNCS):
      a = n.args
      visit(a.defaults, shadow)
      visit(a.kw_defaults, shadow)
      for q in a.posonlyargs + a.args + a.kwonlyargs + [a.vararg, a.kwarg]:
        if q is not None:
          visit(q.annotation, shadow)
      if not isinstance(n, ast.Lambda):
        visit(n.decorator_list, shadow)
        visit(n.returns, shadow)
        names.add(n.name)
    elif isinstance(n, ast.ClassDef):
      visit(n.decorator_list, shadow)
      visit(n.bases, shadow)
      visit([k.value for k in n.keywords], shadow)
      names.add(n.name)
    elif isinstance(n, (ast.Global, ast.Nonlocal)):
      names.update(n.names)
    elif isinstance(n, ast.alias):
      names.add((n.asname or n.name).split('.')[0])
    else:
      visit(list(ast.iter_child_nodes(n)), shadow)
  visit(fn.body, frozenset())
  return names, loads


def excepted_names(fn):
  """Comprehension targets that occur nowhere else in the function, and except-clause names."""
  out = set()
  for n in own_region(fn):
    if isinstance(n, ast.comprehension):
      out |= stored_names(n.target)
  out -= unshadowed(fn)[0]
  for n in own_region(fn):
    if isinstance(n, ast.ExceptHandler) and n.name:
      out.add(n.name)
  return out


def all_comp_targets(fn):
  out = set()
  for n in own_region(fn):
    if isinstance(n, ast.comprehension):
      out |= stored_names(n.target)
  return out


def param_names(fn):
  a = fn.args
  return [p.arg for p in a.posonlyargs + a.args + a.kwonlyargs + [a.vararg, a.kwarg] if p is not None]


def mask_nested_params(fn, cat):
  """D7 puts the parameters of a def / lambda into `bound` of the scope that defines it: extra locals can
  only be parameters of functions defined in fn's own region; a free variable can go missing in fn or,
  through `read - bound` of a function in between, anywhere below."""
  out = set()
  nodes = ast.walk(fn) if cat == 'free' else own_region(fn)
  for n in nodes:
    if n is not fn and isinstance(n, FUNCS):
      out |= set(param_names(n))
  return out


def mask_nested_declared(fn, cat):
  """Names declared nonlocal by a function nested in fn."""
  out = set()
  for n in ast.walk(fn):
    if n is not fn and isinstance(n, FUNCS + (ast.ClassDef,)):
      for m in ast.walk(n):
        if isinstance(m, ast.Nonlocal):
          out |= set(m.names)
  return out


def mask_class_bound(fn, cat):
  """Names bound directly in a class body nested anywhere in fn."""
  out = set()
  for n in ast.walk(fn):
    if isinstance(n, ast.ClassDef):
      holder = ast.Lambda(args=None, body=n.body)
      for m in own_region(holder):
        if isinstance(m, ast.Name) and isinstance(m.ctx, (ast.Store, ast.Del)):
          out.add(m.id)
        elif isinstance(m, (ast.FunctionDef, ast.AsyncFunctionDef, ast.ClassDef)):
          out.add(m.name)
        elif isinstance(m, ast.alias):
          out.add((m.asname or m.name).split('.')[0])
  return out


# ====================================================================== clause 1: one module

MASKS = {'D7': mask_nested_params, 'nested-declared': mask_nested_declared, 'class-shadow': mask_class_bound}
# which mismatch (category, direction) a mask may excuse
MASK_SCOPE = {'D7': {('locals', 'extra'), ('body-bound', 'extra'), ('free', 'missing')},
              'nested-declared': {('free', 'missing')},
              'class-shadow': {('free', 'missing')}}


def enclosing_comp_targets(n, parents):
  """Targets of the comprehensions a function sits in (a lambda in a comprehension reads them as closure
  variables; the analysis suppresses every read of a comprehension target: excepted by the property)."""
  out = set()
  p = parents.get(id(n))
  while p is not None:
    if isinstance(p, COMPS):
      for g in p.generators:
        out |= stored_names(g.target)
    p = parents.get(id(p))
  return out


def compare_function(n, tab, parents):
  """-> list of (category, direction, names)"""
  AB = anno.getanno(n, NA.ARGS_AND_BODY_SCOPE)
  BODY = anno.getanno(n, NA.BODY_SCOPE)
  ARGS = anno.getanno(n.args, anno.Static.SCOPE)
  exc = excepted_names(n) | enclosing_comp_targets(n, parents)
  a_glob, a_nl = simple(AB.globals), simple(AB.nonlocals)
  a_loc = simple(AB.bound) - a_glob - a_nl - exc
  a_body = simple(BODY.bound) - a_glob - a_nl - exc
  a_par = simple(ARGS.params.keys())
  a_free = simple(AB.read - AB.bound) - exc
  a_read = simple(AB.read)
  syms = tab.get_symbols()
  s_par = set(s.get_name() for s in syms if s.is_parameter())
  s_loc = set(s.get_name() for s in syms if s.is_local()) - exc
  s_body = set(s.get_name() for s in syms if s.is_local() and (s.is_assigned() or s.is_imported())) - exc
  s_glob = set(s.get_name() for s in syms if s.is_declared_global())
  s_nl = set(s.get_name() for s in syms if s.is_nonlocal())
  s_free = set(s.get_name() for s in syms if s.is_free())
  s_impl = set(s.get_name() for s in syms
               if s.is_global() and not s.is_declared_global() and s.is_referenced())
  lower = ((s_free - s_nl) | s_impl) - exc
  # names the function's own code loads: symtable's is_referenced(); for a name that is also a comprehension
  # target symtable merges the uses inside the (inlined) comprehension, so those are decided on the AST
  ct = all_comp_targets(n)
  s_read = (set(s.get_name() for s in syms if s.is_referenced()) - ct) | (unshadowed(n)[1] & ct)
  s_read -= exc
  upper = s_free | all_globals(tab)
  out = []
  for cat, a, s in (('params', a_par, s_par), ('locals', a_loc, s_loc), ('body-bound', a_body, s_body),
                    ('globals', a_glob, s_glob), ('nonlocals', a_nl, s_nl)):
    if a - s:
      out.append((cat, 'extra', a - s))
    if s - a:
      out.append((cat, 'missing', s - a))
  if s_read - a_read:
    out.append(('read', 'missing', s_read - a_read))
  if lower - a_free:
    out.append(('free', 'missing', lower - a_free))
  if a_free - upper:
    out.append(('free', 'extra', a_free - upper))
  return out


def check_source_static(src, masks=(), only_within=None):
  """-> dict(funcs=[(hash, nnames)], mismatches=[...], masked={label: n}, crash=None|str)"""
  res = dict(funcs=[], mismatches=[], masked={}, crash=None, skipped=0)
  try:
    table = symtable.symtable(src, '<c08>', 'exec')
  except SyntaxError as e:
    res['crash'] = 'generator-bug: %s' % e
    return res
  try:
    tree = analyze(src)
  except Exception as e:
    tb = traceback.extract_tb(sys.exc_info()[2])
    where = [f for f in tb if 'malt' in f.filename]
    loc = where[-1].name if where else '?'
    res['crash'] = 'analysis-crash:%s:%s: %s' % (type(e).__name__, loc, str(e)[:160])
    return res
  idx = sym_index(table, {})
  lines = src.split('\n')
  parents = {}
  for p in ast.walk(tree):
    for c in ast.iter_child_nodes(p):
      parents[id(c)] = p
  root = tree
  if only_within is not None:
    root = [n for n in tree.body if isinstance(n, ast.FunctionDef) and n.name == only_within][0]
  for n in ast.walk(root):
    if not isinstance(n, (ast.FunctionDef, ast.Lambda)):
      continue
    tab = idx.get(fkey(n))
    if tab is None:
      res['skipped'] += 1
      continue
    seg = '\n'.join(lines[n.lineno - 1:n.end_lineno]) + '@%d' % n.col_offset
    res['funcs'].append((hashlib.sha1(seg.encode()).hexdigest()[:16], len(tab.get_symbols())))
    try:
      diffs = compare_function(n, tab, parents)
    except Exception as e:      # e.g. a function node the analysis never reached: no scope annotation
      diffs = [('scope-annotation', 'missing', set(['%s: %s' % (type(e).__name__, str(e)[:80])]))]
    for cat, direction, names in diffs:
      used = []
      rest = set(names)
      for label in masks:
        if (cat, direction) in MASK_SCOPE[label] and rest:
          m = MASKS[label](n, cat)
          if rest & m:
            used.append(label)
            rest -= m
      if rest:
        res['mismatches'].append(dict(cat=cat, dir=direction, names=sorted(rest), fn=fkey(n)[0], line=n.lineno))
      else:
        for label in used:
          res['masked'][label] = res['masked'].get(label, 0) + 1
  return res


# ====================================================================== clause 1: generator

POOL = ['v0', 'v1', 'v2', 'v3', 'v4']
GLOB = ['G0', 'G1']
BUILTIN = ['len', 'int', 'range']
COMPV = ['t0', 't1', 't2']
EXCV = ['e0', 'e1']
ATTR = ['a', 'b']
ALL_FEATURES = ('except_as', 'walrus_in_comp', 'arg_annotations')


class SGen(object):
  """Random modules for the static clause.  They are never executed: only syntactic validity matters
  (checked with compile(); invalid candidates are re-drawn)."""

  def __init__(self, rnd, features):
    self.r = rnd
    self.features = set(features)
    self.nf = 0
    self.nc = 0
    self.fstack = []        # per enclosing function: set of names it (probably) binds

  # ------------------------------------------------------------ expressions
  def name(self):
    x = self.r.random()
    if x < 0.75:
      return self.r.choice(POOL)
    if x < 0.9:
      return self.r.choice(GLOB)
    return self.r.choice(BUILTIN)

  def bind(self, v):
    if self.fstack and self.fstack[-1] is not None:
      self.fstack[-1].add(v)
    return v

  def expr(self, d=0, comp=(), nowalrus=False):
    r = self.r.random()
    if d >= 3 or r < 0.28:
      if comp and self.r.random() < 0.5:
        return self.r.choice(comp)
      return self.name()
    d += 1
    if r < 0.34:
      return str(self.r.randint(0, 3))
    if r < 0.42:
      return '(%s + %s)' % (self.expr(d, comp, nowalrus), self.expr(d, comp, nowalrus))
    if r < 0.50:
      args = [self.expr(d, comp, nowalrus) for _ in range(self.r.randint(0, 2))]
      if self.r.random() < 0.2:
        args.append('*' + self.expr(d, comp, nowalrus))
      if self.r.random() < 0.3:
        args.append('%s=%s' % (self.r.choice(['k', 'v0', 'v1']), self.expr(d, comp, nowalrus)))
      if self.r.random() < 0.15:
        args.append('**' + self.expr(d, comp, nowalrus))
      return '%s(%s)' % (self.name(), ', '.join(args))
    if r < 0.56:
      return '%s.%s' % (self.name(), self.r.choice(ATTR))
    if r < 0.63:
      k = self.r.random()
      if k < 0.3:
        return '%s[%d]' % (self.name(), self.r.randint(0, 2))
      if k < 0.6:
        return '%s[%s]' % (self.name(), self.name())
      if k < 0.8:
        return '%s[%s:%s]' % (self.name(), self.expr(d, comp, nowalrus), self.expr(d, comp, nowalrus))
      return '%s[%s, %s]' % (self.name(), self.name(), self.expr(d, comp, nowalrus))
    if r < 0.68:
      return '(%s if %s else %s)' % (self.expr(d, comp, nowalrus), self.expr(d, comp, nowalrus), self.expr(d, comp, nowalrus))
    if r < 0.76:
      return self.lambda_(d, comp)
    if r < 0.86:
      return self.comprehension(d, comp)
    if r < 0.90 and not nowalrus and (not comp or 'walrus_in_comp' in self.features):
      v = self.r.choice(POOL)
      if v in comp:
        return self.name()
      if not comp:
        self.bind(v)
      return '(%s := %s)' % (v, self.expr(d, comp, nowalrus))
    if r < 0.93:
      return "f'{%s}x{%s!r}'" % (self.name(), self.name())
    if r < 0.96:
      return '(%s, [%s], {%s: %s})' % (self.expr(d, comp, nowalrus), self.expr(d, comp, nowalrus), self.name(), self.name())
    return '(%s < %s and not %s)' % (self.expr(d, comp, nowalrus), self.name(), self.name())

  def lambda_(self, d, comp):
    # every lambda starts its own line, so (name, lineno) identifies it in symtable
    self.fstack.append(set())
    params = self.params(d, comp, ann=False)
    body = self.expr(d, comp)
    self.fstack.pop()
    return '(\nlambda %s: %s)' % (params, body)

  def comprehension(self, d, comp):
    ngen = 1 if self.r.random() < 0.7 else 2
    avail = [t for t in COMPV if t not in comp]
    if len(avail) < ngen:
      return self.name()
    tg = self.r.sample(avail, ngen)
    inner = tuple(comp)
    gens = []
    # a target named like a variable of the enclosing scope, mentioned in the comprehension's own first
    # iterable (evaluated outside the comprehension): `[v0 + 1 for v0 in v0]`, `sum(v1 for v1 in range(v1))`
    shadow = None
    if self.r.random() < 0.3:
      cands = [v for v in POOL + GLOB if v not in comp]
      if cands:
        shadow = self.r.choice(cands)
        tg[0] = shadow
    for i, t in enumerate(tg):
      it = self.expr(d + 1, inner, nowalrus=True)
      if i == 0 and shadow is not None:
        it = self.r.choice(['%s', '%s.a', 'range(%s)', '%s.items()', '[%s, ' + it + ']', '(%s + ' + it + ')',
                            it + '[%s]']) % shadow
      elif i > 0 and shadow is not None and self.r.random() < 0.4:
        it = 'range(%s)' % shadow           # inside the comprehension: this is the target, not the variable
      tgt = t
      if i == 0 and self.r.random() < 0.2 and len(avail) > ngen:
        t2 = [x for x in avail if x not in tg][0]
        tgt = '(%s, %s)' % (t, t2)
        inner = inner + (t2,)
      inner = inner + (t,)
      g = 'for %s in %s' % (tgt, it)
      if self.r.random() < 0.3:
        g += ' if %s' % self.expr(d + 1, inner)
      gens.append(g)
    elt = self.expr(d + 1, inner)
    k = self.r.random()
    if k < 0.4:
      return '[%s %s]' % (elt, ' '.join(gens))
    if k < 0.55:
      return '{%s %s}' % (elt, ' '.join(gens))
    if k < 0.75:
      return '{%s: %s %s}' % (elt, self.expr(d + 1, inner), ' '.join(gens))
    return 'sum(%s %s)' % (elt, ' '.join(gens))

  def params(self, d, comp, ann):
    names = POOL + ['p0', 'p1', 'p2', 'self']
    self.r.shuffle(names)
    names = list(names)
    out = []

    def one(star='', default_ok=True, force_default=False):
      p = names.pop()
      self.bind(p)
      s = star + p
      if ann and 'arg_annotations' in self.features and self.r.random() < 0.3:
        s += ': %s' % self.r.choice(['int', 'G0', self.name()])
        eq = ' = '
      else:
        eq = '='
      if default_ok and (force_default or self.r.random() < 0.35):
        self.fstack.append(None)      # defaults are evaluated outside: bindings (walrus) are not ours
        s += eq + self.expr(max(d, 1) + 1, comp, nowalrus=True)
        self.fstack.pop()
        return s, True
      return s, False
    had_default = False
    npos = self.r.choice([0, 0, 1, 2])
    for _ in range(npos):
      s, dflt = one(force_default=had_default)
      had_default |= dflt
      out.append(s)
    if npos:
      out.append('/')
    for _ in range(self.r.choice([0, 1, 1, 2])):
      s, dflt = one(force_default=had_default)
      had_default |= dflt
      out.append(s)
    k = self.r.random()
    if k < 0.3:
      out.append(one('*', default_ok=False)[0])
      for _ in range(self.r.choice([0, 1, 2])):
        out.append(one()[0])
    elif k < 0.5:
      out.append('*')
      for _ in range(self.r.choice([1, 2])):
        out.append(one()[0])
    if self.r.random() < 0.25:
      out.append(one('**', default_ok=False)[0])
    return ', '.join(out)

  # ------------------------------------------------------------ targets
  def target(self, d=0, simple_only=False):
    r = self.r.random()
    if simple_only or r < 0.55:
      return self.bind(self.r.choice(POOL + GLOB[:1]))
    if r < 0.67:
      return '%s.%s' % (self.name(), self.r.choice(ATTR))
    if r < 0.75:
      return '%s[%s]' % (self.name(), self.r.choice(['0', self.name(), self.expr(2, nowalrus=True)]))
    if r < 0.8:
      return '%s.%s[%s]' % (self.name(), self.r.choice(ATTR), self.name())
    if d < 2:
      if r < 0.93:
        return '(%s, %s)' % (self.target(d + 1), self.target(d + 1))
      return '[%s, *%s]' % (self.target(d + 1), self.bind(self.r.choice(POOL)))
    return self.bind(self.r.choice(POOL))

  # ------------------------------------------------------------ statements
  def block(self, ind, depth, in_loop, in_class, n=None):
    out = []
    for _ in range(n or self.r.randint(1, 3)):
      out += self.stmt(ind, depth, in_loop, in_class)
    return out

  def stmt(self, ind, depth, in_loop, in_class):
    r = self.r.random()
    ind2 = ind + '  '
    infn = bool(self.fstack) and not in_class
    if r < 0.16:
      tg = [self.target() for _ in range(1 if self.r.random() < 0.8 else 2)]
      return ['%s%s = %s' % (ind, ' = '.join(tg), self.expr())]
    if r < 0.22:
      t = self.r.choice([self.bind(self.r.choice(POOL)), '%s.%s' % (self.name(), self.r.choice(ATTR)),
                         '%s[%s]' % (self.name(), self.name())])
      return ['%s%s %s= %s' % (ind, t, self.r.choice(['+', '-', '|']), self.expr())]
    if r < 0.26:
      k = self.r.random()
      ann = self.r.choice(['int', self.name()])
      if k < 0.4:
        return ['%s%s: %s' % (ind, self.bind(self.r.choice(POOL)), ann)]
      if k < 0.8:
        return ['%s%s: %s = %s' % (ind, self.bind(self.r.choice(POOL)), ann, self.expr())]
      return ['%s%s.%s: %s = %s' % (ind, self.name(), self.r.choice(ATTR), ann, self.expr())]
    if r < 0.31:
      k = self.r.random()
      if k < 0.5:
        return ['%sdel %s' % (ind, self.bind(self.r.choice(POOL)))]
      if k < 0.7:
        return ['%sdel %s.%s, %s[%s]' % (ind, self.name(), self.r.choice(ATTR), self.name(), self.name())]
      return ['%sdel (%s, %s)' % (ind, self.bind(self.r.choice(POOL)), self.bind(self.r.choice(POOL)))]
    if r < 0.37:
      v = self.r.choice(POOL)
      k = self.r.randint(0, 5)
      self.bind(v if k in (1, 3, 4) else ('os' if k in (0, 2) else 'path'))
      if k == 4:
        self.bind('sep')
      return [ind + ['import os', 'import os.path as %s' % v, 'import os.path', 'from os import path as %s' % v,
                     'from os import path as %s, sep' % v, 'from . import path'][k]]
    if r < 0.42:
      return ['%s%s' % (ind, self.expr())]
    if r < 0.46 and infn:
      return ['%sreturn %s' % (ind, self.expr())]
    if r < 0.48:
      return ['%sassert %s, %s' % (ind, self.expr(1), self.name())]
    if r < 0.50:
      return ['%sraise %s(%s) from %s' % (ind, self.name(), self.name(), self.name())]
    if depth >= 4:
      return ['%spass' % ind]
    if r < 0.56:
      out = ['%sif %s:' % (ind, self.expr(1))] + self.block(ind2, depth + 1, in_loop, in_class)
      if self.r.random() < 0.5:
        out += ['%selse:' % ind] + self.block(ind2, depth + 1, in_loop, in_class)
      return out
    if r < 0.62:
      out = ['%sfor %s in %s:' % (ind, self.target(), self.expr(1))] + self.block(ind2, depth + 1, True, in_class)
      if self.r.random() < 0.3:
        out += ['%s  %s' % (ind, self.r.choice(['break', 'continue']))]
      if self.r.random() < 0.2:
        out += ['%selse:' % ind] + self.block(ind2, depth + 1, in_loop, in_class)
      return out
    if r < 0.66:
      out = ['%swhile %s:' % (ind, self.expr(1))] + self.block(ind2, depth + 1, True, in_class)
      if self.r.random() < 0.2:
        out += ['%selse:' % ind] + self.block(ind2, depth + 1, in_loop, in_class)
      return out
    if r < 0.72:
      items = []
      for _ in range(1 if self.r.random() < 0.75 else 2):
        if self.r.random() < 0.7:
          items.append('%s as %s' % (self.expr(1), self.target()))
        else:
          items.append(self.expr(1))
      return ['%swith %s:' % (ind, ', '.join(items))] + self.block(ind2, depth + 1, in_loop, in_class)
    if r < 0.78:
      out = ['%stry:' % ind] + self.block(ind2, depth + 1, in_loop, in_class)
      k = self.r.random()
      if k < 0.8:
        for _ in range(1 if self.r.random() < 0.7 else 2):
          if 'except_as' in self.features and self.r.random() < 0.6:
            h = 'except %s as %s:' % (self.r.choice(['ValueError', '(%s, %s)' % (self.name(), self.name())]),
                                      self.r.choice(EXCV))
          else:
            h = self.r.choice(['except:', 'except %s:' % self.name()]) if self.r.random() < 0.5 else 'except ValueError:'
          out += [ind + h] + self.block(ind2, depth + 1, in_loop, in_class)
          if h == 'except:':
            break
        if self.r.random() < 0.2:
          out += ['%selse:' % ind] + self.block(ind2, depth + 1, in_loop, in_class)
      if k >= 0.6:
        out += ['%sfinally:' % ind] + self.block(ind2, depth + 1, False, in_class)
      return out
    if r < 0.90:
      return self.funcdef(ind, depth)
    return self.classdef(ind, depth)

  def decorators(self, ind):
    out = []
    for _ in range(self.r.choice([0, 0, 0, 1, 2])):
      if self.r.random() < 0.5:
        out.append('%s@deco' % ind)
      else:
        out.append('%s@deco2(%s)' % (ind, self.expr(2, nowalrus=True)))
    return out

  def funcdef(self, ind, depth, fdepth=None):
    self.nf += 1
    name = self.r.choice(['g%d' % (self.nf % 3)] * 3 + POOL)
    self.bind(name)
    out = self.decorators(ind)
    enclosing = [s for s in self.fstack if s]
    self.fstack.append(set())
    params = self.params(0, (), ann=True)
    pset = set(self.fstack[-1])
    ret = ''
    if self.r.random() < 0.15:
      ret = ' -> %s' % self.name()
    out.append('%sdef %s(%s)%s:' % (ind, name, params, ret))
    ind2 = ind + '  '
    declared = set()
    ndecl0 = len(out)
    if self.r.random() < (0.6 if 'decl_in_blocks' in self.features else 0.25):
      g = [v for v in self.r.sample(POOL + GLOB, 2) if v not in pset][:self.r.choice([1, 2])]
      if g:
        out.append('%sglobal %s' % (ind2, ', '.join(g)))
        declared |= set(g)
    if enclosing and self.r.random() < 0.45:
      pick = enclosing
      if len(enclosing) >= 2 and self.r.random() < 0.5:
        pick = enclosing[:-1]       # prefer a binding further out: the name passes through the function between
      cands = sorted(set().union(*pick) - pset - declared)
      cands = [c for c in cands if c in POOL]
      if cands:
        nl = self.r.sample(cands, min(len(cands), self.r.choice([1, 1, 2])))
        out.append('%snonlocal %s' % (ind2, ', '.join(nl)))
    if 'decl_in_blocks' in self.features and len(out) > ndecl0:
      # opt-in family: the declarations sit in the body (or orelse) block of an if / while / for statement at the head
      # of the function -- CPython applies them to the whole function wherever they stand
      decls = ['  ' + l for l in out[ndecl0:]]
      del out[ndecl0:]
      k = self.r.randint(0, 5)
      cond = self.name()
      hdr = ['if %s:' % cond, 'while %s:' % cond, 'for _it in %s:' % cond][k % 3]
      filler = ['%s  pass' % ind2]
      if k < 3:
        out += ['%s%s' % (ind2, hdr)] + decls + ['%selse:' % ind2] + filler
      else:
        out += ['%s%s' % (ind2, hdr)] + filler + ['%selse:' % ind2] + decls
      if self.r.random() < 0.5:
        # one more level: the whole statement nested in an if body
        blk = out[ndecl0:]
        del out[ndecl0:]
        out += ['%sif %s:' % (ind2, cond)] + ['  ' + l for l in blk]
    body = self.block(ind2, depth + 1, False, False, n=self.r.randint(2, 5))
    out += body
    self.fstack.pop()
    return out

  def classdef(self, ind, depth):
    self.nc += 1
    name = self.r.choice(['C%d' % (self.nc % 2)] * 3 + POOL)
    self.bind(name)
    out = self.decorators(ind)
    bases = []
    if self.r.random() < 0.6:
      bases.append(self.r.choice(['Base', self.name()]))
    if self.r.random() < 0.2:
      bases.append('kw=%s' % self.name())
    out.append('%sclass %s%s:' % (ind, name, '(%s)' % ', '.join(bases) if bases else ''))
    self.fstack.append(None)
    out += self.block(ind + '  ', depth + 1, False, True, n=self.r.randint(1, 4))
    self.fstack.pop()
    return out

  def module(self):
    head = ['G0 = 0', 'G1 = 1', 'def deco(f):', '  return f', 'def deco2(a):', '  return deco',
            'class Base(object):', '  pass']
    out = []
    for _ in range(self.r.choice([1, 1, 2])):
      self.fstack = []
      f = self.funcdef('', 0)
      # seed the outermost function with bindings so nonlocal declarations below are usually valid
      for i, line in enumerate(f):
        if line.startswith('def '):
          seed = self.r.sample(POOL, self.r.randint(1, 3))
          f.insert(i + 1, '  %s = 0' % ' = '.join(seed))
          break
      out += f
    return '\n'.join(head + out) + '\n'


def static_program(seed, features):
  """Deterministic in (seed, features); re-draws until the module compiles."""
  for attempt in range(40):
    rnd = random.Random(seed * 7919 + attempt)
    g = SGen(rnd, features)
    try:
      src = g.module()
      compile(src, '<c08>', 'exec')
      return src, attempt
    except SyntaxError:
      continue
    except RecursionError:
      continue
  return 'def f(v0):\n  return v0\n', 40


# ====================================================================== witnesses of recorded findings

# (id, kind, sig, what, source, (category, direction) expected or 'crash', remedy)
WITNESSES = [
    ('D6', 'known-D6', 'except-as-crashes-visit_ExceptHandler',
     'D6: `except E as e` crashes activity.visit_ExceptHandler (node.name is a str, anno.getanno fails)',
     'def f(v0):\n  try:\n    v0()\n  except ValueError as e0:\n    pass\n  return v0\n',
     'crash', ('feature', 'except_as')),
    ('D7', 'known-D7', 'nested-params-leak-into-enclosing-bound',
     'D7: the parameter of a nested def / lambda is added to the enclosing function\'s `bound` '
     '(visit_arg ignores _track_annotations_only): symtable says p0 is not a local of f',
     'def f(v0):\n  def g(p0):\n    return p0\n  return g\n',
     ('locals', 'extra'), ('mask', 'D7')),
    ('D7b', 'known-D7', 'nested-lambda-param-hides-free-variable',
     'D7: a lambda parameter named like a variable the enclosing function reads from outside removes that '
     'variable from the enclosing function\'s free variables (read - bound): g closes over v0, the analysis says no',
     'def f():\n  v0 = 1\n  def g():\n    h = lambda v0: v0\n    return v0\n  return g\n',
     ('free', 'missing'), ('mask', 'D7')),
    ('N1', 'static-mismatch', 'nonlocal-of-nested-function-not-free-in-function-between',
     'a name that a nested function declares nonlocal (bound two levels up) is a free variable of the function '
     'in between for CPython (co_freevars of g), but Scope.finalize exports read - bound and visit_Nonlocal put '
     'the name into bound: g.read - g.bound misses it (root cause of the fixed D4, still in activity)',
     'def f():\n  v0 = 1\n  def g():\n    def h():\n      nonlocal v0\n      v0 = 2\n    return h\n  return g\n',
     ('free', 'missing'), ('mask', 'nested-declared')),
    ('N2', 'static-mismatch', 'class-attribute-hides-closure-variable-of-method',
     'a class body that binds a name hides the same name used by a method (or generator expression) of the class: '
     'methods skip the class scope, so g closes over f\'s v0, but the class scope exports read - bound',
     'def f():\n  v0 = 1\n  def g():\n    class C0:\n      v0 = 2\n      def m(self):\n        return v0\n'
     '    return C0\n  return g\n',
     ('free', 'missing'), ('mask', 'class-shadow')),
    ('N3', 'static-mismatch', 'walrus-in-comprehension-not-bound-in-function',
     'the target of an assignment expression inside a comprehension is bound in the enclosing function '
     '(PEP 572); _track_symbol treats every Store inside a comprehension as a comprehension target',
     'def f(v0):\n  return [(v1 := t0) for t0 in v0]\n',
     ('locals', 'missing'), ('feature', 'walrus_in_comp')),
    ('N4', 'static-mismatch', 'parameter-annotation-read-in-the-function-not-in-the-defining-scope',
     'a parameter annotation is evaluated where the def statement runs; the analysis skips it there '
     '(_track_annotations_only) and records the read in the function\'s own scope (visit_arg -> generic_visit): '
     'G0 is reported as a free variable of g, CPython has it in f only',
     'def f():\n  def g(p0: G0):\n    return p0\n  return g\n',
     ('free', 'extra'), ('feature', 'arg_annotations')),
]


def run_witness(w):
  wid, kind, sig, what, src, expect, remedy = w
  r = check_source_static(src)
  if expect == 'crash':
    hit = r['crash'] is not None and r['crash'].startswith('analysis-crash')
    detail = r['crash']
  else:
    ms = [m for m in r['mismatches'] if (m['cat'], m['dir']) == expect]
    hit = bool(ms)
    detail = ms[0] if ms else None
    if r['crash']:
      hit, detail = True, r['crash']
  return hit, detail


# ====================================================================== clause 2: instrumentation

SIMPLE = (ast.Assign, ast.AugAssign, ast.AnnAssign, ast.Expr, ast.Return, ast.Delete, ast.Raise, ast.Assert,
          ast.Import, ast.ImportFrom)
HELPERS = ('c08pre_', 'c08post_', 'c08ld_', 'c08enter_', 'c08s_')


# progen has no del / import / global / annotated assignment / walrus / keyword-only parameters: a few
# hand-written programs in the progen interface add those statement kinds to clause 2
EXTRA_PROGRAMS = [progen.HEADER + '''
GV = 0

def f(t, c, a):
  global GV
  import os.path as op, sys
  from os import sep as s2
  x = a[0]
  y: int = x + 1
  z: int
  GV = GV + x
  GV += 1
  if (w := t(1)) and c():
    del x
    x = w
  b = Box()
  b.v = y
  b.v += GV
  a[0] = b.v
  a[1] += 1
  u, (v, *r) = 1, (2, 3, 4)

  def g(p, q=y, *ar, k=u, **kw):
    nonlocal u, v
    global GV
    u = p + q + k + len(ar) + len(kw)
    v += 1
    GV -= 1
    del p
    return u
  z = g(1) + g(2, 3, 5, k=4, j=6)
  lam = lambda m, n=z: m + n + u
  z = lam(t(2))
  assert z, y
  xs = [i + u for i in range(3) if i != v]
  d = {k2: v2 + y for k2, v2 in [(1, 2)]}
  try:
    if c():
      raise ValueError(z)
  except ValueError:
    z = 0
    del d
  with CM(t, 3) as cm:
    z = z + cm
  for i, j in [(1, 2)]:
    z += i + j
    del i, j
  if c():
    del a[0]
    return d
  return (x, y, z, u, v, GV, w, r, xs, op is not None, s2, sys is not None)
''', progen.HEADER + '''
GA = 1
GB = 2

def f(t, c, a):
  x = y = t(1)

  def outer(p, /, q, *, k=x):
    global GA
    m = p + q + k

    def inner(*args, **kw):
      nonlocal m
      global GB
      m += len(args)
      GB = GB + m
      if c():
        del m
        m = 0
      return m + GA
    GA = inner(1, 2) + inner()

    class K(object):
      attr = m

      def meth(self, inc=1):
        self.attr = self.attr + inc + m
        return self.attr
    o = K()
    o.meth()
    o.meth(inc=t(2))
    return o.attr + m
  x = outer(1, 2)
  y = outer(1, q=x, k=y)
  while c():
    x, y = y, x
    x -= 1
  return (x, y, GA, GB)
''']


EXTRA_PROGRAMS.append(progen.HEADER + '''
def f(t, c, a):
  x = a[0]
  y = 2
  k = 3
  w = {1: 2, 3: 4}
  x = [x + 1 for x in [x, y]]
  s = sum(k for k in range(k))
  w = {w: k for w, k in w.items()}
  y = {y for y in (y, k)}
  x = [x + v for x in x for v in range(x)]
  z = [[y for y in x] for x in [x, x]]
  while c():
    k = sum([k for k in [k, 1]])
    if c():
      s = sum(s for s in (s, k))
    else:
      t(len([a for a in a]))
  def g(p):
    q = [p for p in range(p % 3)]
    return sum(p for p in q) + len([k for k in [k]])
  return (x, y, z, s, w, g(k))
''')

SHADOW_TOP = ['{v} = sum([{v} + 1 for {v} in [{v}, {o}]])',
              '{v} = len({{{v} for {v} in ({v}, 2)}}) + {v}',
              '{v} = sum({{{v}: {o} for {v} in range({v} % 3)}})',
              '{v} = sum({v} for {v} in range({v} % 4))',
              '{v} = sum([{v} + u_ for {v} in [{v}, 1] for u_ in range({v} % 3)])',
              'cw_{n} = [u_ for {v} in [{v}] for u_ in range({v} % 2)]',
              'cw_{n} = [[{o} for {o} in [{v}]] for {v} in [{v}, {o}]]',
              'a.append(sum({v} for {v} in [{v}]))']
SHADOW_NESTED = ['cw_{n} = sum([p + 1 for p in [p, 1]])',
                 'cw_{n} = sum(p for p in range(p % 3))',
                 'cw_{n} = {{p: 1 for p in (p, 2)}}',
                 'cw_{n} = [u_ for p in [p] for u_ in range(p % 2)]']


def inject_shadowing(src, rnd):
  """progen never lets a comprehension rebind a name its own iterable mentions.  Insert 1-3 such statements
  (list / set / dict comprehension, generator expression, two generators) at random places of f: straight-line
  code, loop and branch bodies, nested defs (there on the always-bound parameter p, result in a fresh name)."""
  lines = src.split('\n')
  start = lines.index('def f(t, c, a):')
  first = start + 1
  while first < len(lines) and not lines[first].strip().startswith('z = '):
    first += 1
  defs = []
  cands = []
  for i in range(first + 1, len(lines)):
    ln = lines[i]
    if not ln.strip():
      continue
    ind = len(ln) - len(ln.lstrip())
    while defs and defs[-1] >= ind:
      defs.pop()
    if ln.lstrip().split(':')[0].split(' ')[0] not in ('else', 'elif', 'except', 'finally'):
      cands.append((i, ind, bool(defs)))
    if ln.lstrip().startswith('def '):
      defs.append(ind)
  if not cands:
    return src
  picks = sorted(rnd.sample(cands, min(len(cands), rnd.randint(1, 3))), reverse=True)
  for n, (i, ind, nested) in enumerate(picks):
    v, o = rnd.sample(progen.VARS, 2)
    tpl = rnd.choice(SHADOW_NESTED if nested else SHADOW_TOP)
    lines.insert(i, ' ' * ind + tpl.format(v=v, o=o, n=n))
  out = '\n'.join(lines)
  try:
    compile(out, '<c08>', 'exec')
  except SyntaxError:
    return src
  return out


def stmt_key(n):
  return (n.lineno, n.col_offset, type(n).__name__)


def simple_statements(tree):
  """Simple statements that sit in a function body (any depth), in a fixed order."""
  out = []

  def block(stmts, infn):
    for s in stmts:
      if isinstance(s, SIMPLE):
        if infn:
          out.append(s)
      elif isinstance(s, (ast.FunctionDef, ast.AsyncFunctionDef)):
        block(s.body, True)
      elif isinstance(s, ast.ClassDef):
        block(s.body, False)
      else:
        for f in ('body', 'orelse', 'finalbody'):
          block(getattr(s, f, []) or [], infn)
        for h in getattr(s, 'handlers', []) or []:
          block(h.body, infn)
  block(tree.body, False)
  return out


class LoadWrapper(ast.NodeTransformer):
  """Replace every Name load executed in the statement's own frame by c08ld_(k, 'x', x)."""

  def __init__(self, k):
    self.k = k
    self.skip = []

  def visit_Name(self, node):
    if isinstance(node.ctx, ast.Load) and not any(node.id in s for s in self.skip):
      return ast.copy_location(
          ast.Call(func=ast.Name(id='c08ld_', ctx=ast.Load()),
                   args=[ast.Constant(self.k), ast.Constant(node.id), node], keywords=[]), node)
    return node

  def visit_Lambda(self, node):
    a = node.args
    a.defaults = [self.visit(d) for d in a.defaults]
    a.kw_defaults = [None if d is None else self.visit(d) for d in a.kw_defaults]
    return node          # the body runs in a callee frame

  def _comp(self, node):
    # The first iterable is evaluated in the enclosing scope, before the comprehension's own variables
    # exist: a name in it is the enclosing variable even when the comprehension rebinds that name
    # (`x = [x + 1 for x in x]` reads x).  Everything else runs in the comprehension's scope.
    gens = node.generators
    gens[0].iter = self.visit(gens[0].iter)
    self.skip.append(comp_targets(node))
    gens[0].ifs = [self.visit(e) for e in gens[0].ifs]
    for g in gens[1:]:
      g.iter = self.visit(g.iter)
      g.ifs = [self.visit(e) for e in g.ifs]
    if isinstance(node, ast.DictComp):
      node.key = self.visit(node.key)
      node.value = self.visit(node.value)
    else:
      node.elt = self.visit(node.elt)
    self.skip.pop()
    return node

  visit_ListComp = visit_SetComp = visit_DictComp = visit_GeneratorExp = _comp


def instrument(src):
  """-> (instrumented source, {k: meta})"""
  tree = ast.parse(src)
  stmts = simple_statements(tree)
  meta = {}
  ids = {}
  for k, s in enumerate(stmts):
    ids[id(s)] = k
    meta[k] = dict(key=stmt_key(s), kind=type(s).__name__, text=ast.unparse(s)[:120],
                   aug=(s.target.id if isinstance(s, ast.AugAssign) and isinstance(s.target, ast.Name) else None))

  def wrap(s):
    k = ids[id(s)]
    s = LoadWrapper(k).visit(s)
    pre = ast.Assign(targets=[ast.Name(id='c08s_', ctx=ast.Store())],
                     value=ast.Call(func=ast.Name(id='c08pre_', ctx=ast.Load()),
                                    args=[ast.Constant(k), ast.Call(func=ast.Name(id='locals', ctx=ast.Load()), args=[], keywords=[])],
                                    keywords=[]))
    post = ast.Expr(value=ast.Call(func=ast.Name(id='c08post_', ctx=ast.Load()),
                                   args=[ast.Constant(k), ast.Name(id='c08s_', ctx=ast.Load()),
                                         ast.Call(func=ast.Name(id='locals', ctx=ast.Load()), args=[], keywords=[])],
                                   keywords=[]))
    return [pre, ast.Try(body=[s], handlers=[], orelse=[], finalbody=[post])]

  def block(stmts_, infn):
    out = []
    for s in stmts_:
      if isinstance(s, SIMPLE):
        if infn:
          out += wrap(s)
        else:
          out.append(s)
        continue
      if isinstance(s, (ast.FunctionDef, ast.AsyncFunctionDef)):
        s.body = [ast.Expr(value=ast.Call(func=ast.Name(id='c08enter_', ctx=ast.Load()), args=[], keywords=[]))] + block(s.body, True)
      elif isinstance(s, ast.ClassDef):
        s.body = block(s.body, False)
      else:
        for f in ('body', 'orelse', 'finalbody'):
          if getattr(s, f, None):
            setattr(s, f, block(getattr(s, f), infn))
        for h in getattr(s, 'handlers', []) or []:
          h.body = block(h.body, infn)
      out.append(s)
    return out
  tree.body = block(tree.body, False)
  ast.fix_missing_locations(tree)
  return ast.unparse(tree), meta


def statement_scopes(src):
  """{stmt_key: (read, modified | deleted)} from the analysis, simple names only."""
  tree = analyze(src)
  out = {}
  for s in simple_statements(tree):
    if anno.hasanno(s, anno.Static.SCOPE):
      sc = anno.getanno(s, anno.Static.SCOPE)
      out[stmt_key(s)] = (simple(sc.read), simple(sc.modified) | simple(sc.deleted))
    else:
      out[stmt_key(s)] = None
  shared = set()
  for n in ast.walk(tree):
    if isinstance(n, (ast.Global, ast.Nonlocal)):
      shared |= set(n.names)
  return out, shared


class Runtime(object):

  def __init__(self, meta, scopes, shared, mod):
    self.meta, self.scopes, self.shared, self.mod = meta, scopes, shared, mod
    self.enters = 0
    self.instances = 0
    self.violations = []
    self.seen = set()
    self.exercised = set()

  def violate(self, k, what, name):
    sig = (k, what, name)
    if sig not in self.seen:
      self.seen.add(sig)
      self.violations.append(dict(stmt=self.meta[k]['text'], kind=self.meta[k]['kind'], what=what, name=name,
                                  line=self.meta[k]['key'][0]))

  def enter(self):
    self.enters += 1

  def ld(self, k, name, value):
    sc = self.scopes.get(self.meta[k]['key'])
    self.exercised.add(k)
    if sc is None:
      self.violate(k, 'no-scope', name)
    elif name not in sc[0]:
      self.violate(k, 'read-missing', name)
    return value

  def pre(self, k, loc):
    self.instances += 1
    snap = dict(loc)
    g = self.mod.__dict__
    gl = dict((n, g[n]) for n in self.shared if n in g)
    aug = self.meta[k]['aug']
    if aug is not None and (aug in snap or aug in g):
      self.ld(k, aug, None)
    return (snap, gl, self.enters)

  def post(self, k, state, loc):
    snap, gl, enters = state
    sc = self.scopes.get(self.meta[k]['key'])
    if sc is None:
      return
    called = self.enters != enters
    changed = set()
    for n, v in loc.items():
      if n not in snap or snap[n] is not v:
        changed.add(n)
    for n in snap:
      if n not in loc:
        changed.add(n)
    g = self.mod.__dict__
    for n in self.shared:
      if (n in g) != (n in gl) or (n in g and g[n] is not gl[n]):
        if n not in loc and n not in snap:      # a local of that name shadows the global here
          changed.add(n)
    for n in changed:
      if n in HELPERS:
        continue
      if called and n in self.shared:
        continue
      self.exercised.add(k)
      if n not in sc[1]:
        self.violate(k, 'write-missing', n)


def check_dynamic(item):
  try:
    return _check_dynamic(item)
  except Exception as e:
    return dict(idx=item[0], instances=0, runs=0, violations=[], statements=0, exercised=0, static=None,
                crash='checker-bug:%s: %s' % (type(e).__name__, traceback.format_exc()[-300:]))


def _check_dynamic(item):
  idx, src, maxlen, cap = item
  res = dict(idx=idx, instances=0, runs=0, violations=[], crash=None, statements=0, exercised=0, static=None)
  try:
    scopes, shared = statement_scopes(src)
  except Exception as e:
    res['crash'] = 'analysis-crash:%s: %s' % (type(e).__name__, str(e)[:160])
    return res
  try:
    isrc, meta = instrument(src)
  except Exception as e:
    res['crash'] = 'instrumenter-bug:%s: %s' % (type(e).__name__, str(e)[:160])
    return res
  name = 'vp_c08_%d_%d' % (os.getpid(), idx)
  try:
    mod = harness.load_source(isrc, name)
  except Exception as e:
    res['crash'] = 'instrumenter-bug:%s: %s' % (type(e).__name__, str(e)[:160])
    harness.unload(name)
    return res
  try:
    rt = Runtime(meta, scopes, shared, mod)
    mod.c08pre_, mod.c08post_, mod.c08ld_, mod.c08enter_ = rt.pre, rt.post, rt.ld, rt.enter

    def run(bits):
      t = harness.Tracer()
      c = harness.Decisions(bits, t)
      mod.G[0] = 0
      res['runs'] += 1
      try:
        mod.f(t, c, [5, 7])
      except RecursionError:
        pass
      except Exception:
        pass
      return c.i
    harness.adaptive_vectors(run, max_len=maxlen, cap=cap)
    res['instances'] = rt.instances
    res['violations'] = rt.violations[:3]
    res['statements'] = len(meta)
    res['exercised'] = len(rt.exercised)
  finally:
    harness.unload(name)
  # clause 1 on the same program (functions inside f only; the helpers repeat in every program)
  res['static'] = check_source_static(src, masks=item_masks(), only_within='f')
  return res


_MASKS = ()


def item_masks():
  return _MASKS


def check_static(item):
  idx, seed, features = item
  src, attempts = static_program(seed, features)
  try:
    r = check_source_static(src, masks=item_masks())
  except Exception as e:
    r = dict(funcs=[], mismatches=[], masked={}, skipped=0,
             crash='checker-bug:%s: %s' % (type(e).__name__, traceback.format_exc()[-300:]))
  r['idx'] = idx
  r['attempts'] = attempts
  r['src'] = src if (r['mismatches'] or r['crash']) else None
  return r


# ====================================================================== shrinking a static failure

def shrink(src, pred, budget=400, deadline=None):
  """Greedy statement-level reduction: delete statements, hoist bodies of compound statements."""
  calls = [0]

  def ok(tree):
    if calls[0] >= budget or (deadline is not None and time.time() > deadline):
      calls[0] = budget
      return False
    calls[0] += 1
    try:
      s = ast.unparse(tree)
      compile(s, '<c08>', 'exec')
      return pred(s)
    except Exception:
      return False
  tree = ast.parse(src)
  changed = True
  while changed and calls[0] < budget:
    changed = False
    for node in list(ast.walk(tree)):
      for field in ('body', 'orelse', 'finalbody', 'handlers', 'decorator_list'):
        lst = getattr(node, field, None)
        if not isinstance(lst, list):
          continue
        i = 0
        while i < len(lst):
          saved = lst[i]
          if isinstance(saved, ast.Pass):
            i += 1
            continue
          # 1. delete
          lst[i:i + 1] = []
          pad = field == 'body' and not lst
          if pad:
            lst.append(ast.Pass())
          if ok(tree):
            changed = True
            if pad:
              i += 1
            continue
          if pad:
            lst.pop()
          lst[i:i] = [saved]
          # 2. hoist the body of a compound statement
          inner = getattr(saved, 'body', None)
          if isinstance(inner, list) and isinstance(saved, ast.stmt) and not isinstance(
              saved, (ast.FunctionDef, ast.ClassDef)) and field != 'handlers':
            lst[i:i + 1] = inner
            if ok(tree):
              changed = True
              continue
            lst[i:i + len(inner)] = [saved]
          i += 1
  try:
    return ast.unparse(tree)
  except Exception:
    return src


# ====================================================================== main

def main():
  global _MASKS
  ap = argparse.ArgumentParser()
  ap.add_argument('seed', type=int)
  ap.add_argument('tier')
  ap.add_argument('--static', type=int, default=None, help='number of generated modules for clause 1')
  ap.add_argument('--random', type=int, default=None, help='number of random progen programs for clause 2')
  ap.add_argument('--k', type=int, default=None)
  ap.add_argument('--no-shrink', action='store_true')
  ap.add_argument('--maxfail', type=int, default=12)
  a = ap.parse_args()
  thorough = a.tier == 'thorough'
  nstatic = a.static if a.static is not None else (60000 if thorough else 3000)
  nrand = a.random if a.random is not None else (10000 if thorough else 800)
  K = a.k if a.k is not None else (3 if thorough else 2)
  t0 = time.time()
  scratch = harness.scratch_dir()          # created before the fork: workers share it, we remove it
  failures = []
  notes = []

  # ---- witnesses of the recorded findings decide features / masks of the default space
  features = set(ALL_FEATURES)
  masks = []
  witness_state = {}
  for w in WITNESSES:
    hit, detail = run_witness(w)
    witness_state[w[0]] = 'fails' if hit else 'passes'
    if hit:
      failures.append(dict(kind=w[1], sig=w[2], what=w[3], program=w[4], detail=detail))
      how, what = w[6]
      if how == 'feature':
        features.discard(what)
      elif what not in masks:
        masks.append(what)
  _MASKS = tuple(masks)
  features = tuple(sorted(features))

  # ---- clause 1
  items = [(i, a.seed * 1000003 + i, features) for i in range(nstatic)]
  # extra block (own seeds, default stream untouched): global / nonlocal declarations inside if / while / for blocks
  items += [(nstatic + i, a.seed * 1000003 + 500000 + i, features + ('decl_in_blocks',)) for i in range(nstatic // 6)]
  nfunc = 0
  nskipped = 0
  distinct = set()
  masked = {}
  redraws = 0
  static_fail = {}
  for r in harness.pool_map(check_static, items, chunksize=16):
    nfunc += len(r['funcs'])
    nskipped += r['skipped']
    redraws += r['attempts']
    for h, nn in r['funcs']:
      if nn >= 3:
        distinct.add(h)
    for k_, v in r['masked'].items():
      masked[k_] = masked.get(k_, 0) + v
    if r['crash']:
      sig = r['crash'].split(': ')[0]
      static_fail.setdefault(('static-crash', sig), []).append((r['src'], r['crash']))
    for m in r['mismatches']:
      static_fail.setdefault(('static-mismatch', '%s-%s' % (m['cat'], m['dir'])), []).append((r['src'], m))
  t1 = time.time()

  # ---- clause 2 (and clause 1 again on the progen programs)
  avoid = ('D1', 'D2') + (('D6',) if 'except_as' not in features else ())
  ditems = []
  idx = 0
  nskel = 0
  irnd = random.Random(a.seed * 7 + 3)
  ninjected = 0
  for tree in progen.skeletons(K):
    src = progen.skeleton_program(tree, avoid)
    if idx % 2:
      src2 = inject_shadowing(src, irnd)
      ninjected += src2 != src
      src = src2
    ditems.append((idx, src, 7, 40))
    idx += 1
    nskel += 1
  for i in range(nrand):
    src = progen.random_program(a.seed * 1000003 + i, size=2 + (i % 5), avoid=avoid)
    if i % 2:
      src2 = inject_shadowing(src, irnd)
      ninjected += src2 != src
      src = src2
    ditems.append((idx, src, 6, 40))
    idx += 1
  for src in EXTRA_PROGRAMS:
    ditems.append((idx, src, 6, 40))
    idx += 1
  instances = runs = stmts = exercised = 0
  dyn_fail = {}
  sample_dyn = None
  for r in harness.pool_map(check_dynamic, ditems, chunksize=4):
    instances += r['instances']
    runs += r['runs']
    stmts += r['statements']
    exercised += r['exercised']
    src = ditems[r['idx']][1]
    if r['crash']:
      dyn_fail.setdefault(('dynamic-crash', r['crash'].split(': ')[0]), []).append((src, r['crash']))
    for v in r['violations']:
      dyn_fail.setdefault(('dynamic-%s' % v['what'], v['kind']), []).append((src, v))
    st = r['static']
    if st:
      nfunc += len(st['funcs'])
      nskipped += st['skipped']
      for h, nn in st['funcs']:
        if nn >= 3:
          distinct.add(h)
      for k_, v in st['masked'].items():
        masked[k_] = masked.get(k_, 0) + v
      if st['crash']:
        static_fail.setdefault(('static-crash', st['crash'].split(': ')[0]), []).append((src, st['crash']))
      for m in st['mismatches']:
        static_fail.setdefault(('static-mismatch', '%s-%s' % (m['cat'], m['dir'])), []).append((src, m))
    if sample_dyn is None and r['instances'] > 30 and r['idx'] >= nskel:
      sample_dyn = src[src.index('def f(t, c, a)'):][:500]
  t2 = time.time()

  # ---- failures: one per signature, smallest program, shrunk
  for (kind, sig), cases in sorted(static_fail.items()):
    if len(failures) >= a.maxfail:
      break
    src, detail = min(cases, key=lambda c: len(c[0]))
    if not a.no_shrink and time.time() - t0 < (600 if thorough else 50):
      if kind == 'static-crash':
        pred = lambda s, sig=sig: (check_source_static(s, masks=_MASKS)['crash'] or '').split(': ')[0] == sig
      else:
        cat, direction = sig.rsplit('-', 1)
        pred = lambda s, cat=cat, direction=direction: any(
            (m['cat'], m['dir']) == (cat, direction) for m in check_source_static(s, masks=_MASKS)['mismatches'])
      small = shrink(src, pred, deadline=t0 + (780 if thorough else 52))
      r = check_source_static(small, masks=_MASKS)
      detail = r['crash'] or [m for m in r['mismatches']][:3]
      src = small
    failures.append(dict(kind=kind, sig=sig, what='analysis vs symtable: %s (%d programs)' % (sig, len(cases)),
                         program=src, detail=detail, occurrences=len(cases)))
  for (kind, sig), cases in sorted(dyn_fail.items()):
    if len(failures) >= a.maxfail:
      break
    src, detail = min(cases, key=lambda c: len(c[0]))
    failures.append(dict(kind=kind, sig=sig, what='executed statement vs its activity scope: %s' % (detail,),
                         program=src, detail=detail, occurrences=len(cases)))

  shutil.rmtree(scratch, ignore_errors=True)
  sample_static = static_program(a.seed * 1000003, features)[0]
  harness.emit(dict(
      evaluated=nfunc + instances,
      functions_compared=nfunc, functions_not_matched_in_symtable=nskipped, statement_instances=instances, distinct_nontrivial=len(distinct),
      static_modules=nstatic, static_redraws=redraws, progen_programs=len(ditems), skeleton_programs=nskel, programs_with_shadowing_comprehension=ninjected,
      runs=runs, simple_statements=stmts, simple_statements_exercised=exercised,
      witnesses=witness_state, features=list(features), masks=list(masks), masked=masked, avoid=list(avoid),
      seconds=dict(static=round(t1 - t0, 1), dynamic=round(t2 - t1, 1), total=round(time.time() - t0, 1)),
      rule=('clause 1: seeded random modules (own generator: nested defs / lambdas / classes up to block depth 4, '
            'all parameter kinds, defaults, annotations, decorators, imports, global / nonlocal, comprehensions, '
            'with / for / attribute / subscript / starred targets, del, augmented and annotated assignment, walrus) '
            'plus the functions of the progen programs; every function / lambda is compared with '
            'symtable.symtable(source); non-trivial = a distinct function with >= 3 names in its symbol table. '
            'clause 2: progen skeletons K<=%d + %d random programs x adaptive decision vectors (<= 40 each), every '
            'executed simple statement instance of an instrumented copy: logged Name loads must be in SCOPE.read, '
            'names whose frame binding changed must be in SCOPE.modified | SCOPE.deleted; every second program gets 1-3 '
            'inserted statements whose comprehension rebinds a name that its own first iterable reads.' % (K, nrand)),
      samples=[sample_static[-700:], sample_dyn],
      failures=failures))


if __name__ == '__main__':
  main()
