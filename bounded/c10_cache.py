"""C10 bounded stand-in: the conversion cache is coherent, converts once and is thread-safe.

A *world* (one process) owns a pool of function families written to real files and runs a seeded history of
phases.  In every phase T threads (1..32) wait on a barrier and then issue their pre-generated requests under a
randomised `sys.setswitchinterval`; between phases the pool is mutated sequentially (a family is redefined: same
module name and file, new content; a family is dropped and collected).  Inside a phase threads also create, use,
drop and collect private "ephemeral" families, so that weak cache keys die while other threads convert.

Every family is an instance of one template (functions h, top, mk->inner, lam, C.m; constants and a version tag
differ), so that requests can be judged against
  (1) the ORIGINAL function's value on the same input (values carry the version tag: stale code shows),
  (2) the operator-count vector of a FRESH conversion of the template under the same options
      (thread-local counts of ag__.converted_call / if_stmt / if_exp / eq / not_eq made by generated code; the
      vector tells recursive from non-recursive and each optional feature apart, so option aliasing shows).
      "Fresh" = `api._TRANSPILER._cache` and `conversion._ALLOWLIST_CACHE` swapped for new empty caches while
      nothing else runs (a brand-new PyToPy() would still send callees through the shared `_TRANSPILER`),
  (3) closure-cell / __defaults__ / __kwdefaults__ / __globals__ identity with the requesting function (C09),
  (4) per family version, a direct fresh conversion of sampled (function, options) pairs, compared with what the
      cache under test returns.
Variants of a family: top; top_d (types.FunctionType on top's code, other defaults); top_g (the module code
executed in a second namespace: same code objects, other globals); in1 / in2 (one code object, distinct cells and
keyword-only defaults); in_eph (closure made for one request, dropped afterwards); lam; meth (bound method); h.
Requests: malt.to_graph, a malt.convert-decorated call, api.converted_call(f, args, kwargs, options=...), and
late calls of functions returned earlier.  Option sets: recursive x {none, BUILTIN_FUNCTIONS,
EQUALITY_OPERATORS}, user style (user_requested=True) and, for converted_call, callee style.
`PyToPy.transform_ast` is wrapped on the `_TRANSPILER` instance: completed transformations are counted per
(source text = code object, options); any count > 1 is a failure.

Known defects are steered around in the random histories (--avoid, default on) and reported by fixed witnesses:
  stale-redefinition:lambda-linecache, equal-code-alias:default-removed, defaults-removed:shared-code-object.

usage: c10_cache.py <seed> <tier> [--worlds N] [--no-avoid] [--no-witnesses] [--maxfail N]
       c10_cache.py 0 <tier> --replay-world <index>,<world seed>,<threads> [--no-avoid]   (printed in every failure;
       plans are a function of the world seed, the interleaving is not: a race may need several replays)
"""
import argparse
import gc
import linecache
import os
import random
import shutil
import sys
import tempfile
import threading
import time
import traceback
import types

sys.dont_write_bytecode = True
_PRIVATE_TMP = tempfile.mkdtemp(prefix='verif_c10_')
os.environ['TMPDIR'] = _PRIVATE_TMP
tempfile.tempdir = _PRIVATE_TMP

sys.path.insert(0, os.path.dirname(os.path.abspath(__file__)))
import harness

import malt
from malt.core import converter
from malt.impl import api
from malt.impl import conversion
from malt.pyct import cache as cache_lib

FEATS = {'-': None, 'B': converter.Feature.BUILTIN_FUNCTIONS, 'E': converter.Feature.EQUALITY_OPERATORS}
USER_OPTS = [(r, f, 'user') for r in (True, False) for f in ('-', 'B', 'E')]
CALLEE_OPTS = [(r, f, 'callee') for r in (True, False) for f in ('-', 'B', 'E')]
COUNTED = ('converted_call', 'if_stmt', 'if_exp', 'eq', 'not_eq')
VARIANTS = ('top', 'top_d', 'top_g', 'in1', 'in2', 'in_eph', 'lam', 'meth', 'h')


def make_options(optkey):
  rec, feat, style = optkey
  if style == 'user':
    return converter.ConversionOptions(recursive=rec, user_requested=True, optional_features=FEATS[feat])
  return converter.ConversionOptions(recursive=rec, user_requested=False, internal_convert_user_code=rec,
                                     optional_features=FEATS[feat])


def optname(optkey):
  return '%s%s%s' % ('rec' if optkey[0] else 'norec', optkey[1], '' if optkey[2] == 'user' else '.callee')


# ---------------------------------------------------------------------------------------------------------------
# families
# ---------------------------------------------------------------------------------------------------------------

def family_source(tag, K, c1, c2, d):
  return '''TAG = {tag!r}
K = {K}
class _Sink(object):
  def write(self, s):
    pass
  def flush(self):
    pass
SINK = _Sink()
def h(x):
  t = {tag!r}
  if x == K:
    y = x + {c1}
  else:
    y = x - {c2}
  print(t, y, file=SINK)
  return y
def top(a, b={d}):
  t = {tag!r}
  r = h(a) + b
  if r != K:
    r = r * 2
  return (t, r, K)
def mk(c):
  u = c * 7 + 1
  def inner(a, *, w=(c, {tag!r})):
    if a == c:
      z = h(a)
    else:
      z = h(c) + u
    return ({tag!r}, z, w, K, u)
  return inner
lam = lambda a: ({tag!r}, h(a) if a != K else a, K)
class C(object):
  def __init__(self, v):
    self.v = v
  def m(self, a, e=({d},)):
    if a == self.v:
      return ({tag!r}, h(a), e)
    return ({tag!r}, h(self.v) + a, e)
'''.format(tag=tag, K=K, c1=c1, c2=c2, d=d)


class Family(object):
  """One version of one family: module, second namespace, variants."""

  def __init__(self, modname, version, rng, avoid=True):
    self.modname = modname
    self.version = version
    self.tag = '%s:v%d' % (modname, version)
    self.K = rng.randint(10, 99)
    self.consts = (rng.randint(1, 9), rng.randint(1, 9), rng.randint(100, 999))
    self.src = family_source(self.tag, self.K, *self.consts)
    self.path = os.path.join(harness.scratch_dir(), modname + '.py')
    with open(self.path, 'w') as f:
      f.write(self.src)
    if avoid:
      # steer around the recorded finding stale-redefinition:lambda-linecache (parser._parse_lambda reads
      # linecache without checkcache)
      linecache.checkcache(self.path)
    code = compile(self.src, self.path, 'exec')
    self.mod = types.ModuleType(modname)
    self.mod.__file__ = self.path
    sys.modules[modname] = self.mod
    exec(code, self.mod.__dict__)
    # the same code objects under other globals
    self.ns2 = {'__name__': modname, '__file__': self.path}
    exec(code, self.ns2)
    self.ns2['K'] = self.K + 100
    m = self.mod
    self.obj = m.C(3)
    self.fixed = {
        'top': (m.top, m.top, ()),
        'top_d': (types.FunctionType(m.top.__code__, m.__dict__, 'top', (self.consts[2] + 1000,), None),) * 2 + ((),),
        'top_g': (self.ns2['top'], self.ns2['top'], ()),
        'in1': (m.mk(1),) * 2 + ((),),
        'in2': (m.mk(2),) * 2 + ((),),
        'lam': (m.lam, m.lam, ()),
        'meth': (self.obj.m, m.C.m, (self.obj,)),
        'h': (m.h, m.h, ()),
    }
    assert self.fixed['top_g'][0].__code__ is m.top.__code__ and self.fixed['in1'][0].__code__ is self.fixed['in2'][0].__code__

  def variant(self, name):
    """(entity to request, underlying function, arguments the to_graph result takes first)."""
    if name == 'in_eph':
      f = self.mod.mk(5)
      return f, f, ()
    return self.fixed[name]

  def inputs(self, name):
    K = self.K
    if name in ('in1', 'in2', 'in_eph'):
      c = {'in1': 1, 'in2': 2, 'in_eph': 5}[name]
      return [(c,), (c + 1,), (K,)]
    if name == 'meth':
      return [(3,), (4,), (K,)]
    if name == 'top_g':
      return [(K + 100,), (K,), (1,)]
    return [(K,), (K + 1,), (1,)]

  def drop(self):
    if sys.modules.get(self.modname) is self.mod:
      del sys.modules[self.modname]
    self.fixed = self.mod = self.ns2 = self.obj = None

  def remove_file(self):
    try:
      os.remove(self.path)
    except OSError:
      pass


# ---------------------------------------------------------------------------------------------------------------
# instrumentation
# ---------------------------------------------------------------------------------------------------------------

TL = threading.local()
COUNTING = [True]
TRANSFORMS = {}
TRANSFORMS_LOCK = threading.Lock()
_INSTALLED = [False]


def install():
  if _INSTALLED[0]:
    return
  _INSTALLED[0] = True
  T = api._TRANSPILER
  ag = T.get_extra_locals()['ag__']

  def wrap(name, orig):
    def w(*a, **k):
      c = getattr(TL, 'c', None)
      if c is not None:
        c[name] = c.get(name, 0) + 1
      return orig(*a, **k)
    w.__name__ = name
    return w
  for name in COUNTED:
    setattr(ag, name, wrap(name, getattr(ag, name)))
  orig_transform_ast = T.transform_ast

  def transform_ast(node, ctx):
    r = orig_transform_ast(node, ctx)
    if COUNTING[0]:
      key = (ctx.info.source_code, ctx.user.options.as_tuple())
      with TRANSFORMS_LOCK:
        TRANSFORMS[key] = TRANSFORMS.get(key, 0) + 1
    return r
  T.transform_ast = transform_ast


class fresh_caches(object):
  """Sequential sections only: run with empty conversion + allowlist caches, then put the caches under test back."""

  def __enter__(self):
    T = api._TRANSPILER
    self.saved = (T._cache, conversion._ALLOWLIST_CACHE, COUNTING[0])
    T._cache = cache_lib.CodeObjectCache()
    conversion._ALLOWLIST_CACHE = cache_lib.UnboundInstanceCache()
    COUNTING[0] = False

  def __exit__(self, *exc):
    api._TRANSPILER._cache, conversion._ALLOWLIST_CACHE, COUNTING[0] = self.saved


def reset_caches():
  api._TRANSPILER._cache = cache_lib.CodeObjectCache()
  conversion._ALLOWLIST_CACHE = cache_lib.UnboundInstanceCache()
  TRANSFORMS.clear()


def counted(fn, *args):
  TL.c = {}
  try:
    v = fn(*args)
  finally:
    c, TL.c = TL.c, None
  return v, tuple(sorted(c.items()))


def identity_problems(func, g):
  out = []
  fd, gd = func.__defaults__ or (), g.__defaults__ or ()
  if len(fd) != len(gd) or any(a is not b for a, b in zip(fd, gd)):
    out.append(('defaults-not-identical', '__defaults__ %r became %r' % (fd, gd)))
  fk, gk = func.__kwdefaults__ or {}, g.__kwdefaults__ or {}
  if set(fk) != set(gk) or any(gk[n] is not v for n, v in fk.items()):
    out.append(('kwdefaults-not-identical', '__kwdefaults__ %r became %r' % (fk, gk)))
  if g.__globals__ is not func.__globals__:
    out.append(('globals-differ', '__globals__ is another dict'))
  gv = g.__code__.co_freevars
  for i, n in enumerate(func.__code__.co_freevars):
    if n not in gv or g.__closure__[gv.index(n)] is not func.__closure__[i]:
      out.append(('cell-differs', 'cell of %s is not the requesting function\'s cell' % n))
  return out


def perform(fam, vname, optkey, kind, idx):
  """One request: (value, operator counts, identity problems, returned function or None, its arguments,
  value of the original)."""
  req, func, first = fam.variant(vname)
  inp = fam.inputs(vname)[idx]
  rec, feat, _ = optkey
  problems, g = [], None
  if kind == 'to_graph':
    g = malt.to_graph(req, recursive=rec, experimental_optional_features=FEATS[feat])
    problems = identity_problems(func, g)
    value, vec = counted(g, *(first + inp))
  elif kind == 'convert':
    w = malt.convert(recursive=rec, optional_features=FEATS[feat])(req)
    value, vec = counted(w, *inp)
  else:
    opts = make_options(optkey)
    value, vec = counted(lambda: api.converted_call(req, inp, None, options=opts))
  return value, vec, problems, g, first + inp, req(*inp)


_REF_FAMILY = {}


def _reference_item(item):
  vname, optkey = item
  install()
  fam = _REF_FAMILY.get(os.getpid())
  if fam is None:
    fam = _REF_FAMILY[os.getpid()] = Family('c10ref_%d' % os.getpid(), 0, random.Random(0))
  out = []
  for idx in range(3):
    with fresh_caches():
      kind = 'to_graph' if optkey[2] == 'user' else 'converted_call'
      try:
        value, vec, probs, _, _, want = perform(fam, vname, optkey, kind, idx)
      except Exception as e:
        value, vec, probs, want = '%s: %s' % (type(e).__name__, str(e)[:200]), None, [], fam.variant(vname)[0](
            *fam.inputs(vname)[idx])
    problem = None
    if value != want or probs:
      problem = dict(kind='reference-differs-from-original', sig='%s.%s' % (vname, optname(optkey)),
                     what='a fresh conversion gives %r, the original %r, identity problems %r' % (value, want, probs),
                     program=fam.src)
    out.append(((vname, optkey, idx), vec, problem))
  return out


def build_reference_table():
  """Operator-count vectors of fresh conversions of the template, keyed (variant, options, input index)."""
  table, problems = {}, []
  items = [(v, o) for v in VARIANTS for o in USER_OPTS + CALLEE_OPTS]
  for rows in harness.pool_map(_reference_item, items, chunksize=2):
    for key, vec, problem in rows:
      table[key] = vec
      if problem:
        problems.append(problem)
  return table, problems


# ---------------------------------------------------------------------------------------------------------------
# worlds
# ---------------------------------------------------------------------------------------------------------------

SWITCH = [1e-6, 1e-5, 1e-4, 1e-3, 5e-3]


def gen_request(rng, fams):
  fam = rng.choice(fams)
  vname = rng.choice(VARIANTS)
  kind = rng.choice(['to_graph', 'convert', 'converted_call', 'converted_call'])
  optkey = rng.choice(USER_OPTS + CALLEE_OPTS) if kind == 'converted_call' and rng.random() < .4 \
      else rng.choice(USER_OPTS)
  return dict(fam=fam, vname=vname, optkey=optkey, kind=kind, idx=rng.randrange(3))


def run_world(item):
  try:
    return _run_world(item)
  except Exception:
    tb = traceback.format_exc().strip().splitlines()
    widx, seed, T, tier = item[:4]
    return dict(widx=widx, seed=seed, threads=T, evaluated=0, nontrivial=[], fresh_checked=0, transforms=0,
                collected_families=0,
                failures=[dict(kind='world-crashed', sig='harness-or-malt', what=tb[-1], traceback=tb[-8:],
                               world_seed=seed, threads=T, tier=tier)])


def _run_world(item):
  widx, seed, T, tier, avoid, table = item
  rng = random.Random(seed)
  install()
  reset_caches()
  thorough = tier == 'thorough'
  nphases = 6 if thorough else 3
  nreq = 60 if thorough else 24
  res = dict(widx=widx, seed=seed, threads=T, evaluated=0, keys={}, failures=[], fresh_checked=0, transforms=0,
             phases=nphases, collected_families=0)
  nextver = {}

  def new_family(name):
    nextver[name] = nextver.get(name, -1) + 1
    return Family('c10w%d_%s' % (widx, name), nextver[name], rng, avoid)

  def fail(kind, sig, what, **extra):
    if len(res['failures']) < 6:
      d = dict(kind=kind, sig=sig, what=what, world_seed=seed, threads=T, tier=tier,
               replay='c10_cache.py 0 %s --replay-world %d,%d,%d%s' % (tier, widx, seed, T,
                                                                         '' if avoid else ' --no-avoid'))
      d.update(extra)
      res['failures'].append(d)

  def judge(phase, thread, req, out):
    fam = req['fam']
    sig = '%s.%s.%s' % (req['vname'], optname(req['optkey']), req['kind'])
    res['evaluated'] += 1
    desc = dict(phase=phase, thread=thread, family=fam.tag, variant=req['vname'], options=optname(req['optkey']),
                request=req['kind'], input=req['idx'], late=req.get('late', False), program=fam.src,
                switchinterval=req.get('switch'))
    if 'exc' in out:
      fail('request-raised', sig, out['exc'][-1], traceback=out['exc'][-6:], **desc)
      return
    value, vec, probs, want = out['value'], out['vec'], out['problems'], out['want']
    if value != want:
      stale = isinstance(value, tuple) and isinstance(want, tuple) and value[:1] != want[:1]
      fail('stale-code' if stale else 'value-differs', sig,
           'returned function gives %r, the requesting function gives %r' % (value, want), **desc)
    expect = table[(req['vname'], req['optkey'], req['idx'])]
    if vec != expect:
      fail('options-alias', sig, 'operator counts %r, a fresh conversion under %s makes %r'
           % (vec, optname(req['optkey']), expect), **desc)
    for k, w in probs:
      fail(k, sig, w, **desc)
    key = (fam.tag, req['vname'] if not req['vname'].startswith('in') else 'in', req['optkey'])
    res['keys'].setdefault(key, set()).add((req['kind'], thread))

  def fresh_check(fam):
    """(4): a direct fresh conversion of sampled (function, options) pairs against the cache under test."""
    for _ in range(2):
      vname, optkey, idx = rng.choice(VARIANTS), rng.choice(USER_OPTS), rng.randrange(3)
      try:
        with fresh_caches():
          ref = perform(fam, vname, optkey, 'to_graph', idx)
        got = perform(fam, vname, optkey, 'to_graph', idx)
      except Exception:
        tb = traceback.format_exc().strip().splitlines()
        fail('request-raised', '%s.%s.to_graph' % (vname, optname(optkey)), tb[-1], traceback=tb[-6:],
             family=fam.tag, program=fam.src)
        continue
      res['fresh_checked'] += 1
      res['evaluated'] += 1
      for which, r in (('a fresh conversion', ref), ('the cache under test', got)):
        if r[0] != r[5]:
          stale = isinstance(r[0], tuple) and r[0][:1] != r[5][:1]
          fail('stale-code' if stale else 'value-differs', '%s.%s.to_graph' % (vname, optname(optkey)),
               'right after the (re)definition %s gives %r, the function itself %r' % (which, r[0], r[5]),
               family=fam.tag, program=fam.src)
      if ref[:3] != got[:3]:
        fail('differs-from-fresh', '%s.%s.to_graph' % (vname, optname(optkey)),
             'cache under test gives (value, counts, identity) %r, a fresh conversion %r' % (got[:3], ref[:3]),
             family=fam.tag, program=fam.src)

  def worker(phase, thread, plan, barrier, out, switch):
    kept = []
    try:
      barrier.wait(timeout=60)
    except threading.BrokenBarrierError:
      return
    for step in plan:
      if step.get('ephemeral'):
        # a private family: created, used and collected while the other threads keep converting
        fam = Family('c10w%d_e%d_%d_%d' % (widx, phase, thread, step['n']), 0, random.Random(step['seed']), avoid)
        reqs = [dict(r, fam=fam) for r in step['requests']]
      else:
        fam, reqs = None, [step]
      for req in reqs:
        req['switch'] = switch
        o = {}
        try:
          value, vec, probs, g, gargs, want = perform(req['fam'], req['vname'], req['optkey'], req['kind'],
                                                      req['idx'])
          o = dict(value=value, vec=vec, problems=probs, want=want)
          if g is not None and fam is None and len(kept) < 4:
            kept.append((req, g, gargs))
        except Exception:
          o = dict(exc=traceback.format_exc().strip().splitlines())
        out.append((thread, req, o))
      if fam is not None:
        tomb = _Tombstone(fam)
        for r in reqs:
          r['fam'] = tomb
        fam.drop()
        fam.remove_file()
        del fam
        gc.collect()
        out.append((thread, 'collected', None))
    # functions returned earlier still behave like a fresh conversion after everything that happened since
    for req, g, gargs in kept:
      o = {}
      try:
        value, vec = counted(g, *gargs)
        o = dict(value=value, vec=vec, problems=[], want=req['fam'].variant(req['vname'])[0](
            *req['fam'].inputs(req['vname'])[req['idx']]))
      except Exception:
        o = dict(exc=traceback.format_exc().strip().splitlines())
      out.append((thread, dict(req, late=True), o))

  persistent = [new_family('p%d' % i) for i in range(3 if thorough else 2)]
  for fam in persistent:
    fresh_check(fam)
  old_interval = sys.getswitchinterval()
  try:
    for phase in range(nphases):
      stamp = new_family('s%d' % phase)
      fams = persistent + [stamp]
      # every thread starts with the same not-yet-cached requests (maximal contention on the slow path)
      head = [dict(fam=stamp, vname=rng.choice(VARIANTS), optkey=rng.choice(USER_OPTS), idx=rng.randrange(3))
              for _ in range(3)]
      plans = []
      for t in range(T):
        plan = [dict(h, kind=rng.choice(['to_graph', 'convert', 'converted_call'])) for h in head]
        for n in range(max(2, nreq // (1 + T // 4))):
          if rng.random() < .12:
            plan.append(dict(ephemeral=True, n=n, seed=rng.randrange(1 << 30),
                             requests=[dict((k, v) for k, v in gen_request(rng, [None]).items() if k != 'fam')
                                       for _ in range(rng.randint(2, 4))]))
          else:
            plan.append(gen_request(rng, fams))
        plans.append(plan)
      switch = rng.choice(SWITCH)
      barrier = threading.Barrier(T)
      out = []
      threads = [threading.Thread(target=worker, args=(phase, t, plans[t], barrier, out, switch), daemon=True)
                 for t in range(T)]
      sys.setswitchinterval(switch)
      for th in threads:
        th.start()
      deadline = time.time() + (600 if thorough else 120)
      for th in threads:
        th.join(max(0.1, deadline - time.time()))
      sys.setswitchinterval(old_interval)
      if any(th.is_alive() for th in threads):
        fail('deadlock', 'phase', 'threads still running after the phase deadline', phase=phase,
             switchinterval=switch)
        return _finish(res)
      for thread, req, o in list(out):
        if req == 'collected':
          res['collected_families'] += 1
        else:
          judge(phase, thread, req, o)
      check_transforms(res, fail, phase, switch)
      # sequential mutations of the pool
      i = rng.randrange(len(persistent))
      name = persistent[i].modname.split('_', 1)[1]
      persistent[i].drop()
      persistent[i] = None
      gc.collect()
      persistent[i] = new_family(name)           # same module name, same file, new content
      res['collected_families'] += 1
      fresh_check(persistent[i])
      if rng.random() < .7:
        stamp.drop()
        stamp.remove_file()
        del stamp, fams, head, plans, out, threads
        gc.collect()
        res['collected_families'] += 1
    # the redefined families once more, sequentially, every variant (nothing stale, nothing aliased)
    for fam in persistent:
      for vname in VARIANTS:
        req = dict(fam=fam, vname=vname, optkey=rng.choice(USER_OPTS), kind='to_graph', idx=rng.randrange(3))
        try:
          value, vec, probs, g, gargs, want = perform(fam, vname, req['optkey'], 'to_graph', req['idx'])
          judge(nphases, -1, req, dict(value=value, vec=vec, problems=probs, want=want))
        except Exception:
          judge(nphases, -1, req, dict(exc=traceback.format_exc().strip().splitlines()))
    check_transforms(res, fail, nphases, None)
  finally:
    sys.setswitchinterval(old_interval)
  return _finish(res)


class _Tombstone(object):
  """What is left of a collected ephemeral family in a request record."""

  def __init__(self, fam):
    self.tag, self.src = fam.tag, fam.src


def check_transforms(res, fail, phase, switch):
  with TRANSFORMS_LOCK:
    items = list(TRANSFORMS.items())
  res['transforms'] = len(items)
  for (src, opt), n in items:
    if n > 1:
      fail('transform-twice', 'count', 'the source transformation of one (code object, options) pair ran %d times; '
           'options (recursive, user_requested, internal_convert_user_code, features) = %r' % (n, opt),
           program=src, phase=phase, switchinterval=switch)
      break


def _finish(res):
  res['nontrivial'] = sorted(set((k[0].split(':')[0].split('_', 1)[1].rstrip('0123456789')[:1], k[1], optname(k[2]),
                                  kind) for k, users in res['keys'].items() if len(users) >= 2
                                 for kind, _ in users))
  del res['keys']
  return res


# ---------------------------------------------------------------------------------------------------------------
# witnesses of recorded findings (sequential, fresh caches)
# ---------------------------------------------------------------------------------------------------------------

def _load(name, src, check=False):
  path = os.path.join(harness.scratch_dir(), name + '.py')
  with open(path, 'w') as f:
    f.write(src)
  if check:
    linecache.checkcache(path)
  m = types.ModuleType(name)
  m.__file__ = path
  sys.modules[name] = m
  exec(compile(src, path, 'exec'), m.__dict__)
  return m


def witnesses():
  import inspect
  out = []
  with fresh_caches():
    v1 = "lam = lambda a: (a, 'v1')\n"
    v2 = "lam = lambda a: (a, 'v2')\n"
    m1 = _load('c10wit_lam', v1)
    malt.to_graph(m1.lam)(0)
    m2 = _load('c10wit_lam', v2)
    try:
      got = malt.to_graph(m2.lam)(0)
    except Exception as e:
      got = '%s: %s' % (type(e).__name__, str(e)[:120])
    if got != m2.lam(0):
      out.append(dict(kind='stale-redefinition', sig='lambda-linecache',
                      what='a lambda redefined in a rewritten file (same module name, re-executed) is converted '
                           'from the stale linecache text: converted gives %r, the new lambda %r '
                           '(parser._parse_lambda calls linecache.getlines without linecache.checkcache; converting '
                           'any def of the file first hides it)' % (got, m2.lam(0)),
                      program=v1 + '# --- file rewritten, module re-executed ---\n' + v2,
                      history=['to_graph(v1.lam)', 'rewrite + exec', 'to_graph(v2.lam)'], threads=1))
  with fresh_caches():
    a = _load('c10wit_eqa', "def f(a, b=1, *, k=2):\n  return (a, b, k)\n")
    b = _load('c10wit_eqb', "def f(a, b, *, k):\n  return (a, b, k)\n")
    malt.to_graph(a.f)
    g = malt.to_graph(b.f)
    if inspect.signature(g) != inspect.signature(b.f):
      out.append(dict(kind='equal-code-alias', sig='default-removed',
                      what='two live functions whose code objects compare EQUAL (same text position and body; '
                           'CPython code equality ignores co_filename and default expressions) share one cache '
                           'entry: after to_graph(a.f), to_graph(b.f) has signature %s instead of %s and g(1) = %r '
                           'where b.f(1) raises TypeError (WeakKeyDictionary keys by ==; the cached factory carries '
                           'a.f\'s None default placeholders and instantiate only overwrites truthy defaults); the '
                           'same happens when one file is edited to drop a default and re-imported while the old '
                           'function is alive; annotations are served stale the same way'
                           % (inspect.signature(g), inspect.signature(b.f), _try(g, 1)),
                      program='# file a\ndef f(a, b=1, *, k=2):\n  return (a, b, k)\n# file b\n'
                              'def f(a, b, *, k):\n  return (a, b, k)\n',
                      history=['to_graph(a.f)', 'to_graph(b.f)'], threads=1))
  with fresh_caches():
    m = _load('c10wit_nd', "def f(a, b=3):\n  return (a, b)\n")
    f2 = types.FunctionType(m.f.__code__, m.f.__globals__, 'f', None, None)
    g = malt.to_graph(f2)
    if inspect.signature(g) != inspect.signature(f2):
      out.append(dict(kind='defaults-removed', sig='shared-code-object',
                      what='a function sharing f\'s code object but created without defaults '
                           '(types.FunctionType(f.__code__, globals, name, None)) converts to signature %s instead '
                           'of %s: g(1) = %r, original raises TypeError (instantiate: `if defaults:` leaves the None '
                           'placeholders)' % (inspect.signature(g), inspect.signature(f2), _try(g, 1)),
                      program="def f(a, b=3):\n  return (a, b)\nf2 = types.FunctionType(f.__code__, f.__globals__, "
                              "'f', None, None)\n", history=['to_graph(f2)'], threads=1))
  for n in ('c10wit_lam', 'c10wit_eqa', 'c10wit_eqb', 'c10wit_nd'):
    sys.modules.pop(n, None)
  return out, 4


def _try(g, *a):
  try:
    return g(*a)
  except Exception as e:
    return type(e).__name__


# ---------------------------------------------------------------------------------------------------------------

THREADS = [1, 2, 3, 4, 6, 8, 12, 16, 24, 32, 5, 2, 7, 32, 16, 9]


def main():
  ap = argparse.ArgumentParser()
  ap.add_argument('seed', type=int)
  ap.add_argument('tier')
  ap.add_argument('--worlds', type=int, default=None)
  ap.add_argument('--no-avoid', action='store_true')
  ap.add_argument('--no-witnesses', action='store_true')
  ap.add_argument('--replay-world', default=None, help='widx,seed,threads')
  ap.add_argument('--maxfail', type=int, default=10)
  a = ap.parse_args()
  thorough = a.tier == 'thorough'
  harness.scratch_dir()
  try:
    install()
    rng = random.Random(a.seed)
    failures, fkeys = [], set()

    def keep(f):
      key = (f['kind'], f['sig'])
      if key not in fkeys and len(failures) < a.maxfail:
        fkeys.add(key)
        failures.append(f)
    evaluated = 0
    table, problems = build_reference_table()
    evaluated += len(table)
    for p in problems:
      keep(p)
    nwit = 0
    if not a.no_witnesses:
      wf, nwit = witnesses()
      evaluated += nwit
      for f in wf:
        keep(f)
    reset_caches()
    if a.replay_world:
      widx, seed, T = (int(x) for x in a.replay_world.split(','))
      items = [(widx, seed, T, a.tier, not a.no_avoid, table)]
    else:
      nworlds = a.worlds if a.worlds is not None else (96 if thorough else 16)
      items = [(i, rng.randrange(1 << 30), THREADS[i % len(THREADS)], a.tier, not a.no_avoid, table)
               for i in range(nworlds)]
    nontrivial = set()
    stats = dict(worlds=0, requests=0, fresh_checked=0, transforms=0, collected_families=0, by_threads={})
    if len(items) == 1:
      results = [run_world(items[0])]
    else:
      results = harness.pool_map(run_world, items, chunksize=1)
    for r in results:
      stats['worlds'] += 1
      stats['requests'] += r['evaluated']
      stats['fresh_checked'] += r['fresh_checked']
      stats['transforms'] += r['transforms']
      stats['collected_families'] += r['collected_families']
      stats['by_threads'][r['threads']] = stats['by_threads'].get(r['threads'], 0) + r['evaluated']
      evaluated += r['evaluated']
      for nt in r['nontrivial']:
        nontrivial.add(tuple(nt) + (r['threads'],))
      for f in r['failures']:
        keep(f)
    harness.emit(dict(
        evaluated=evaluated, distinct_nontrivial=len(nontrivial), stats=stats, witnesses_run=nwit,
        reference_vectors=len(table),
        rule='worlds (processes) x phases x T in 1..32 threads released by a barrier under a random '
             'sys.setswitchinterval in {1e-6..5e-3}; requests = to_graph / convert-decorated call / converted_call '
             '(+ late calls of returned functions) over a pool of template families (variants sharing code objects '
             'with distinct closures, defaults, globals; bound method; lambda), 6 user + 6 callee option sets; pool '
             'mutated between phases (redefinition under the same module name and file, families dropped and '
             'collected) and inside phases (thread-private families created and collected); each request judged '
             'against the original value, the operator-count vector of a fresh conversion of the template, and '
             'closure/defaults/globals identity; transform_ast completions counted per (source, options). '
             'non-trivial = request whose (family version, code, options) key was used by >= 2 (request kind, '
             'thread) pairs; distinct over (family role, variant, options, kind, thread count)',
        samples=['world 0: 1 thread, 3 phases; phase = 3 stampede requests on a fresh family + random requests such '
                 'as (family p1:v2, variant in2, options norecE, converted_call, input 1)',
                 'reference vector of (top, recE, input 0): %r' % (table[('top', (True, 'E', 'user'), 0)],)],
        failures=failures, seed=a.seed, tier=a.tier, avoid=not a.no_avoid))
  finally:
    shutil.rmtree(harness.scratch_dir(), ignore_errors=True)
    shutil.rmtree(_PRIVATE_TMP, ignore_errors=True)


if __name__ == '__main__':
  main()
