"""Run-time evaluation of the contract of malt.impl.api.PyToPy.get_caching_key (the cache sub-key determines EVERY
field of the options the conversion was requested with) over the complete finite options domain: 2^3 flag
combinations x 2^7 feature subsets.  Replay hook of the contract; exhaustive, but a run-time check of one function."""
import itertools
import json

from malt.core import converter
from malt.impl import api


def main():
  feats = list(converter.Feature)
  failures, n, distinct = [], 0, set()
  tr = api.PyToPy()
  for r, u, i in itertools.product((False, True), repeat=3):
    for k in range(len(feats) + 1):
      for sub in itertools.combinations(feats, k):
        opts = converter.ConversionOptions(recursive=r, user_requested=u, internal_convert_user_code=i, optional_features=sub)
        key = tr.get_caching_key(converter.ProgramContext(opts))
        n += 1
        distinct.add(opts.as_tuple())
        got = (key.recursive, key.user_requested, key.internal_convert_user_code, frozenset(key.optional_features)) \
            if isinstance(key, converter.ConversionOptions) else key
        want = (r, u, i, frozenset(sub))
        if got != want and len(failures) < 4:
          failures.append(dict(kind='contract', sig='cache-key-loses-a-field',
                               what='get_caching_key for options %r returns a key with fields %r: two requests that differ in '
                                    'a dropped field would share one cache entry' % (want, got)))
  print(json.dumps(dict(evaluated=n, distinct_nontrivial=len(distinct), failures=failures,
                        rule='exhaustive: all 2^3 x 2^7 option values', samples=['ConversionOptions(True, True, False, {LISTS})'])))


main()
