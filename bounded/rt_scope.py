"""Run-time evaluation of the Scope / recorder contracts of the activity analysis (C08, C11) on random small
scope chains (replay hook / bounded stand-in): finalize, referenced, free_vars, enclosing_scope, mark_param,
ActivityAnalyzer._track_symbol / _enter_scope / _exit_scope."""
import ast
import json
import random
import sys

from malt.pyct import anno, qual_names
from malt.pyct.static_analysis import activity

SETS = ['read', 'modified', 'deleted', 'bound', 'globals', 'nonlocals', 'annotations', 'isolated_names']
NAMES = [qual_names.QN(n) for n in 'abcdef']
NAMES += [qual_names.QN(NAMES[0], attr='x'), qual_names.QN(NAMES[1], attr='y')]


def rand_scope(rnd, parent, isolated):
  s = activity.Scope(parent, isolated=isolated)
  for f in SETS:
    getattr(s, f).update(rnd.sample(NAMES, rnd.randint(0, 4)))
  return s


def snap(s):
  return {f: set(getattr(s, f)) for f in SETS}


def expect_finalize(child, parent):
  c, p = snap(child), snap(parent)
  e = {f: set(v) for f, v in p.items()}
  if not child.isolated:
    for f in ('read', 'modified', 'bound'):
      e[f] |= c[f] - c['isolated_names']
    for f in ('globals', 'nonlocals', 'annotations'):
      e[f] |= c[f]
  else:
    e['read'] |= c['read'] - (c['bound'] - c['nonlocals'])
    e['annotations'] |= c['annotations'] - c['bound']
  return e


def referenced_spec(s):
  out = set(s.read) | set(s.bound)
  if s.parent is not None:
    out |= referenced_spec(s.parent)
  return out


class _Ctx(object):
  pass


def analyzer(scope):
  a = activity.ActivityAnalyzer.__new__(activity.ActivityAnalyzer)
  from malt.pyct import transformer
  transformer.Base.__init__(a, None)
  a.allow_skips = False
  a.scope = scope
  a._in_aug_assign = a._in_annotation = a._track_annotations_only = False
  return a


def main():
  seed = int(sys.argv[1]) if len(sys.argv) > 1 else 0
  tier = sys.argv[2] if len(sys.argv) > 2 else 'quick'
  n = 3000 if tier == 'quick' else 60000
  rnd = random.Random(seed)
  failures, distinct = [], set()

  def fail(kind, what, **kw):
    if len(failures) < 5:
      failures.append(dict(kind='contract', sig=kind, what=what, **kw))
  i = 0
  for i in range(n):
    op = rnd.choice(['finalize', 'referenced', 'free_vars', 'track', 'exit', 'enter', 'param'])
    try:
      root = rand_scope(rnd, None, True)
      mid = rand_scope(rnd, root, rnd.random() < 0.5)
      leaf = rand_scope(rnd, mid, rnd.random() < 0.5)
      distinct.add((op, mid.isolated, leaf.isolated))
      if op == 'finalize':
        want, own, rootb = expect_finalize(leaf, mid), snap(leaf), snap(root)
        leaf.finalize()
        if not (leaf.is_final and snap(mid) == want and snap(leaf) == own and snap(root) == rootb and not mid.is_final):
          fail('finalize', 'Scope.finalize: parent sets %s, expected %s (isolated=%s)' % (
              {k: sorted(map(str, v)) for k, v in snap(mid).items() if v != want[k]},
              {k: sorted(map(str, v)) for k, v in want.items() if v != snap(mid)[k]}, leaf.isolated))
      elif op == 'referenced':
        got, want = set(leaf.referenced), referenced_spec(leaf)
        if got != want:
          fail('referenced', 'Scope.referenced = %s, expected read|bound of the chain = %s' % (
              sorted(map(str, got)), sorted(map(str, want))))
      elif op == 'free_vars':
        leaf.is_final = True
        enc = leaf if leaf.isolated else mid
        if leaf.enclosing_scope is not enc or set(leaf.free_vars) != set(enc.read) - set(enc.bound):
          fail('free_vars', 'free_vars / enclosing_scope of a %s scope' % ('isolated' if leaf.isolated else 'block'))
      elif op == 'param':
        owner = ast.parse('def f(a): pass').body[0]
        before = dict(leaf.params)
        leaf.mark_param(NAMES[0], owner)
        if leaf.params.get(NAMES[0]) is not owner or {k: v for k, v in leaf.params.items() if k != NAMES[0]} != \
            {k: v for k, v in before.items() if k != NAMES[0]}:
          fail('mark_param', 'mark_param must map the name to its owner and keep the other entries')
      elif op == 'enter':
        a = analyzer(leaf)
        iso = rnd.random() < 0.5
        a._enter_scope(iso, 'fn')
        s = a.scope
        if not (s is not leaf and s.parent is leaf and s.isolated == iso and not s.is_final
                and all(not getattr(s, f) for f in SETS) and len({id(getattr(s, f)) for f in SETS}) == len(SETS)):
          fail('enter', '_enter_scope must push a fresh empty scope with the requested isolation')
      elif op == 'exit':
        a = analyzer(leaf)
        want = expect_finalize(leaf, mid)
        r = a._exit_scope()
        if not (r is leaf and leaf.is_final and a.scope is mid and snap(mid) == want):
          fail('exit', '_exit_scope must finalize the current scope into its parent and make the parent current')
      else:
        a = analyzer(leaf)
        a._in_aug_assign = rnd.random() < 0.3
        a._in_annotation = rnd.random() < 0.3
        a._track_annotations_only = rnd.random() < 0.3
        qn = rnd.choice(NAMES)
        ctx = rnd.choice([ast.Store, ast.Load, ast.Del])()
        node = ast.Name(id=str(qn), ctx=ctx) if not qn.is_composite() else ast.Attribute(value=ast.Name('a', ast.Load()), attr='x', ctx=ctx)
        has = rnd.random() < 0.85
        if has:
          anno.setanno(node, anno.Basic.QN, qn)
        flag = qn.is_composite() and rnd.random() < 0.5
        e = snap(leaf)
        if has and not (a._track_annotations_only and not a._in_annotation):
          if isinstance(ctx, ast.Store):
            e['modified'].add(qn); e['bound'].add(qn)
            if flag:
              e['modified'].add(qn.parent)
            if a._in_aug_assign:
              e['read'].add(qn)
          elif isinstance(ctx, ast.Load):
            e['read'].add(qn)
            if a._in_annotation:
              e['annotations'].add(qn)
          else:
            e['read'].add(qn); e['bound'].add(qn); e['deleted'].add(qn)
        midb = snap(mid)
        a._track_symbol(node, composite_writes_alter_parent=flag)
        if snap(leaf) != e or snap(mid) != midb:
          fail('track', '_track_symbol(%s in %s context, aug=%s, annotation=%s, annotations_only=%s): recorded %s' % (
              qn, type(ctx).__name__, a._in_aug_assign, a._in_annotation, a._track_annotations_only,
              {k: sorted(map(str, v ^ e[k])) for k, v in snap(leaf).items() if v != e[k]}))
    except Exception as ex:   # a contract broken badly enough to trip an internal assertion
      fail(op, 'operation %s raised %s: %s' % (op, type(ex).__name__, ex))
    if len(failures) >= 3:
      break
  print(json.dumps(dict(evaluated=i + 1, distinct_nontrivial=len(distinct), failures=failures,
                        rule='bounded: random three-level scope chains over 8 qualified names (6 simple, 2 attributes), '
                             'every set of every scope a random subset, one operation each; distinct = (operation, isolation flags)',
                        samples=['block scope under a function scope under the root; finalize the block'])))


main()
