"""Shared machinery of the C06 / C07 bounded stand-ins (dataflow soundness against an instrumented run).

  analyse(src)      run the real pipeline of converters/control_flow.transform (cfg.build, qual_names,
                    activity, reaching_definitions, reaching_fndefs, liveness) on the AST of `f`, keeping the
                    Analyzer objects the TreeAnnotators created (in_/out/gen_map of the *reported* solution).
  instrument(src)   an instrumented copy of the same source that logs every binding, every read of a
                    function-local variable, every statement begin / end, handler and finally entry.
  run(prog, bits)   execute the instrumented copy with a decision vector, return the event log.
  rd_fixed_point / lv_fixed_point    the fixed-point clauses, stated from the modules' own equations.

AST nodes of the analysed tree and of the instrumented tree are matched by their position in ast.walk order of
two parses of the same source (taken before any analysis touches the tree).

Event log (time = index):
  ('call', act, fid)                 activation `act` of function `fid` starts
  ('ret', act)
  ('w', cell, sid, act)              statement `sid` (For: the For; with: the withitem; params: the arguments
                                     node; def: the FunctionDef) bound cell = (owner fid, owner activation, name)
  ('r', cell, k, act)                Name node k read the cell (aug-assignment targets: k is the Store Name)
  ('b', sid, act, bound|None)        statement sid is about to execute (bound = locals() keys for if/for/while/try)
  ('x', sid, act)                    statement sid finished (any way of leaving it: fall through, break, continue,
                                     return, explicit raise)
  ('h', hid, act, bound)             except handler entered
Checking of a run ends (log.dead) as soon as an exception that did not come from an instrumented `raise`
statement is seen in a finally / handler / function exit (implicit exceptions: documented exemption), when an
explicit exception passes through a user `finally` and is caught afterwards, or escapes a nested function
(neither edge exists in the CFG: documented).
"""
import ast
import contextlib
import sys

from malt.pyct import anno, cfg, naming, qual_names, transformer
from malt.pyct.static_analysis import activity, annos, liveness, reaching_definitions, reaching_fndefs

LOG = '_vp_L'
ACT = '_vp_a'


class Unsupported(Exception):
  pass


# ------------------------------------------------------------------------------------ analysis
class _Recorder(object):
  """Mixin: remember every Analyzer a TreeAnnotator installs as current_analyzer."""

  @property
  def current_analyzer(self):
    return self.__dict__.get('_vp_ca')

  @current_analyzer.setter
  def current_analyzer(self, v):
    self.__dict__['_vp_ca'] = v
    if v is not None:
      rec = self.__dict__.setdefault('_vp_rec', [])
      if not any(v is x for x in rec):
        rec.append(v)


class _RDAnnotator(_Recorder, reaching_definitions.TreeAnnotator):
  pass


class _LVAnnotator(_Recorder, liveness.TreeAnnotator):
  pass


class Analysed(object):
  pass


def find_fn(mod, fname):
  return [n for n in mod.body if isinstance(n, ast.FunctionDef) and n.name == fname][0]


def analyse(src, fname='f'):
  mod = ast.parse(src)
  fn = find_fn(mod, fname)
  nodes = list(ast.walk(fn))          # numbering, before the analyses touch anything
  info = transformer.EntityInfo(name=fname, source_code=src, source_file=None, future_features=(), namespace={})
  ctx = transformer.Context(info, naming.Namer({}), None)
  # same order as converters/control_flow.transform
  graphs = cfg.build(fn)
  node = qual_names.resolve(fn)
  node = activity.resolve(node, ctx, None)
  rd = _RDAnnotator(ctx, graphs, reaching_definitions.Definition)       # == reaching_definitions.resolve
  node = rd.visit(node)
  node = reaching_fndefs.resolve(node, ctx, graphs)
  lv = _LVAnnotator(ctx, graphs, True)                                  # == liveness.resolve
  node = lv.visit(node)
  assert node is fn
  a = Analysed()
  a.src, a.fn, a.nodes, a.graphs = src, fn, nodes, graphs
  a.rd = list(rd.__dict__.get('_vp_rec', []))
  a.lv = list(lv.__dict__.get('_vp_rec', []))
  a.rd_of = {}
  for fnode, g in graphs.items():
    for an in a.rd:
      if an.graph is g:
        a.rd_of[fnode] = an
  return a


def text(node):
  try:
    if isinstance(node, ast.withitem):
      s = 'with ' + ast.unparse(node.context_expr)
    elif isinstance(node, ast.arguments):
      s = '<parameters %s>' % ast.unparse(node)
    elif isinstance(node, ast.ExceptHandler):
      s = 'except %s:' % (ast.unparse(node.type) if node.type is not None else '')
    else:
      s = ast.unparse(node)
  except Exception:
    s = type(node).__name__
  s = s.strip().split('\n')[0]
  return '%s (line %s)' % (s[:100], getattr(node, 'lineno', '?'))


def stmt_text(a, node):
  """Text of the innermost statement (or CFG-level item) containing `node`."""
  m = getattr(a, '_vp_parent', None)
  if m is None:
    m = a._vp_parent = {}
    for n in a.nodes:
      for ch in ast.iter_child_nodes(n):
        if not isinstance(ch, (ast.expr_context, ast.operator, ast.boolop, ast.unaryop, ast.cmpop)):
          m[id(ch)] = n
  cur = node
  while cur is not None and not isinstance(cur, (ast.stmt, ast.withitem, ast.arguments, ast.ExceptHandler)):
    cur = m.get(id(cur))
  return text(cur if cur is not None else node)


def _reach(start, forward):
  seen, work = set(), list(start)
  while work:
    n = work.pop()
    if n in seen:
      continue
    seen.add(n)
    work.extend(n.next if forward else n.prev)
  return seen


def rd_fixed_point(a):
  """in_[n] == join of out[p]; out[n] == gen | (in_ - kill) with gen/kill as reaching_definitions states them."""
  bad = []
  for an in a.rd:
    g = an.graph
    for n in _reach([g.entry], True):
      exp_in = {}
      for p in n.prev:
        for s, ds in an.out[p].value.items():
          exp_in.setdefault(s, set()).update(ds)
      got_in = an.in_[n].value
      if set(got_in) != set(exp_in) or any(set(got_in[s]) != exp_in[s] for s in exp_in):
        bad.append(('rd-in-not-join', text(n.ast_node)))
        continue
      if anno.hasanno(n.ast_node, anno.Static.SCOPE):
        sc = anno.getanno(n.ast_node, anno.Static.SCOPE)
        gen = an.gen_map.get(n)
        want_keys = ((sc.bound | sc.globals) - sc.deleted) | set(sc.params.keys())
        if gen is None or set(gen.value) != want_keys or any(len(v) != 1 for v in gen.value.values()):
          bad.append(('rd-gen-keys', text(n.ast_node)))
          continue
        kill = sc.modified | sc.deleted
        exp_out = {s: set(ds) for s, ds in exp_in.items() if s not in kill}
        for s, ds in gen.value.items():
          exp_out.setdefault(s, set()).update(ds)
      else:
        exp_out = exp_in
      got = an.out[n].value
      if set(got) != set(exp_out) or any(set(got[s]) != exp_out[s] for s in exp_out):
        bad.append(('rd-out-not-transfer', text(n.ast_node)))
  return bad


def lv_fixed_point(a):
  """out[n] == union of in_[s]; in_[n] == read | (out - kill) | closures of reaching local functions."""
  bad = []
  for an in a.lv:
    g = an.graph
    for n in _reach(list(g.exit), False):
      exp_out = set()
      for s in n.next:
        exp_out |= an.in_[s]
      if set(an.out[n]) != exp_out:
        bad.append(('lv-out-not-join', text(n.ast_node)))
        continue
      if anno.hasanno(n.ast_node, anno.Static.SCOPE):
        sc = anno.getanno(n.ast_node, anno.Static.SCOPE)
        exp_in = set(sc.read) | (exp_out - (sc.modified | sc.deleted))
        for f in anno.getanno(n.ast_node, anno.Static.DEFINED_FNS_IN):
          if isinstance(f, ast.Lambda):
            continue
          fs = anno.getanno(f, annos.NodeAnno.ARGS_AND_BODY_SCOPE)
          exp_in |= (fs.read - (fs.bound - fs.nonlocals))
      else:
        exp_in = exp_out
      if set(an.in_[n]) != exp_in:
        bad.append(('lv-in-not-transfer', text(n.ast_node)))
  return bad


# ------------------------------------------------------------------------------------ scopes
class FnInfo(object):

  def __init__(self, node, parent, fid):
    self.node, self.parent, self.fid = node, parent, fid
    a = node.args
    self.params = [x.arg for x in a.posonlyargs + a.args + a.kwonlyargs]
    if a.vararg:
      self.params.append(a.vararg.arg)
    if a.kwarg:
      self.params.append(a.kwarg.arg)
    b = _Binder()
    for s in node.body:
      b.visit(s)
    self.nonlocals, self.globals = b.nonlocals, b.globals
    self.locals = (set(self.params) | b.bound) - b.nonlocals - b.globals
    self.children = b.children


class _Binder(ast.NodeVisitor):
  """Names bound in a function body, Python's rules, not descending into nested scopes."""

  def __init__(self):
    self.bound, self.nonlocals, self.globals, self.children = set(), set(), set(), []

  def visit_FunctionDef(self, n):
    self.bound.add(n.name)
    self.children.append(n)

  def visit_AsyncFunctionDef(self, n):
    raise Unsupported('async def')

  def visit_ClassDef(self, n):
    raise Unsupported('class')

  def visit_Lambda(self, n):
    pass

  def _comp(self, n):
    pass
  visit_ListComp = visit_SetComp = visit_DictComp = visit_GeneratorExp = _comp

  def visit_Name(self, n):
    if isinstance(n.ctx, (ast.Store, ast.Del)):
      self.bound.add(n.id)

  def visit_Nonlocal(self, n):
    self.nonlocals.update(n.names)

  def visit_Global(self, n):
    self.globals.update(n.names)

  def visit_ExceptHandler(self, n):
    if n.name:
      self.bound.add(n.name)
    self.generic_visit(n)

  def visit_alias(self, n):
    self.bound.add((n.asname or n.name).split('.')[0])


def resolve(name, info):
  """FnInfo of the function owning `name` as seen from `info`, None for globals / builtins."""
  if name in info.globals:
    return None
  i = info
  while i is not None:
    if name in i.locals:
      return i
    if i is not info and name in i.globals:
      return None
    i = i.parent
  return None


# ------------------------------------------------------------------------------------ instrumentation
def _call(meth, args):
  return ast.Call(func=ast.Attribute(value=ast.Name(id=LOG, ctx=ast.Load()), attr=meth, ctx=ast.Load()),
                  args=args, keywords=[])


def _act():
  return ast.Name(id=ACT, ctx=ast.Load())


def _stored(target):
  out = []
  for n in ast.walk(target):
    if isinstance(n, ast.Name) and isinstance(n.ctx, ast.Store) and n.id not in out:
      out.append(n.id)
  return out


class _Expr(ast.NodeTransformer):

  def __init__(self, ins, info):
    self.ins, self.info, self.shadow = ins, info, []

  def visit_Name(self, n):
    if not isinstance(n.ctx, ast.Load) or any(n.id in s for s in self.shadow):
      return n
    owner = resolve(n.id, self.info)
    if owner is None:
      return n
    k = self.ins.idx[id(n)]
    self.ins.reads[k] = (n.id, owner.fid, self.info.fid, False)
    return _call('r', [_act(), ast.Constant(k), n])

  def visit_Lambda(self, n):
    a = n.args
    names = set(x.arg for x in a.posonlyargs + a.args + a.kwonlyargs)
    if a.vararg:
      names.add(a.vararg.arg)
    if a.kwarg:
      names.add(a.kwarg.arg)
    a.defaults = [self.visit(d) for d in a.defaults]
    a.kw_defaults = [None if d is None else self.visit(d) for d in a.kw_defaults]
    self.shadow.append(names)
    n.body = self.visit(n.body)
    self.shadow.pop()
    return n

  def _comp(self, n):
    names = set()
    for gen in n.generators:
      names.update(_stored(gen.target))
    # the OUTERMOST iterable is evaluated in the enclosing scope: the targets do not shadow the names it reads
    first = self.visit(n.generators[0].iter)
    n.generators[0].iter = ast.Constant(None)
    self.shadow.append(names)
    self.generic_visit(n)
    self.shadow.pop()
    n.generators[0].iter = first
    return n
  visit_ListComp = visit_SetComp = visit_DictComp = visit_GeneratorExp = _comp

  def visit_NamedExpr(self, n):
    raise Unsupported('walrus')


class Instrumented(object):
  pass


class _Instrumenter(object):

  def __init__(self, fn):
    self.nodes = list(ast.walk(fn))
    self.idx = {}
    for i, n in enumerate(self.nodes):
      self.idx.setdefault(id(n), i)
    self.reads = {}        # k -> (name, owner fid, reader fid, is_aug)
    self.wtbl = {}         # (sid, name) -> owner fid or None
    self.stmt_fid = {}     # sid -> fid of the function lexically containing the statement
    self.infos = {}        # fid -> FnInfo

  def info_for(self, fn, parent):
    i = FnInfo(fn, parent, self.idx[id(fn)])
    self.infos[i.fid] = i
    return i

  def w(self, sid, names, info):
    for nm in names:
      o = resolve(nm, info)
      self.wtbl[(sid, nm)] = None if o is None else o.fid
    return ast.Expr(_call('w', [_act(), ast.Constant(sid), ast.Constant(tuple(names))]))

  def ev(self, meth, sid, with_locals=False):
    args = [_act(), ast.Constant(sid)]
    if with_locals:
      args.append(ast.Call(func=ast.Name(id='locals', ctx=ast.Load()), args=[], keywords=[]))
    return ast.Expr(_call(meth, args))

  def function(self, fn, info):
    if fn.decorator_list:
      raise Unsupported('decorator')
    body = self.block(fn.body, info)
    asid = self.idx[id(fn.args)]
    self.stmt_fid[asid] = info.fid
    head = ast.Assign(targets=[ast.Name(id=ACT, ctx=ast.Store())], value=_call('enter', [ast.Constant(info.fid)]))
    inner = ([self.w(asid, info.params, info)] if info.params else []) + body
    fn.body = [head, ast.Try(body=inner, handlers=[], orelse=[],
                             finalbody=[ast.Expr(_call('leave', [_act()]))])]

  def block(self, stmts, info):
    out = []
    for s in stmts:
      out += self.stmt(s, info)
    return out

  def stmt(self, s, info):
    sid = self.idx[id(s)]
    self.stmt_fid[sid] = info.fid
    E = lambda e: _Expr(self, info).visit(e)
    compound = isinstance(s, (ast.If, ast.For, ast.While, ast.Try))
    pre = [self.ev('b', sid, compound)]
    post = []
    if isinstance(s, ast.Assign):
      s.value = E(s.value)
      s.targets = [E(t) for t in s.targets]
      names = []
      for t in s.targets:
        names += [n for n in _stored(t) if n not in names]
      if names:
        post = [self.w(sid, names, info)]
    elif isinstance(s, ast.AnnAssign):
      if s.value is not None:
        s.value = E(s.value)
        s.target = E(s.target)
        names = _stored(s.target)
        if names:
          post = [self.w(sid, names, info)]
    elif isinstance(s, ast.AugAssign):
      s.value = E(s.value)
      if isinstance(s.target, ast.Name):
        owner = resolve(s.target.id, info)
        if owner is not None:
          k = self.idx[id(s.target)]
          self.reads[k] = (s.target.id, owner.fid, info.fid, True)
          pre.append(ast.Expr(_call('r', [_act(), ast.Constant(k), ast.Name(id=s.target.id, ctx=ast.Load())])))
          post = [self.w(sid, [s.target.id], info)]
      else:
        s.target = E(s.target)
    elif isinstance(s, ast.Expr):
      s.value = E(s.value)
      post = [self.ev('x', sid)]
    elif isinstance(s, ast.Return):
      if s.value is not None:
        s.value = E(s.value)
    elif isinstance(s, ast.Raise):
      if s.exc is None:
        raise Unsupported('bare raise')
      s.exc = _call('mark', [_act(), ast.Constant(sid), E(s.exc)])
      if s.cause is not None:
        s.cause = E(s.cause)
    elif isinstance(s, ast.Assert):
      s.test = E(s.test)
      if s.msg is not None:
        s.msg = E(s.msg)
    elif isinstance(s, (ast.Pass, ast.Break, ast.Continue, ast.Nonlocal, ast.Global)):
      pass
    elif isinstance(s, (ast.If, ast.While)):
      s.test = E(s.test)
      s.body = self.block(s.body, info)
      s.orelse = self.block(s.orelse, info)
    elif isinstance(s, ast.For):
      s.iter = E(s.iter)
      s.target = E(s.target)
      names = _stored(s.target)
      s.body = ([self.w(sid, names, info)] if names else []) + self.block(s.body, info)
      s.orelse = self.block(s.orelse, info)
    elif isinstance(s, ast.Try):
      s.body = self.block(s.body, info)
      for h in s.handlers:
        hid = self.idx[id(h)]
        self.stmt_fid[hid] = info.fid
        if h.type is not None:
          h.type = E(h.type)
        hb = self.block(h.body, info)
        if h.name:
          hb = [self.w(hid, [h.name], info)] + hb
        h.body = [self.ev('h', hid, True),
                  ast.Try(body=hb, handlers=[], orelse=[], finalbody=[self.ev('x', hid)])]
      s.orelse = self.block(s.orelse, info)
      if s.finalbody:
        s.finalbody = [self.ev('fin', sid)] + self.block(s.finalbody, info)
    elif isinstance(s, ast.With):
      ws = []
      for item in s.items:
        iid = self.idx[id(item)]
        self.stmt_fid[iid] = info.fid
        item.context_expr = E(item.context_expr)
        if item.optional_vars is not None:
          item.optional_vars = E(item.optional_vars)
          names = _stored(item.optional_vars)
          if names:
            ws.append(self.w(iid, names, info))
      s.body = ws + self.block(s.body, info)
    elif isinstance(s, ast.FunctionDef):
      self.function(s, self.info_for(s, info))
      post = [self.w(sid, [s.name], info)]
    elif isinstance(s, ast.Delete) and all(isinstance(t, (ast.Subscript, ast.Attribute)) for t in s.targets):
      # deleting an element / attribute reads the owner (and the index) and writes no variable
      s.targets = [E(t) for t in s.targets]
    else:
      raise Unsupported(type(s).__name__)
    core = [s]
    if compound:
      core = [ast.Try(body=[s], handlers=[], orelse=[], finalbody=[self.ev('x', sid)])]
    return pre + core + post


def instrument(src, fname='f'):
  mod = ast.parse(src)
  fn = find_fn(mod, fname)
  ins = _Instrumenter(fn)
  ins.function(fn, ins.info_for(fn, None))
  ast.fix_missing_locations(mod)
  p = Instrumented()
  p.code = compile(mod, '<instrumented>', 'exec')
  p.reads, p.wtbl, p.stmt_fid, p.infos, p.nnodes = ins.reads, ins.wtbl, ins.stmt_fid, ins.infos, len(ins.nodes)
  p.node_types = [type(n).__name__ for n in ins.nodes]
  p.fname = fname
  p.mod = mod
  return p


# ------------------------------------------------------------------------------------ run time
class Log(object):

  def __init__(self, prog):
    self.p = prog
    self.ev = []
    self.dead = False
    self.why_dead = None
    self.stack = []
    self.nact = 0
    self.explicit = []
    self.inflight = None
    self.thru = False

  def _chk(self):
    e = sys.exc_info()[1]
    if e is not None and not self.dead and not any(e is x for x in self.explicit):
      self.dead, self.why_dead = True, 'implicit ' + type(e).__name__

  def _cell(self, owner):
    for fid, a in reversed(self.stack):
      if fid == owner:
        return a
    return None

  def enter(self, fid):
    self.nact += 1
    self.stack.append((fid, self.nact))
    if not self.dead:
      self.ev.append(('call', self.nact, fid))
    return self.nact

  def leave(self, a):
    self._chk()
    while self.stack and self.stack[-1][1] != a:
      self.stack.pop()
    if self.stack:
      self.stack.pop()
    if self.inflight is not None and self.stack and not self.dead:
      self.dead, self.why_dead = True, 'explicit exception escapes a nested function'
    if not self.dead:
      self.ev.append(('ret', a))

  def r(self, a, k, v):
    if not self.dead:
      name, owner, _, _ = self.p.reads[k]
      self.ev.append(('r', (owner, self._cell(owner), name), k, a))
    return v

  def w(self, a, sid, names):
    if not self.dead:
      for nm in names:
        owner = self.p.wtbl[(sid, nm)]
        if owner is not None:
          self.ev.append(('w', (owner, self._cell(owner), nm), sid, a))

  def b(self, a, sid, loc=None):
    if not self.dead:
      self.ev.append(('b', sid, a, None if loc is None else frozenset(loc)))

  def x(self, a, sid):
    self._chk()
    if not self.dead:
      self.ev.append(('x', sid, a))

  def h(self, a, hid, loc):
    self._chk()
    if not self.dead and self.thru:
      self.dead, self.why_dead = True, 'explicit exception caught after passing through a finally'
    self.inflight = None
    if not self.dead:
      self.ev.append(('h', hid, a, frozenset(loc)))

  def fin(self, a, sid):
    self._chk()
    if self.inflight is not None:
      self.thru = True

  def mark(self, a, sid, exc):
    if isinstance(exc, type):
      exc = exc()
    self.explicit.append(exc)
    self.inflight = exc
    self.thru = False
    return exc


def run(prog, bits, a0=(5, 7)):
  """Execute the instrumented copy; returns (log, decisions used, outcome)."""
  import harness
  ns = {'__name__': 'vp_instr'}
  log = Log(prog)
  ns[LOG] = log
  exec(prog.code, ns)
  t = harness.Tracer()
  c = harness.Decisions(bits, t)
  a = list(a0)
  if 'G' in ns:
    ns['G'][0] = 0
  outcome = None
  try:
    r = ns[prog.fname](t, c, a)
    outcome = ('return', repr(r))
  except RecursionError:
    outcome = ('raise', 'RecursionError')
  except Exception as e:
    outcome = ('raise', type(e).__name__)
  return log, c.i, outcome


def crosses_for_exit(a, log, var, act, t0, t1):
  """True iff, in activation `act`, a `for` statement whose target binds `var` finished at a time in (t0, t1]:
  the value of var travelled along the loop-exit edge of that header (recorded finding D1)."""
  for time in range(t0 + 1, min(t1, len(log.ev) - 1) + 1):
    e = log.ev[time]
    if e[0] == 'x' and e[2] == act:
      n = a.nodes[e[1]]
      if isinstance(n, ast.For) and var in _stored(n.target):
        return True
  return False


def analysis_error(src, e):
  """Failure record for a crash of the analyses; `except E as name` is the recorded finding D6."""
  try:
    d6 = any(isinstance(n, ast.ExceptHandler) and n.name for n in ast.walk(ast.parse(src)))
  except SyntaxError:
    d6 = False
  if d6:
    return dict(kind='known-D6', sig='except-as-crashes-cfg', what='%s: %s' % (type(e).__name__, str(e)[:200]))
  return dict(kind='analysis-error', sig=type(e).__name__, what='%s: %s' % (type(e).__name__, str(e)[:200]))


def match_trees(a, p):
  """The two parses must number their nodes identically."""
  return len(a.nodes) == p.nnodes and all(type(n).__name__ == t for n, t in zip(a.nodes, p.node_types))
