"""C05 bounded stand-in: the control-flow graph built by malt.pyct.cfg contains every control path that
can execute, and is a well-formed graph.

usage: c05_paths.py <seed> <tier> [--avoid auto|D6,HJF,CBR,TEI] [--k K] [--random N] [--xrandom N] [--depth D]
Prints one JSON line (README.md interface).

Recorded findings have one explicit witness each, reported with kind `known-<tag>` when it still fails
(D6 `except E as name` crashes cfg.build; HJF a jump inside an except handler skips the finally of the same
try; CBR `raise` in a class body nested in a function crashes cfg.build; TEI an `if` as first statement of a
try-else crashes cfg.build).  With --avoid auto (default) the generators avoid exactly the tags whose witness
still fails, so a repaired defect re-enters the program space.

Oracle (per program, for every graph returned by cfg.build, i.e. every FunctionDef / Lambda):
  * well-formedness: b in a.next <=> a in b.prev, edges only between indexed nodes, the entry is the
    function's `arguments` node and has no predecessor, every indexed node is reachable from the entry or
    is dead code (= unreachable AND never executed by any run before an exempt event), stmt_next / stmt_prev equal the edge sets
    derived from *lexical containment in the AST* (not from GraphBuilder.owners);
  * path inclusion: an instrumented COPY of the same source (a second parse, ids = position in ast.walk)
    gets an explicit probe in front of every CFG-bearing AST node (simple statements, def/class statements,
    If.test, While.test - every evaluation -, For.iter - every time the header asks for the next item -,
    with-items, `arguments` at function entry, Lambda.body).  Each function activation owns its trace.
    Every consecutive pair must be an edge of that function's graph, the first node must be the entry and,
    when the activation returns or ends by an explicit `raise`, the last node must be in graph.exit or be
    a Raise node.
Exemptions (property quantifier): an exception that this activation did not raise by an explicit `raise`
statement (implicit, or coming out of a call) stops the checking of the activation where it surfaces
(handler entry / exceptional finally entry / function exit); an explicit exception that went through a
finally block and is then caught by an outer handler stops the checking at that handler.

Limitations: Lambda *definition* nodes are sub-statement nodes that cfg orders before the node of their
statement; the oracle does not observe the evaluation of a lambda expression separately, the probe of the
statement records [lambda nodes..., statement node] (a lambda's own graph is checked per call).  The
module-level helpers of the program header are graph-checked but not traced.
"""
import argparse
import ast
import hashlib
import os
import random
import sys
import traceback

sys.path.insert(0, os.path.dirname(os.path.abspath(__file__)))
import harness
import progen

from malt.pyct import cfg

SIMPLE = (ast.Expr, ast.Assign, ast.AugAssign, ast.AnnAssign, ast.Pass, ast.Global, ast.Nonlocal,
          ast.Import, ast.ImportFrom, ast.Assert, ast.Delete, ast.Return, ast.Raise, ast.Break, ast.Continue)
TRACKED = (ast.If, ast.While, ast.For, ast.Try, ast.ExceptHandler)   # begin_statement / end_statement
FUNCS = (ast.FunctionDef, ast.Lambda)


# ------------------------------------------------------------------------------ run-time side of the probes

class Act(object):
  __slots__ = ('fid', 'trace', 'explicit', 'cut', 'xpend', 'ended')

  def __init__(self, fid, first):
    self.fid = fid
    self.trace = [first]
    self.explicit = None    # the exception object this activation raised by an explicit `raise`
    self.cut = None         # checking stops at this trace length (exempt event)
    self.xpend = None       # (trace length, exc): explicit exception currently running finally blocks
    self.ended = 'return'


class Fuel(BaseException):
  """The instrumented run executed more probes than any generated program can (they carry fuel counters);
  only programs mutilated by the minimiser get here."""


_BUDGET = [0]
MAX_PROBES = 20000


def _tick(n=1):
  _BUDGET[0] -= n
  if _BUDGET[0] < 0:
    raise Fuel()


class RT(object):
  def __init__(self):
    self.acts = []

  def enter(self, fid, first):
    _tick()
    a = Act(fid, first)
    self.acts.append(a)
    return a

  def lam(self, fid, *ids):
    _tick()
    a = Act(fid, ids[0])
    a.trace = list(ids)
    self.acts.append(a)

  @staticmethod
  def p(a, *ids):
    _tick()
    a.trace.extend(ids)

  @staticmethod
  def it(a, i, iterable):
    itr = iter(iterable)
    while True:
      _tick()
      a.trace.append(i)
      try:
        v = next(itr)
      except StopIteration:
        return
      yield v

  @staticmethod
  def mark(a, exc):
    if isinstance(exc, type):
      exc = exc()
    a.explicit = exc
    return exc

  @staticmethod
  def bare(a):
    a.explicit = sys.exc_info()[1]

  @staticmethod
  def caught(a):
    e = sys.exc_info()[1]
    if a.cut is not None:
      return
    if e is None or e is not a.explicit:
      a.cut = len(a.trace)            # implicit exception / exception out of a call: exempt
    elif a.xpend is not None and a.xpend[1] is e:
      a.cut = len(a.trace)            # explicit exception went through finally to an outer handler: exempt
    a.xpend = None

  @staticmethod
  def prop(a):
    e = sys.exc_info()[1]
    if a.cut is not None:
      return
    if e is not a.explicit:
      a.cut = len(a.trace)            # implicit exception reaches a finally block: exempt
    elif a.xpend is None or a.xpend[1] is not e:
      a.xpend = (len(a.trace), e)

  @staticmethod
  def exc(a, e):
    if e is a.explicit:
      a.ended = 'raise'
    else:
      a.ended = 'implicit'
      if a.cut is None:
        a.cut = len(a.trace)


# ------------------------------------------------------------------------------ instrumentation

def _name(n):
  return ast.Name(id=n, ctx=ast.Load())


def _call(fn, *args):
  return ast.Call(func=_name(fn), args=list(args), keywords=[])


def _num(i):
  return ast.Constant(value=i)


def _second(call, expr):
  """(call, expr)[1]"""
  return ast.Subscript(value=ast.Tuple(elts=[call, expr], ctx=ast.Load()), slice=_num(1), ctx=ast.Load())


def lambdas_in(node):
  """Lambda nodes below `node` in ast.NodeVisitor.generic_visit order, not descending into lambdas."""
  out = []

  def rec(n):
    for _, value in ast.iter_fields(n):
      items = value if isinstance(value, list) else [value]
      for it in items:
        if isinstance(it, ast.Lambda):
          out.append(it)
        elif isinstance(it, ast.AST):
          rec(it)
  if isinstance(node, ast.Lambda):
    return [node]
  rec(node)
  return out


class Instrumenter(object):
  """Rewrites tree B (a second parse of the source); ids are positions in ast.walk, shared with tree A."""

  def __init__(self, tree_a, tree_b, cfgs, only_under=None):
    self.na = list(ast.walk(tree_a))
    self.nb = list(ast.walk(tree_b))
    assert len(self.na) == len(self.nb)
    self.idb = {id(n): i for i, n in enumerate(self.nb)}
    self.ida = {id(n): i for i, n in enumerate(self.na)}
    self.cfgs = cfgs
    self.probed = {}        # fid -> set of ids that received a probe
    self.expected_missing = []   # (fid, id): node kinds that should have a CFG node but are not indexed
    self.only_under = only_under

  def i(self, node_b):
    return self.idb[id(node_b)]

  def has(self, fid, node_b):
    g = self.cfgs.get(self.na[fid]) if fid is not None else None
    return g is not None and self.na[self.i(node_b)] in g.index

  def want(self, fid, node_b):
    """id of node_b if it is indexed in graph fid (recording the probe), else None; notes expected nodes."""
    if fid is None:
      return None
    if self.has(fid, node_b):
      self.probed.setdefault(fid, set()).add(self.i(node_b))
      return self.i(node_b)
    self.expected_missing.append((fid, self.i(node_b)))
    return None

  def ids(self, fid, lam_src, node_b):
    out = []
    for src in lam_src:
      for l in lambdas_in(src):
        k = self.want(fid, l)
        if k is not None:
          out.append(k)
    k = self.want(fid, node_b)
    if k is not None:
      out.append(k)
    return out

  def pcall(self, ids):
    return _call('_vp_p', _name('_vp_a'), *[_num(k) for k in ids])

  # expressions: only lambdas need rewriting
  def expr(self, e):
    if e is None:
      return None
    outer = self

    class T(ast.NodeTransformer):
      def visit_Lambda(self, node):
        return outer.lam(node)
    return T().visit(e)

  def lam(self, node):
    fid = self.i(node)
    if self.na[fid] not in self.cfgs:
      node.body = self.expr(node.body)
      return node
    ids = []
    k = self.want(fid, node.args)
    if k is not None:
      ids.append(k)
    ids += self.ids(fid, [node.body], node.body)
    node.body = _second(_call('_vp_lam', _num(fid), *[_num(k) for k in ids]), self.expr(node.body))
    return node

  def func(self, node):
    fid = self.i(node)
    if self.na[fid] not in self.cfgs:
      node.body = self.block(node.body, None)
      return
    first = self.want(fid, node.args)
    body = self.block(node.body, fid)
    handler = ast.ExceptHandler(type=_name('BaseException'), name='_vp_e', body=[
        ast.Expr(value=_call('_vp_exc', _name('_vp_a'), _name('_vp_e'))), ast.Raise(exc=None, cause=None)])
    node.body = [
        ast.Assign(targets=[ast.Name(id='_vp_a', ctx=ast.Store())],
                   value=_call('_vp_enter', _num(fid), _num(first if first is not None else -1))),
        ast.Try(body=body, handlers=[handler], orelse=[], finalbody=[])]

  def block(self, stmts, fid):
    out = []
    for s in stmts:
      out += self.stmt(s, fid)
    return out

  def stmt(self, s, fid):
    pre = []
    if isinstance(s, ast.FunctionDef):
      ids = self.ids(fid, [], s) if fid is not None else []
      if ids:
        pre.append(ast.Expr(value=self.pcall(ids)))
      self.func(s)
      return pre + [s]
    if isinstance(s, ast.ClassDef):
      ids = self.ids(fid, [], s) if fid is not None else []
      if ids:
        pre.append(ast.Expr(value=self.pcall(ids)))
      s.body = self.block(s.body, None)
      return pre + [s]
    if isinstance(s, SIMPLE):
      ids = self.ids(fid, [s], s) if fid is not None else []
      if ids:
        pre.append(ast.Expr(value=self.pcall(ids)))
      for f, v in ast.iter_fields(s):
        if isinstance(v, ast.AST):
          setattr(s, f, self.expr(v))
        elif isinstance(v, list):
          setattr(s, f, [self.expr(x) if isinstance(x, ast.AST) else x for x in v])
      if isinstance(s, ast.Raise) and fid is not None:
        if s.exc is not None:
          s.exc = _call('_vp_mark', _name('_vp_a'), s.exc)
        else:
          pre.append(ast.Expr(value=_call('_vp_bare', _name('_vp_a'))))
      return pre + [s]
    if isinstance(s, (ast.If, ast.While)):
      if fid is not None:
        lids = self.ids(fid, [s.test], s.test)
        tid = lids.pop() if lids and lids[-1] == self.i(s.test) else None
        if lids:
          pre.append(ast.Expr(value=self.pcall(lids)))
        s.test = self.expr(s.test)
        if tid is not None:
          s.test = _second(self.pcall([tid]), s.test)
      else:
        s.test = self.expr(s.test)
      s.body = self.block(s.body, fid)
      s.orelse = self.block(s.orelse, fid)
      return pre + [s]
    if isinstance(s, ast.For):
      if fid is not None:
        lids = self.ids(fid, [s.iter], s.iter)
        tid = lids.pop() if lids and lids[-1] == self.i(s.iter) else None
        if lids:
          pre.append(ast.Expr(value=self.pcall(lids)))
        s.iter = self.expr(s.iter)
        if tid is not None:
          s.iter = _call('_vp_it', _name('_vp_a'), _num(tid), s.iter)
      else:
        s.iter = self.expr(s.iter)
      s.body = self.block(s.body, fid)
      s.orelse = self.block(s.orelse, fid)
      return pre + [s]
    if isinstance(s, ast.With):
      for item in s.items:
        ids = self.ids(fid, [item], item) if fid is not None else []
        item.context_expr = self.expr(item.context_expr)
        if ids:
          item.context_expr = _second(self.pcall(ids), item.context_expr)
      s.body = self.block(s.body, fid)
      return [s]
    if isinstance(s, ast.Try):
      s.body = self.block(s.body, fid)
      s.orelse = self.block(s.orelse, fid)
      s.finalbody = self.block(s.finalbody, fid)
      for h in s.handlers:
        h.type = self.expr(h.type)
        h.body = self.block(h.body, fid)
        if fid is not None:
          h.body.insert(0, ast.Expr(value=_call('_vp_caught', _name('_vp_a'))))
      if fid is None or not s.finalbody:
        return [s]
      inner = s.body
      if s.handlers:
        inner = [ast.Try(body=s.body, handlers=s.handlers, orelse=s.orelse, finalbody=[])]
      watch = ast.ExceptHandler(type=_name('BaseException'), name=None, body=[
          ast.Expr(value=_call('_vp_prop', _name('_vp_a'))), ast.Raise(exc=None, cause=None)])
      return [ast.Try(body=inner, handlers=[watch], orelse=[], finalbody=s.finalbody)]
    raise NotImplementedError(type(s).__name__)


# ------------------------------------------------------------------------------ static description of nodes

def describe(tree_a):
  """role[id(ast node)] = short kind used in signatures, e.g. 'If.test', 'Return@body/handler' (the path of
  try parts - body / handler / orelse / finally - from the function down to the node, last two kept)."""
  role = {}

  def rec(node, part):
    for f, v in ast.iter_fields(node):
      items = v if isinstance(v, list) else [v]
      for it in items:
        if not isinstance(it, ast.AST):
          continue
        p = part
        if isinstance(node, ast.Try):
          p = part + {'body': '/body', 'orelse': '/orelse', 'finalbody': '/finally'}.get(f, '')
        if isinstance(node, ast.ExceptHandler) and f == 'body':
          p = part + '/handler'
        if isinstance(node, FUNCS + (ast.ClassDef,)):
          p = ''
        base = type(it).__name__
        if isinstance(node, (ast.If, ast.While)) and f == 'test':
          base = type(node).__name__ + '.test'
        elif isinstance(node, ast.For) and f == 'iter':
          base = 'For.iter'
        elif isinstance(node, ast.Lambda) and f == 'body':
          base = 'Lambda.body'
        role[id(it)] = base + ('@' + '/'.join(p[1:].split('/')[-2:]) if p else '')
        rec(it, p)
  rec(tree_a, '')
  return role


def own_tracked(fn):
  """TRACKED statements lexically inside function `fn`, not inside a nested function / lambda / class."""
  out = []

  def rec(n):
    for c in ast.iter_child_nodes(n):
      if isinstance(c, FUNCS + (ast.ClassDef,)):
        continue
      if isinstance(c, TRACKED):
        out.append(c)
      rec(c)
  rec(fn)
  return out


# ------------------------------------------------------------------------------ graph checks

def reachable(g):
  seen = {g.entry}
  work = [g.entry]
  while work:
    n = work.pop()
    for m in n.next:
      if m not in seen:
        seen.add(m)
        work.append(m)
  return seen


def check_graph(fn, g, role):
  """Well-formedness clauses that need no run.  Returns a list of (kind, sig, what)."""
  bad = []
  nodes = list(g.index.values())
  nodeset = set(nodes)
  r = lambda n: role.get(id(n.ast_node), type(n.ast_node).__name__)
  for ast_node, n in g.index.items():
    if n.ast_node is not ast_node:
      bad.append(('index', r(n), 'index key differs from node.ast_node'))
  for a in nodes:
    for b in a.next:
      if b not in nodeset:
        bad.append(('edge-outside-index', r(a) + '->' + r(b), 'successor %r of %r is not indexed' % (b, a)))
      elif a not in b.prev:
        bad.append(('links-not-mirrored', r(a) + '->' + r(b), '%r in next of %r but not mirrored in prev' % (b, a)))
    for b in a.prev:
      if b not in nodeset:
        bad.append(('edge-outside-index', r(b) + '->' + r(a), 'predecessor %r of %r is not indexed' % (b, a)))
      elif a not in b.next:
        bad.append(('links-not-mirrored', r(b) + '->' + r(a), '%r in prev of %r but not mirrored in next' % (b, a)))
  if g.entry is None or g.entry not in nodeset:
    bad.append(('entry', 'none', 'entry is not an indexed node'))
    return bad
  if g.entry.ast_node is not fn.args:
    bad.append(('entry', r(g.entry), 'entry %r is not the arguments node of the function' % (g.entry,)))
  if len(g.entry.prev):
    bad.append(('entry', 'has-pred', 'entry has predecessors %r' % (list(g.entry.prev),)))
  for x in g.exit:
    if x not in nodeset:
      bad.append(('exit', r(x), 'exit node %r is not indexed' % (x,)))
  # per-statement edge sets from lexical containment
  edges = [(a, b) for a in nodes for b in a.next]
  tracked = own_tracked(fn)
  for s in list(g.stmt_next) + list(g.stmt_prev):
    if not any(s is t for t in tracked):
      bad.append(('stmt-edges', 'key-' + type(s).__name__, 'stmt_next/prev key is not a block statement of this function'))
  for s in tracked:
    inside = set(id(x) for x in ast.walk(s))
    own = lambda n: id(n.ast_node) in inside
    if not any(own(n) for n in nodes):
      continue
    nxt = frozenset(b for a, b in edges if own(a) and not own(b))
    prv = frozenset(a for a, b in edges if own(b) and not own(a))
    if g.stmt_next.get(s) != nxt:
      bad.append(('stmt-edges', 'next-' + type(s).__name__,
                  'stmt_next of `%s` is %r, lexical containment gives %r' % (_head(s), _names(g.stmt_next.get(s)), _names(nxt))))
    if g.stmt_prev.get(s) != prv:
      bad.append(('stmt-edges', 'prev-' + type(s).__name__,
                  'stmt_prev of `%s` is %r, lexical containment gives %r' % (_head(s), _names(g.stmt_prev.get(s)), _names(prv))))
  return bad


def _names(ns):
  return None if ns is None else sorted(repr(n) for n in ns)


def _head(s):
  try:
    return ast.unparse(s).split('\n')[0][:60]
  except Exception:
    return type(s).__name__


# ------------------------------------------------------------------------------ one program

class Prepared(object):
  """cfg.build on parse A, instrumented module from parse B."""

  def __init__(self, src):
    self.tree_a = ast.parse(src)
    # cfg.build is applied to function nodes (module-level statements have no builder)
    self.cfgs = {}
    for top in self.tree_a.body:
      if isinstance(top, ast.FunctionDef):
        self.cfgs.update(cfg.build(top))
      elif isinstance(top, ast.ClassDef):
        for m in top.body:
          if isinstance(m, ast.FunctionDef):
            self.cfgs.update(cfg.build(m))
    tree_b = ast.parse(src)
    self.ins = Instrumenter(self.tree_a, tree_b, self.cfgs)
    for s in tree_b.body:
      if isinstance(s, ast.FunctionDef) and s.name == 'f':
        self.ins.func(s)
    ast.fix_missing_locations(tree_b)
    self.instrumented = tree_b
    self.role = describe(self.tree_a)
    self.loop_else_first = set(self.ins.ida[id(n.orelse[0])] for n in ast.walk(self.tree_a)
                               if isinstance(n, (ast.While, ast.For)) and n.orelse and isinstance(n.orelse[0], SIMPLE))
    self.rt = RT()
    self.ns = {'__name__': 'vp_c05_prog', '_vp_enter': self.rt.enter, '_vp_lam': self.rt.lam, '_vp_p': RT.p,
               '_vp_it': RT.it, '_vp_mark': RT.mark, '_vp_bare': RT.bare, '_vp_caught': RT.caught,
               '_vp_prop': RT.prop, '_vp_exc': RT.exc}
    exec(compile(tree_b, '<c05-instrumented>', 'exec'), self.ns)

  def graph(self, fid):
    return self.cfgs[self.ins.na[fid]]

  def r(self, k):
    n = self.ins.na[k]
    return self.role.get(id(n), type(n).__name__)

  def text(self, k):
    n = self.ins.na[k]
    try:
      if isinstance(n, ast.arguments):
        return 'args(%s)' % ast.unparse(n)
      return ast.unparse(n).split('\n')[0][:50]
    except Exception:
      return type(n).__name__

  def run(self, bits):
    self.rt.acts = []
    _BUDGET[0] = MAX_PROBES
    t = harness.Tracer()
    c = harness.Decisions(bits, t)
    self.ns['G'][0] = 0
    outcome = 'return'
    try:
      self.ns['f'](t, c, [5, 7])
    except RecursionError:
      outcome = 'RecursionError'
    except Fuel:
      outcome = 'out-of-fuel'
    except Exception as e:
      outcome = type(e).__name__
    return c.i, outcome, self.rt.acts


def check_trace(P, a):
  """Returns a list of (kind, sig, what, detail) for one activation."""
  g = P.graph(a.fid)
  na = P.ins.na
  tr = a.trace
  limit = len(tr) if a.cut is None else a.cut
  out = []
  shown = lambda: [P.text(k) for k in tr[:60]]
  if limit >= 1:
    first = g.index.get(na[tr[0]]) if tr[0] >= 0 else None
    if first is None or first is not g.entry:
      out.append(('bad-entry', P.r(tr[0]) if tr[0] >= 0 else 'none',
                  'first executed node is not graph.entry %r' % (g.entry,), dict(trace=shown())))
  for j in range(1, limit):
    x, y = g.index[na[tr[j - 1]]], g.index[na[tr[j]]]
    if y not in x.next:
      exc = a.xpend is not None and j >= a.xpend[0]
      tgt = P.r(tr[j])
      sig = ('excfin:' if exc else '') + P.r(tr[j - 1]) + '->' + (tgt[tgt.index('@'):] if '@' in tgt else tgt)
      out.append(('missing-edge', sig,
                  'executed `%s` then `%s`%s but the graph has no such edge (successors: %s)'
                  % (P.text(tr[j - 1]), P.text(tr[j]),
                     ' while an explicitly raised exception runs finally blocks' if exc else '',
                     sorted(repr(n) for n in x.next)),
                  dict(trace=shown(), position=j)))
      break
  if a.cut is None and a.ended in ('return', 'raise') and not out:
    last = g.index[na[tr[-1]]]
    if last not in g.exit and not isinstance(last.ast_node, ast.Raise):
      out.append(('bad-exit', a.ended + ':' + P.r(tr[-1]),
                  'activation ended (%s) after `%s`, which is neither in graph.exit %s nor a Raise node'
                  % (a.ended, P.text(tr[-1]), sorted(repr(n) for n in g.exit)), dict(trace=shown())))
  return out


def check_source(src, maxlen=6, cap=48):
  """Everything for one program.  Returns dict(traces, nontrivial, failures[], vectors)."""
  res = dict(traces=0, nontrivial=False, failures=[], vectors=0, crash=None, pairs=0, exempt=0, jump_finally=0,
             raise_handler=0, loop_else=0)
  fails = res['failures']
  keys = set()

  def add(kind, sig, what, **more):
    if (kind, sig) in keys:
      return
    keys.add((kind, sig))
    d = dict(kind=kind, sig=sig, what=what)
    d.update(more)
    fails.append(d)
  try:
    P = Prepared(src)
  except SyntaxError as e:
    add('generator-bug', 'syntax', str(e))
    return res
  except NotImplementedError as e:
    add('generator-bug', 'stmt-' + str(e), 'statement kind not handled by the instrumenter')
    return res
  except Exception as e:
    tb = traceback.extract_tb(e.__traceback__)
    where = [f for f in tb if f.filename.endswith('cfg.py')]
    loc = where[-1].name if where else tb[-1].name
    res['crash'] = type(e).__name__
    add('build-crash', '%s-in-%s' % (type(e).__name__, loc),
        'cfg.build raised %s: %s' % (type(e).__name__, str(e)[:120]))
    return res
  # static clauses, every graph (helpers included)
  for fn, g in P.cfgs.items():
    for kind, sig, what in check_graph(fn, g, P.role):
      add(kind, sig, 'in %s: %s' % (getattr(fn, 'name', 'lambda'), what))
  for fid, k in P.ins.expected_missing:
    add('missing-node', P.r(k), '`%s` executes as a statement of the function but has no CFG node' % P.text(k))
  for fid, got in P.ins.probed.items():
    g = P.graph(fid)
    for n in g.index:
      if P.ins.ida[id(n)] not in got:
        add('oracle-gap', P.r(P.ins.ida[id(n)]), 'indexed node `%s` received no probe' % P.text(P.ins.ida[id(n)]))
  executed = {}

  def run(bits):
    used, outcome, acts = P.run(bits)
    res['vectors'] += 1
    if outcome == 'out-of-fuel':
      add('generator-bug', 'nonterminating', 'more than %d probes executed' % MAX_PROBES, decisions=[bool(b) for b in bits])
      return 0
    for a in acts:
      res['traces'] += 1
      limit = len(a.trace) if a.cut is None else a.cut
      # nodes executed after an exempt event (e.g. a handler reached only by an implicit exception) do not
      # count as "executed" for the dead-code clause: the graph does not model that flow by documentation
      executed.setdefault(a.fid, set()).update(k for k in a.trace[:limit] if k >= 0)
      if limit >= 4:
        res['nontrivial'] = True
      res['pairs'] += max(0, limit - 1)
      res['exempt'] += a.cut is not None
      for j in range(1, limit):      # coverage counters of the clauses the property names
        src_r, dst_r = P.r(a.trace[j - 1]), P.r(a.trace[j])
        if src_r.split('@')[0] in ('Return', 'Break', 'Continue', 'Raise') and dst_r.endswith('finally'):
          res['jump_finally'] += 1
        if src_r.startswith('Raise') and dst_r.endswith('handler'):
          res['raise_handler'] += 1
        if src_r.split('@')[0] in ('While.test', 'For.iter') and a.trace[j] in P.loop_else_first:
          res['loop_else'] += 1
      for kind, sig, what, detail in check_trace(P, a):
        add(kind, sig, what, decisions=[bool(b) for b in bits], function=getattr(P.ins.na[a.fid], 'name', 'lambda'),
            outcome=outcome, **detail)
    return used
  harness.adaptive_vectors(run, max_len=maxlen, cap=cap)
  for fid, ex in executed.items():
    g = P.graph(fid)
    live = reachable(g)
    for k in sorted(ex):
      n = g.index.get(P.ins.na[k])
      if n is not None and n not in live:
        add('dead-code-executed', P.r(k), '`%s` was executed but is unreachable from the entry in the graph' % P.text(k))
        break
  return res


# ------------------------------------------------------------------------------ extra program space
# Shapes the C05 quantifier names and progen lacks: loop else clauses, class bodies in functions, jumps
# through nested try/finally (from body, orelse, handler, finally), explicit raise with handlers at several
# levels, bare re-raise, nested def / lambda (incl. lambda in lambda), several with-items, dead code.
# avoid tags: 'D6'  no `except E as name`                 (crashes cfg.build, recorded)
#             'HJF' no jump statement inside a handler of a try that has a finally   (finding of this script)
#             'CBR' no `raise` directly in a class body nested in a function         (finding of this script)
#             'TEI' no `if` as FIRST statement of the else clause of a try             (finding of this script)

class XGen(object):
  def __init__(self, rnd, avoid=('D6', 'HJF', 'CBR', 'TEI'), max_depth=3, base_handlers=False):
    self.rnd = rnd
    self.avoid = set(avoid)
    self.max_depth = max_depth
    self.n = 0
    self.fuel = 0
    # opt-in (own block of programs, the default stream is unchanged): handlers that name a strict base class of what
    # is raised (KeyError -> LookupError, ValueError -> Exception) or a tuple containing one
    self.base_handlers = base_handlers

  def tk(self):
    self.n += 1
    return 't(%d)' % self.n

  def expr(self):
    r = self.rnd.random()
    if r < 0.35:
      return 'x + %s' % self.tk()
    if r < 0.5:
      return 'h1(x)'
    if r < 0.65:
      return '(lambda q: q + %d)(x)' % self.rnd.randint(0, 3)
    if r < 0.75:
      return '(lambda q: (lambda r: r + q)(%s))(x)' % self.tk()
    if r < 0.85:
      return '(x if c() else %s)' % self.tk()
    return self.tk()

  def cond(self):
    return self.rnd.choice(['c()', 'c()', 'not c()', 'x < 100 and c()', '(lambda: c())()', 'c() or x < 0'])

  def leaf(self, ind):
    r = self.rnd.random()
    if r < 0.5:
      return ['%sx = %s' % (ind, self.expr())]
    if r < 0.7:
      return ['%s%s' % (ind, self.tk())]
    if r < 0.8:
      return ['%sa.append(%s)' % (ind, self.tk())]
    if r < 0.9:
      return ['%sx += 1' % ind]
    return ['%spass' % ind]

  def jump(self, ind, ctx):
    """A jump statement, conditional (mostly) or not.  ctx: in_loop, nojump, in_fn"""
    kinds = ['ret', 'ret', 'raiseV', 'raiseV', 'raiseK']
    if ctx['in_loop']:
      kinds += ['brk', 'brk', 'cont', 'cont']
    if ctx.get('handler'):
      kinds += ['reraise']
    k = self.rnd.choice(kinds)
    st = {'ret': 'return (x, %s)' % self.tk(), 'raiseV': 'raise ValueError(%s)' % self.tk(),
          'raiseK': 'raise KeyError', 'brk': 'break', 'cont': 'continue', 'reraise': 'raise'}[k]
    if self.rnd.random() < 0.75:
      return ['%sif %s:' % (ind, self.cond()), '%s  %s' % (ind, st)]
    return [ind + st]

  def block(self, ind, depth, ctx, budget, lo=1, hi=3):
    out = []
    for _ in range(self.rnd.randint(lo, hi)):
      r = self.rnd.random()
      if budget[0] > 0 and depth < self.max_depth and r < 0.5:
        budget[0] -= 1
        out += self.compound(ind, depth, ctx, budget)
      elif r < 0.72 and not ctx['nojump']:
        out += self.jump(ind, ctx)
      else:
        out += self.leaf(ind)
    return out

  def compound(self, ind, depth, ctx, budget):
    i2 = ind + '  '
    d = depth + 1
    k = self.rnd.choice(['if', 'ifelse', 'while', 'for', 'try', 'try', 'try', 'tryf', 'with', 'def', 'lam', 'class'])
    sub = lambda **kw: dict(ctx, **kw)
    if k == 'if':
      return ['%sif %s:' % (ind, self.cond())] + self.block(i2, d, ctx, budget)
    if k == 'ifelse':
      out = ['%sif %s:' % (ind, self.cond())] + self.block(i2, d, ctx, budget)
      if self.rnd.random() < 0.4:
        out += ['%selif %s:' % (ind, self.cond())] + self.block(i2, d, ctx, budget)
      return out + ['%selse:' % ind] + self.block(i2, d, ctx, budget)
    if k in ('while', 'for'):
      self.fuel += 1
      if k == 'while':
        fu = 'fuel_%d' % self.fuel
        out = ['%s%s = 0' % (ind, fu), '%swhile %s < %d and %s:' % (ind, fu, self.rnd.randint(1, 3), self.cond()),
               '%s%s += 1' % (i2, fu)]
      else:
        out = ['%sfor i_%d in range(%d):' % (ind, self.fuel, self.rnd.randint(0, 2))]
      out += self.block(i2, d, sub(in_loop=True, handler=False), budget)
      if self.rnd.random() < 0.45:
        out += ['%selse:' % ind] + self.block(i2, d, sub(handler=False), budget)
      return out
    if k == 'tryf':
      return (['%stry:' % ind] + self.block(i2, d, sub(handler=False), budget)
              + ['%sfinally:' % ind] + self.block(i2, d, sub(handler=False), budget, 1, 2))
    if k == 'try':
      has_fin = self.rnd.random() < 0.5
      out = ['%stry:' % ind] + self.block(i2, d, sub(handler=False), budget)
      hctx = sub(handler=True)
      if has_fin and 'HJF' in self.avoid:
        hctx['nojump'] = True
      heads = self.rnd.choice([['ValueError'], ['ValueError', 'KeyError'], ['KeyError'], ['(ValueError, KeyError)'], ['ValueError', None]])
      if self.base_handlers:
        heads = self.rnd.choice([['LookupError'], ['Exception'], ['(LookupError, ValueError)'], ['ValueError', 'LookupError'],
                                 ['KeyError', 'Exception'], ['(ArithmeticError, Exception)'], heads])
      for h in heads:
        if h is None:
          out += ['%sexcept:' % ind]
        elif 'D6' not in self.avoid and self.rnd.random() < 0.3:
          out += ['%sexcept %s as err:' % (ind, h)]
        else:
          out += ['%sexcept %s:' % (ind, h)]
        out += self.block(i2, d, hctx, budget, 1, 2)
      if self.rnd.random() < 0.35:
        ob = self.block(i2, d, sub(handler=False), budget, 1, 2)
        if 'TEI' in self.avoid and ob[0].lstrip().startswith('if '):
          ob = ['%s%s' % (i2, self.tk())] + ob
        out += ['%selse:' % ind] + ob
      if has_fin:
        out += ['%sfinally:' % ind] + self.block(i2, d, sub(handler=False), budget, 1, 2)
      return out
    if k == 'with':
      self.n += 2
      head = 'CM(t, %d) as w' % self.n
      if self.rnd.random() < 0.4:
        head += ', CM(t, %d)' % (self.n - 1)
      return ['%swith %s:' % (ind, head)] + self.block(i2, d, ctx, budget)
    if k == 'def':
      self.fuel += 1
      name = 'g_%d' % self.fuel
      fctx = dict(in_loop=False, nojump=False, handler=False)
      out = ['%sdef %s(p):' % (ind, name), '%sx = p' % i2] + self.block(i2, d, fctx, budget) + ['%sreturn x + 1' % i2]
      call = '%sx = %s(x)' % (ind, name)
      if self.rnd.random() < 0.4:
        return out + ['%stry:' % ind, '  ' + call, '%sexcept (ValueError, KeyError):' % ind, '%s%s' % (i2, self.tk())]
      return out + [call]
    if k == 'lam':
      self.fuel += 1
      name = 'k_%d' % self.fuel
      body = self.rnd.choice(['q + x', '(lambda r: r * 2)(q)', 'q if c() else %s' % self.tk(), '[(lambda r: r)(q) for _ in range(2)][0]'])
      return ['%s%s = lambda q: %s' % (ind, name, body), '%sx = %s(%s)' % (ind, name, self.tk())]
    if k == 'class':
      self.fuel += 1
      name = 'K_%d' % self.fuel
      out = ['%sclass %s(object):' % (ind, name), '%sv = %s' % (i2, self.tk())]
      if self.rnd.random() < 0.5:
        out += ['%sfor j in range(2):' % i2, '%s  v = v + j' % i2, '%s  if c():' % i2, '%s    break' % i2]
      if 'CBR' not in self.avoid and self.rnd.random() < 0.3:
        out += ['%sif c():' % i2, '%s  raise ValueError(1)' % i2]
      fctx = dict(in_loop=False, nojump=False, handler=False)
      out += ['%sdef m(self, p):' % i2, '%s  x = p' % i2] + self.block(i2 + '  ', d + 1, fctx, budget) + ['%s  return x' % i2]
      out += ['%sw_ = lambda self: self.v' % i2]
      return out + ['%sx = %s().m(x) + %s().w_()' % (ind, name, name)]
    raise AssertionError(k)

  def program(self, size):
    ctx = dict(in_loop=False, nojump=False, handler=False)
    budget = [size]
    body = self.block('  ', 0, ctx, budget, 2, 3)
    while budget[0] > 0 and len(body) < 70:
      body += self.block('  ', 0, ctx, budget, 1, 2)
    return progen.HEADER + '\ndef f(t, c, a):\n  x = a[0]\n' + '\n'.join(body) + '\n  return x\n'


def xrandom_program(seed, size, avoid, base_handlers=False):
  return XGen(random.Random(seed), avoid, base_handlers=base_handlers).program(size)


def family(max_depth, avoid):
  """Bounded-exhaustive: one jump placed in a chain of nested try statements, optionally inside a loop."""
  avoid = set(avoid)
  loops = [None, ('while', False), ('while', True), ('for', False), ('for', True)]
  kinds = ['F', 'E', 'EF', 'EOF']     # finally / except / except+finally / except+else+finally
  jumps = ['break', 'continue', 'return x', 'raise ValueError(x)', 'raise KeyError(x)']

  def chains(d):
    if d == 0:
      yield ()
      return
    for k in kinds:
      for rest in chains(d - 1):
        yield (k,) + rest
  for loop in loops:
    for depth in range(1, max_depth + 1):
      for chain in chains(depth):
        inner = chain[-1]
        places = ['body']
        if 'E' in inner:
          places.append('handler')
        if 'O' in inner:
          places.append('orelse')
        if 'F' in inner:
          places.append('finally')
        for place in places:
          if place == 'handler' and 'F' in inner and 'HJF' in avoid:
            continue
          for jump in jumps:
            if loop is None and jump in ('break', 'continue'):
              continue
            yield _family_program(loop, chain, place, jump)


def _family_program(loop, chain, place, jump):
  n = [0]

  def tk():
    n[0] += 1
    return 't(%d)' % n[0]
  lines = []

  def emit_try(level, ind):
    k = chain[level]
    i2 = ind + '  '
    last = level == len(chain) - 1
    lines.append('%stry:' % ind)
    lines.append('%sx = x + %s' % (i2, tk()))
    if last:
      if place == 'body':
        lines.extend(['%sif c():' % i2, '%s  %s' % (i2, jump)])
      elif place == 'handler':
        lines.extend(['%sif c():' % i2, '%s  raise ValueError(0)' % i2])
    else:
      emit_try(level + 1, i2)
    lines.append('%s%s' % (i2, tk()))
    if 'E' in k:
      lines.append('%sexcept ValueError:' % ind)
      if last and place == 'handler':
        lines.extend(['%sif c():' % i2, '%s  %s' % (i2, jump)])
      lines.append('%s%s' % (i2, tk()))
    if 'O' in k:
      lines.append('%selse:' % ind)
      lines.append('%s%s' % (i2, tk()))     # (an `if` as first statement of a try-else crashes cfg.build: TEI)
      if last and place == 'orelse':
        lines.extend(['%sif c():' % i2, '%s  %s' % (i2, jump)])
      lines.append('%s%s' % (i2, tk()))
    if 'F' in k:
      lines.append('%sfinally:' % ind)
      if last and place == 'finally':
        lines.extend(['%sif c():' % i2, '%s  %s' % (i2, jump)])
      lines.append('%s%s' % (i2, tk()))
  ind = '  '
  if loop is not None:
    if loop[0] == 'while':
      lines.extend(['  fuel_1 = 0', '  while fuel_1 < 2 and c():', '    fuel_1 += 1'])
    else:
      lines.append('  for i_1 in range(2):')
    ind = '    '
  emit_try(0, ind)
  lines.append('%s%s' % (ind, tk()))
  if loop is not None and loop[1]:
    lines.extend(['  else:', '    %s' % tk()])
  return progen.HEADER + '\ndef f(t, c, a):\n  x = a[0]\n' + '\n'.join(lines) + '\n  return x\n'


# ------------------------------------------------------------------------------ witnesses of recorded findings

WITNESSES = [
    ('known-D6', 'except-as-name-crashes-cfg-build', '''
def f(t, c, a):
  try:
    t(1)
  except ValueError as e:
    t(2)
'''),
    ('known-HJF', 'jump-in-handler-skips-finally-of-same-try', '''
def f(t, c, a):
  try:
    raise ValueError
  except ValueError:
    return 1
  finally:
    t(5)
'''),
    ('known-CBR', 'raise-in-class-body-crashes-cfg-build', '''
def f(t, c, a):
  class K:
    raise ValueError
'''),
    ('known-TEI', 'if-first-in-try-else-crashes-cfg-build', '''
def f(t, c, a):
  try:
    t(1)
  except ValueError:
    t(2)
  else:
    if c():
      t(3)
'''),
]


# ------------------------------------------------------------------------------ minimisation, driver

def _keys(src, maxlen, cap):
  try:
    return set(f['kind'] + ':' + f['sig'] for f in check_source(src, maxlen, cap)['failures'])
  except Exception:
    return set()


def minimise(src, key, maxlen, cap, budget=250):
  """Greedy deletion of lines (with their indented blocks) from f while `key` still fails."""
  head, sep, body = src.partition('\ndef f(t, c, a):\n')
  lines = body.split('\n')
  changed = True
  while changed and budget > 0:
    changed = False
    i = 0
    while i < len(lines) and budget > 0:
      ind = len(lines[i]) - len(lines[i].lstrip())
      j = i + 1
      while j < len(lines) and lines[j].strip() and len(lines[j]) - len(lines[j].lstrip()) > ind:
        j += 1
      for cand in (lines[:i] + lines[j:], lines[:i] + lines[i + 1:]):
        budget -= 1
        trial = head + sep + '\n'.join(cand)
        try:
          ast.parse(trial)
        except SyntaxError:
          continue
        if key in _keys(trial, maxlen, cap):
          lines = cand
          changed = True
          break
      else:
        i += 1
  return head + sep + '\n'.join(lines)


def check_item(item):
  idx, origin, src, maxlen, cap = item
  try:
    r = check_source(src, maxlen, cap)
  except Exception as e:     # an error of the oracle itself must be visible, not swallowed
    r = dict(traces=0, nontrivial=False, vectors=0, crash=None, pairs=0, exempt=0, jump_finally=0, raise_handler=0,
             loop_else=0,
             failures=[dict(kind='oracle-error', sig=type(e).__name__, what=traceback.format_exc()[-600:])])
  r['idx'] = idx
  return r


def main():
  ap = argparse.ArgumentParser()
  ap.add_argument('seed', type=int)
  ap.add_argument('tier')
  ap.add_argument('--avoid', default='auto',
                  help='comma list of D6,HJF,CBR,TEI; auto = avoid exactly those whose witness still fails')
  ap.add_argument('--k', type=int, default=None)
  ap.add_argument('--random', type=int, default=None)
  ap.add_argument('--xrandom', type=int, default=None)
  ap.add_argument('--depth', type=int, default=None)
  ap.add_argument('--maxfail', type=int, default=10)
  a = ap.parse_args()
  if a.avoid == 'auto':
    # a recorded defect that has been repaired must come back into the program space
    avoid = tuple(wkind[len('known-'):] for wkind, wsig, body in WITNESSES
                  if check_source(progen.HEADER + body)['failures'])
  else:
    avoid = tuple(x for x in a.avoid.split(',') if x)
  thorough = a.tier == 'thorough'
  K = a.k if a.k is not None else (3 if thorough else 2)
  nrand = a.random if a.random is not None else (12000 if thorough else 1500)
  nx = a.xrandom if a.xrandom is not None else (20000 if thorough else 2500)
  depth = a.depth if a.depth is not None else (3 if thorough else 2)
  pg_avoid = tuple(x for x in ('D1', 'D2', 'D6') if x in avoid or x != 'D6')
  items = []

  def put(origin, src, maxlen=6, cap=48):
    items.append((len(items), origin, src, maxlen, cap))
  for wkind, wsig, body in WITNESSES:
    put(('witness', wkind, wsig), progen.HEADER + body)
  for tree in progen.skeletons(K):
    put('skeleton', progen.skeleton_program(tree, pg_avoid), 7, 48)
  nskel = len(items) - len(WITNESSES)
  for i in range(nrand):
    put('random', progen.random_program(a.seed * 1000003 + i, size=2 + (i % 5), avoid=pg_avoid))
  for i in range(nx):
    put('xrandom', xrandom_program(a.seed * 7000003 + i, 2 + (i % 5), avoid))
  for i in range(nx // 5):
    put('xrandom-base-handlers', xrandom_program(a.seed * 11000003 + i, 2 + (i % 5), avoid, base_handlers=True))
  nfam = 0
  for src in family(depth, avoid):
    put('family', src, 7, 64)
    nfam += 1
  traces = vectors = nontrivial = programs = 0
  cov = dict(pairs=0, exempt=0, jump_finally=0, raise_handler=0, loop_else=0)
  seen = set()
  found = {}
  samples = []
  for r in harness.pool_map(check_item, items, chunksize=8):
    _, origin, src, maxlen, cap = items[r['idx']]
    programs += 1
    traces += r['traces']
    vectors += r['vectors']
    for k in cov:
      cov[k] += r.get(k, 0)
    h = hashlib.sha1(src.encode()).hexdigest()
    if r['nontrivial'] and h not in seen:
      seen.add(h)
      nontrivial += 1
    for f in r['failures']:
      f = dict(f)
      if isinstance(origin, tuple):
        f['observed'] = f['kind'] + ':' + f['sig']
        f['kind'], f['sig'] = origin[1], origin[2]
      key = f['kind'] + ':' + f['sig']
      if key not in found or len(src) < len(found[key][1]):
        found[key] = (f, src, maxlen, cap, origin)
    if len(samples) < 2 and r['nontrivial'] and origin in ('xrandom', 'family') and not r['failures']:
      samples.append(src[len(progen.HEADER):][:700])
  failures = []
  for key in sorted(found)[:a.maxfail]:
    f, src, maxlen, cap, origin = found[key]
    if not isinstance(origin, tuple) and f['kind'] not in ('oracle-error', 'generator-bug'):
      small = minimise(src, key, maxlen, cap)
      if small != src:
        for g in check_source(small, maxlen, cap)['failures']:
          if g['kind'] + ':' + g['sig'] == key:
            f, src = dict(g), small
            break
    f['program'] = src[len(progen.HEADER):] if src.startswith(progen.HEADER) else src
    f['header'] = 'progen.HEADER'
    f['origin'] = origin if isinstance(origin, str) else origin[0]
    failures.append(f)
  harness.emit(dict(
      evaluated=traces, distinct_nontrivial=nontrivial, programs=programs, decision_vectors=vectors,
      skeleton_programs=nskel, random_programs=nrand, xrandom_programs=nx, family_programs=nfam,
      witnesses=len(WITNESSES), K=K, edges_checked=cov['pairs'], traces_cut_by_exemption=cov['exempt'],
      jump_into_finally_edges=cov['jump_finally'], raise_to_handler_edges=cov['raise_handler'],
      loop_header_to_else_edges=cov['loop_else'], family_depth=depth, avoid=list(avoid), distinct_failure_keys=len(found),
      rule='programs: progen.skeletons(K<=%d) + %d progen.random_program + %d own random programs (loop else '
           'clauses, classes in functions, jumps in try body/handler/orelse/finally, raise/re-raise with handlers at '
           'several levels, nested def, lambda in lambda, multi-item with, dead code) + bounded-exhaustive family '
           '(one jump {break,continue,return,raise V,raise K} x place {body,handler,orelse,finally} x chains of <=%d '
           'nested try kinds {F,E,EF,EOF} x {no loop,while,while-else,for,for-else}); each run on adaptively explored '
           'decision vectors (len<=6/7, cap 48/64). One case = one function activation trace (f and everything '
           'nested in it) checked edge by edge against that function\'s graph; static clauses (mirror links, entry, '
           'reachable-or-dead, stmt_next/stmt_prev vs lexical containment) are checked once per graph. A program is '
           'non-trivial when some activation has >= 4 checked nodes. Avoided generator features (each has one '
           'explicit witness instead): %s' % (K, nrand, nx, depth, ','.join(avoid)),
      samples=samples, failures=failures))


if __name__ == '__main__':
  main()
