"""Shared run-time machinery of the bounded stand-ins: load generated programs from real files
(inspect.getsource must work), run them with a tracer / decision source, convert them with malt."""
import importlib.util
import itertools
import json
import multiprocessing as mp
import os
import sys
import tempfile
import traceback


class Tracer(object):
  """t(k): record k, return k.  Everything a program does through t is an observable effect."""

  def __init__(self):
    self.events = []

  def __call__(self, k):
    self.events.append(('t', repr(k)))
    return k


class Decisions(object):
  """c(): next bool of a fixed vector (False when exhausted); the reads are observable too."""

  def __init__(self, bits, tracer):
    self.bits = list(bits)
    self.i = 0
    self.tracer = tracer

  def __call__(self):
    v = self.bits[self.i] if self.i < len(self.bits) else False
    self.i += 1
    self.tracer.events.append(('c', v))
    return v


_SCRATCH = None


def scratch_dir():
  global _SCRATCH
  if _SCRATCH is None:
    _SCRATCH = tempfile.mkdtemp(prefix='verif_prog_')
  return _SCRATCH


def load_source(src, name):
  """Write `src` to <scratch>/<name>.py and import it as a fresh module."""
  path = os.path.join(scratch_dir(), name + '.py')
  with open(path, 'w') as f:
    f.write(src)
  spec = importlib.util.spec_from_file_location(name, path)
  mod = importlib.util.module_from_spec(spec)
  sys.modules[name] = mod
  spec.loader.exec_module(mod)
  return mod


def unload(name):
  sys.modules.pop(name, None)
  try:
    os.remove(os.path.join(scratch_dir(), name + '.py'))
  except OSError:
    pass


def observe(fn, mod, bits, a0=(5, 7)):
  """Run fn(t, c, a) and return everything externally visible."""
  t = Tracer()
  c = Decisions(bits, t)
  a = list(a0)
  mod.G[0] = 0
  try:
    r = fn(t, c, a)
    outcome = ('return', repr(r))
  except RecursionError:
    outcome = ('raise', 'RecursionError')
  except Exception as e:   # the *type* of an escaping exception is part of the observation
    outcome = ('raise', exc_kind(e))
  return dict(outcome=outcome, events=t.events, a=repr(a), G=mod.G[0], used=c.i)


def exc_kind(e):
  n = type(e).__name__
  if isinstance(e, NameError):
    return 'NameError'      # UnboundLocalError is a NameError: "some NameError" is all C01 asks
  return n


def decision_vectors(max_len, used_hint=None):
  """All bool vectors up to max_len (shorter ones are prefixes padded with False by Decisions)."""
  for n in range(0, max_len + 1):
    if n == 0:
      yield ()
    else:
      for bits in itertools.product([False, True], repeat=n):
        if bits[-1]:          # vectors ending in False duplicate a shorter one
          yield bits


def adaptive_vectors(run, max_len=6, cap=48):
  """Explore decision vectors depth first, extending only vectors whose run consumed every bit."""
  out = []
  work = [()]
  seen = set()
  while work and len(out) < cap:
    bits = work.pop()
    if bits in seen:
      continue
    seen.add(bits)
    used = run(bits)
    out.append(bits)
    if used > len(bits) and len(bits) < max_len:
      # the run asked for more decisions than the vector had: branch on the first missing one
      work.append(bits + (False,) * (used - len(bits) - 1) + (True,)) if used - len(bits) >= 1 else None
      work.append(bits + (True,))
  return out


def pool_map(fn, items, procs=None, chunksize=4, deadline=None):
  """imap_unordered over a fork pool.  With `deadline` (a time.time() value) the iteration stops when the deadline
  passes even if no worker delivers anything any more (a tree on which conversions have become pathologically slow
  must end in a truncated report, not in a hung check); the pool is terminated on exit."""
  import time as _time
  procs = procs or min(16, os.cpu_count() or 4)
  ctx = mp.get_context('fork')
  with ctx.Pool(procs) as pool:
    # (only the unchunked iterator has next(timeout))
    it = pool.imap_unordered(fn, items, chunksize=chunksize if deadline is None else 1)
    while True:
      try:
        if deadline is None:
          r = next(it)
        else:
          left = deadline - _time.time()
          if left <= 0:
            return
          r = it.next(timeout=left)
      except StopIteration:
        return
      except mp.TimeoutError:
        return
      yield r


def emit(result):
  print(json.dumps(result, default=str))
