"""C18 bounded stand-in: `anf.transform` preserves evaluation order and yields A-normal form.

usage: c18_anf.py <seed> <tier> [--n N] [--include-hazards] [--no-witnesses] [--maxfail K]

Program space.  Every program is a module-less function  f(x, y, a, o)  (x, y ints, a a 3-element list, o a
recording object) over straight-line / if / for / with / try / while(fuel) / nested-def statements whose
expressions put side-effecting tracer calls in every operand position of the property's list: call func /
arguments / keywords / *starred / **double-starred, attribute bases, subscript bases and indices, slice
bounds, binary / unary / compare operands, tuple / list / set / dict displays, return / raise operands,
if tests, for iterables, with items.  The tracers (t, tl, td, tf, to, tc, te, g, recording property .p,
method .m, __getitem__/__setitem__, __enter__/__exit__) append to one event list; h / hc are pure.  Lazy
constructs (and/or, conditional expression, lambda, comprehension, chained comparison, f-string, assert,
while with an effectful test) are mixed in with a small probability.

Configurations: the default one (config=None) and seeded random edge-pattern lists of
(ASTEdgePattern(parent, field, child) | ANY, REPLACE | LEAVE | callable).

Oracle, for every (program, configuration):
  (d) the transformer may reject (any exception): counted, not a failure;
  (a) otherwise the unparsed output must compile and, on every input tried, give the same outcome (return value
      or exception type+args), the same ordered event list and the same final a / o.v as the original;
  (b) every operand slot of the output for which the configuration (re-evaluated here from its *spec*, by
      (parent type, field, child type), first matching rule governs, fall-through = leave) asks for a name
      holds something the configuration no longer asks about (a Name or, when literals are left, a literal);
      exempt are exactly the positions the docstring of `transform` exempts (direct children of Assign /
      AugAssign / Delete; Expr statements are treated like Assign) and Store-context displays;
  (c) the names the output introduces are pairwise distinct (one binding occurrence each) and differ from
      every name of the input.

Recorded defects are kept OUT of the default space by a static hazard model (see `Hazards`) and IN the run as
explicit witnesses:
  known-D12-dict-order   dict display: all keys hoisted before all values
  known-D12-slice        ast.Slice hoisted into `tmp = lo:hi` (guard tests the obsolete ast.slice)
  new-D15-hoist-order    statements hoisted out of operand j are emitted before operand i < j itself is
                         evaluated (nested operand / partial configuration / with items)
  new-D16-assign-target-order  subexpressions of an assignment target are hoisted before the right-hand side
A program is non-trivial when it was accepted, introduced >= 1 temporary and its original run produced >= 2
effect events; distinct by (source, configuration spec).
"""
import argparse
import ast
import copy
import hashlib
import os
import random
import sys
import traceback

sys.path.insert(0, os.path.dirname(os.path.abspath(__file__)))
import harness

from malt.pyct import parser
from malt.pyct import transformer
from malt.pyct.common_transformers import anf


# ----------------------------------------------------------------------------------------------- run-time world

class Env(object):
  """Fresh tracer world for one execution; every effect lands in self.ev in order."""

  def __init__(self):
    self.ev = []

  def ns(self):
    ev = self.ev
    env = self

    class Obj(object):
      def __init__(self, k):
        object.__setattr__(self, 'k', k)
        object.__setattr__(self, 'v', k)

      @property
      def p(self):
        ev.append(('p', self.k))
        return self.k + 1

      def m(self, x=0):
        ev.append(('m', self.k, repr(x)))
        return self.k + (x if isinstance(x, int) else 0)

      def __getitem__(self, i):
        ev.append(('getitem', self.k, repr(i)))
        return self.k + 2

      def __setitem__(self, i, v):
        ev.append(('setitem', self.k, repr(i), repr(v)))

    class CM(object):
      def __init__(self, k):
        self.k = k

      def __enter__(self):
        ev.append(('enter', self.k))
        return self.k

      def __exit__(self, *exc):
        ev.append(('exit', self.k))
        return False

    def t(k):
      ev.append(('t', repr(k)))
      return k

    def tl(k):
      ev.append(('tl', repr(k)))
      return [k, k + 1, k + 2]

    def td(k):
      ev.append(('td', repr(k)))
      return {'kw': k}

    def tf(k):
      ev.append(('tf', repr(k)))

      def fn(*a, **kw):
        ev.append(('call', k, repr(a), repr(sorted(kw.items()))))
        return k + _mix(a, kw)
      return fn

    def to(k):
      ev.append(('to', repr(k)))
      return Obj(k)

    def tc(k):
      ev.append(('tc', repr(k)))
      return CM(k)

    def te(k):
      ev.append(('te', repr(k)))
      return ValueError(k)

    def g(*a, **kw):
      ev.append(('g', repr(a), repr(sorted(kw.items()))))
      return _mix(a, kw)

    def h(p0=0, p1=0, *rest, k=0, **kw):
      return _mix((p0, p1) + rest, dict(kw, k=k))

    def hc(c):
      return sum(map(ord, repr(c))) % 97

    self.Obj = Obj
    return dict(t=t, tl=tl, td=td, tf=tf, to=to, tc=tc, te=te, g=g, h=h, hc=hc)


def _mix(a, kw):
  r = 0
  for i, v in enumerate(a):
    r += (i + 2) * (v if isinstance(v, int) else len(repr(v)))
  for i, (n, v) in enumerate(sorted(kw.items())):
    r += (i + 11) * (v if isinstance(v, int) else len(repr(v)))
  return r % 1009


EFFECT_FUNCS = frozenset(['t', 'tl', 'td', 'tf', 'to', 'tc', 'te', 'g'])
PURE_FUNCS = frozenset(['h', 'hc', 'len', 'sum', 'ValueError', 'abs'])
INPUTS = [(0, 1), (2, 1), (3, 3)]


def run(fn_code, name, inp):
  env = Env()
  ns = env.ns()
  a = [5, 7, 9]
  try:
    exec(fn_code, ns)
    o = env.Obj(0)
    r = ns[name](inp[0], inp[1], a, o)
    outcome = ('return', repr(r))
    ov = o.v
  except RecursionError:
    outcome, ov = ('raise', 'RecursionError'), None
  except Exception as e:
    outcome, ov = ('raise', type(e).__name__, repr(e.args)[:200]), None
  return dict(outcome=outcome, events=env.ev, a=repr(a), ov=repr(ov))


# ----------------------------------------------------------------------------------------------- configurations

# A configuration *spec* is None (default) or a list of rules; a rule is
#   dict(parent=[type names] | None, field=str | None, child=[type names] | None, action=..., whole=bool)
# `whole` means the rule's pattern is the bare anf.ANY.  Actions: 'REPLACE', 'LEAVE', or a named callable.

CALLABLES = {
    'calls_to_t_only': lambda p, f, c: isinstance(c, ast.Call) and isinstance(c.func, ast.Name) and c.func.id == 't',
    'not_under_return': lambda p, f, c: not isinstance(p, ast.Return),
    'non_constant': lambda p, f, c: not isinstance(c, ast.Constant),
}

PARENTS = ['Call', 'BinOp', 'UnaryOp', 'Compare', 'Attribute', 'Subscript', 'Tuple', 'List', 'Set', 'Dict',
           'Return', 'Raise', 'If', 'For', 'With', 'BoolOp', 'IfExp']
FIELDS = ['func', 'args', 'keywords', 'left', 'right', 'operand', 'comparators', 'value', 'slice', 'elts', 'keys',
          'values', 'test', 'iter', 'items', 'exc', 'cause']
CHILDREN = [['expr'], ['Call'], ['BinOp'], ['Constant'], ['Constant', 'Name'], ['Subscript'], ['Attribute'],
            ['Tuple', 'List', 'Set', 'Dict'], ['Compare', 'UnaryOp'], ['Slice'], ['Call', 'BinOp']]


def random_spec(rnd):
  r = rnd.random()
  if r < 0.30:
    return None
  rules = []
  # most random configurations protect slices first: naming a slice is the recorded D12
  if rnd.random() < 0.85:
    rules.append(dict(parent=None, field=None, child=['Slice'], action='LEAVE', whole=False))
  for _ in range(rnd.randint(1, 4)):
    if rnd.random() < 0.08:
      rules.append(dict(parent=None, field=None, child=None, action=rnd.choice(['REPLACE', 'LEAVE']), whole=True))
      continue
    parent = None if rnd.random() < 0.45 else rnd.sample(PARENTS, rnd.randint(1, 3))
    field = None if rnd.random() < 0.6 else rnd.choice(FIELDS)
    child = None if rnd.random() < 0.3 else rnd.choice(CHILDREN)
    ar = rnd.random()
    action = 'REPLACE' if ar < 0.55 else 'LEAVE' if ar < 0.8 else rnd.choice(sorted(CALLABLES))
    rules.append(dict(parent=parent, field=field, child=child, action=action, whole=False))
  tail = rnd.random()
  if tail < 0.4:
    rules.append(dict(parent=None, field=None, child=['Constant', 'Name'], action='LEAVE', whole=False))
    rules.append(dict(parent=None, field=None, child=['expr'], action='REPLACE', whole=False))
  elif tail < 0.55:
    rules.append(dict(parent=None, field=None, child=['expr'], action='REPLACE', whole=False))
  return rules


def _types(names):
  return tuple(getattr(ast, n) for n in names)


def build_config(spec):
  """The object handed to anf.transform."""
  if spec is None:
    return None
  out = []
  for r in spec:
    act = {'REPLACE': anf.REPLACE, 'LEAVE': anf.LEAVE}.get(r['action']) or CALLABLES[r['action']]
    if r['whole']:
      out.append((anf.ANY, act))
    else:
      out.append((anf.ASTEdgePattern(anf.ANY if r['parent'] is None else _types(r['parent']),
                                     anf.ANY if r['field'] is None else r['field'],
                                     anf.ANY if r['child'] is None else _types(r['child'])), act))
  return out


DEFAULT_SPEC = [dict(parent=None, field=None, child=['Constant', 'Name'], action='LEAVE', whole=False),
                dict(parent=None, field=None, child=['expr'], action='REPLACE', whole=False)]


def asks(spec, parent, field, child):
  """Does the configuration ask for `child` (reached from `parent` through `field`) to be named?  Own reading of
  the documented semantics: first matching rule governs; no rule matches = leave."""
  for r in (DEFAULT_SPEC if spec is None else spec):
    if not r['whole']:
      if r['parent'] is not None and not isinstance(parent, _types(r['parent'])):
        continue
      if r['field'] is not None and r['field'] != field:
        continue
      if r['child'] is not None and not isinstance(child, _types(r['child'])):
        continue
    if r['action'] == 'REPLACE':
      return True
    if r['action'] == 'LEAVE':
      return False
    return bool(CALLABLES[r['action']](parent, field, child))
  return False


def nameable(child):
  """Expressions that can meaningfully be replaced by a variable (docstring: variable references never are;
  special-purpose nodes are not exposed).  ast.Slice is not nameable: naming it is the recorded D12."""
  if not isinstance(child, ast.expr):
    return False
  if isinstance(child, (ast.Name, ast.Starred, ast.Slice)):
    return False
  if isinstance(child, ast.Constant) and child.value is Ellipsis:
    return False
  return True


def should_name(spec, parent, field, child):
  return nameable(child) and asks(spec, parent, field, child)


# ----------------------------------------------------------------------------------------------- operand slots

LAZY = (ast.BoolOp, ast.IfExp, ast.Lambda, ast.ListComp, ast.SetComp, ast.DictComp, ast.GeneratorExp,
        ast.JoinedStr, ast.FormattedValue, ast.Await, ast.YieldFrom)


def slots(node):
  """Operand slots of `node` in evaluation order: (query parent, query field, child expression, can_be_named).
  Starred / keyword / withitem pass the enclosing (parent, field) through, as documented."""
  out = []

  def add(parent, field, v, ok=True):
    if v is None:
      return
    if isinstance(v, list):
      for x in v:
        add(parent, field, x, ok)
    elif isinstance(v, ast.keyword):
      add(parent, field, v.value, ok)
    elif isinstance(v, ast.Starred):
      add(parent, field, v.value, ok)
    elif isinstance(v, ast.withitem):
      add(parent, field, v.context_expr, ok)
      if v.optional_vars is not None and not isinstance(v.optional_vars, ast.Name):
        add(parent, field, v.optional_vars, False)
    elif isinstance(v, ast.expr):
      out.append((parent, field, v, ok))

  n = node
  if isinstance(n, ast.Call):
    add(n, 'func', n.func); add(n, 'args', n.args); add(n, 'keywords', n.keywords)
  elif isinstance(n, ast.BinOp):
    add(n, 'left', n.left); add(n, 'right', n.right)
  elif isinstance(n, ast.UnaryOp):
    add(n, 'operand', n.operand)
  elif isinstance(n, ast.Compare):
    add(n, 'left', n.left); add(n, 'comparators', n.comparators)
  elif isinstance(n, ast.Attribute):
    add(n, 'value', n.value)
  elif isinstance(n, ast.Subscript):
    add(n, 'value', n.value); add(n, 'slice', n.slice)
  elif isinstance(n, ast.Slice):
    add(n, 'lower', n.lower, False); add(n, 'upper', n.upper, False); add(n, 'step', n.step, False)
  elif isinstance(n, (ast.Tuple, ast.List)):
    add(n, 'elts', n.elts, not isinstance(n.ctx, ast.Store))
  elif isinstance(n, ast.Set):
    add(n, 'elts', n.elts)
  elif isinstance(n, ast.Dict):
    add(n, 'keys', n.keys); add(n, 'values', n.values)     # the transformer's order; D12 is handled apart
  elif isinstance(n, ast.BoolOp):
    add(n, 'values', n.values)
  elif isinstance(n, ast.IfExp):
    add(n, 'test', n.test); add(n, 'body', n.body); add(n, 'orelse', n.orelse)
  elif isinstance(n, ast.Lambda):
    add(n, 'body', n.body)
  elif isinstance(n, ast.JoinedStr):
    add(n, 'values', n.values)
  elif isinstance(n, ast.FormattedValue):
    add(n, 'value', n.value)
  elif isinstance(n, ast.NamedExpr):
    add(n, 'value', n.value, False)
  elif isinstance(n, ast.Return):
    add(n, 'value', n.value)
  elif isinstance(n, ast.Raise):
    add(n, 'exc', n.exc); add(n, 'cause', n.cause)
  elif isinstance(n, ast.Expr):
    add(n, 'value', n.value, False)
  elif isinstance(n, ast.AugAssign):
    add(n, 'target', n.target, False); add(n, 'value', n.value, False)
  elif isinstance(n, ast.If):
    add(n, 'test', n.test)
  elif isinstance(n, ast.While):
    add(n, 'test', n.test)
  elif isinstance(n, ast.For):
    add(n, 'iter', n.iter)
  elif isinstance(n, ast.With):
    add(n, 'items', n.items)
  elif isinstance(n, ast.Assert):
    add(n, 'test', n.test); add(n, 'msg', n.msg)
  return out


# ----------------------------------------------------------------------------------------------- hazard model

def top_effect(n):
  if isinstance(n, ast.Call):
    f = n.func
    return not (isinstance(f, ast.Name) and f.id in PURE_FUNCS)
  if isinstance(n, ast.Attribute):
    return n.attr == 'p'
  if isinstance(n, ast.Subscript):
    v = n.value
    return (isinstance(v, ast.Name) and v.id == 'o') or (isinstance(v, ast.Call) and isinstance(v.func, ast.Name)
                                                         and v.func.id == 'to')
  return False


def has_effect(n):
  return any(top_effect(x) for x in ast.walk(n))


class Hazards(object):
  """Static model of which programs trigger a *recorded* order defect under a configuration.

  For a node with operands c1..cn the transformer emits  P(c1) .. P(cn), then the naming assignments of the
  operands it names, then the node with the rest R(ci) in place; Python evaluates P(c1) R(c1) .. P(cn) R(cn).
  Both agree unless, for some i < j,  R(ci) has an effect and P(cj) has an effect  (D15, nested operand), or
  ci stays in place with an effect while cj is named and has an effect (D15, partial configuration).
  Assignment: anything hoisted out of a target precedes the right-hand side (D16).  Dict display: value i
  before key j > i (D12).  A Slice the configuration names (D12)."""

  def __init__(self, spec):
    self.spec = spec
    self.found = set()

  def expr(self, e):
    """-> (effect in statements hoisted out of e, effect remaining in e)"""
    if isinstance(e, LAZY) or (isinstance(e, ast.Compare) and len(e.ops) > 1):
      return False, has_effect(e)          # accepted only if nothing at all is hoisted from inside
    if isinstance(e, ast.Dict):
      for i in range(len(e.values)):
        for j in range(i + 1, len(e.keys)):
          if e.keys[j] is not None and has_effect(e.values[i]) and has_effect(e.keys[j]):
            self.found.add('D12-dict')
    sl = slots(e)
    for (p, f, c, ok) in sl:
      if isinstance(c, ast.Slice) and asks(self.spec, p, f, c):
        self.found.add('D12-slice')
      if (isinstance(c, ast.Tuple) and any(isinstance(x, ast.Slice) for x in c.elts)
          and ok and should_name(self.spec, p, f, c)):
        self.found.add('D12-slice')        # o[i, lo:hi]: the index tuple holding the slice is named
    return self.combine(sl, top_effect(e))

  def combine(self, sl, top):
    info = []
    for (p, f, c, ok) in sl:
      pc, rc = self.expr(c)
      named = ok and should_name(self.spec, p, f, c)
      info.append((pc, rc, named))
    for i in range(len(info)):
      for j in range(i + 1, len(info)):
        pi, ri, ni = info[i]
        pj, rj, nj = info[j]
        if ri and pj:
          self.found.add('D15')
        if ri and not ni and nj and rj:
          self.found.add('D15')
    eff_p = any(pc or (named and rc) for (pc, rc, named) in info)
    eff_r = top or any(rc and not named for (pc, rc, named) in info)
    return eff_p, eff_r

  def stmt(self, s):
    if isinstance(s, ast.Assign):
      pv, rv = self.expr(s.value)
      pt = False
      for tg in s.targets:
        p_, r_ = self.expr(tg)
        pt = pt or p_
      if pt and (pv or rv):
        self.found.add('D16')
    elif isinstance(s, ast.With):
      info = []
      for it in s.items:
        pc, rc = self.expr(it.context_expr)
        named = should_name(self.spec, s, 'items', it.context_expr)
        info.append((pc or (named and rc), True))      # __enter__ stays in place and records
      for i in range(len(info)):
        for j in range(i + 1, len(info)):
          if info[i][1] and info[j][0]:
            self.found.add('D15')
    elif isinstance(s, (ast.Return, ast.Raise, ast.Expr, ast.AugAssign, ast.If, ast.While, ast.For, ast.Assert)):
      self.combine(slots(s), False)
    for fld in ('body', 'orelse', 'finalbody'):
      for sub in getattr(s, fld, []) or []:
        self.stmt(sub)
    for hd in getattr(s, 'handlers', []) or []:
      for sub in hd.body:
        self.stmt(sub)
    return self.found


def hazards(tree, spec):
  return sorted(Hazards(spec).stmt(tree))


# ----------------------------------------------------------------------------------------------- generator

class Gen(object):
  def __init__(self, rnd, lazy_p=0.04, discipline=0.85, slices=True, dict_spread=False):
    self.rnd = rnd
    self.dict_spread = dict_spread    # opt-in family: dict displays with a ** entry
    self.n = 0
    self.uid = 0
    self.lazy_p = lazy_p
    self.discipline = discipline
    self.slices = slices

  def K(self):
    self.n += 1
    return self.n

  def U(self):
    self.uid += 1
    return self.uid

  # ---- leaves
  def pure_leaf(self, vs):
    r = self.rnd.random()
    if r < 0.55:
      return self.rnd.choice(vs)
    return str(self.rnd.randint(0, 4))

  def eff_leaf(self, vs):
    r = self.rnd.random()
    if r < 0.6:
      return 't(%d)' % self.K()
    if r < 0.7:
      return 'g(%d)' % self.K()
    if r < 0.8:
      return 'o.p'
    if r < 0.9:
      return 'o[%d]' % self.K()
    return 'o.m(%d)' % self.K()

  def operands(self, n, d, vs, eff):
    """n int operands; disciplined = one deep effectful operand, pure ones before it, flat ones after it."""
    if not eff:
      return [self.ie(d - 1, vs, False) for _ in range(n)]
    if self.rnd.random() < self.discipline:
      deep = 0 if self.rnd.random() < 0.7 else self.rnd.randrange(n)
      out = []
      for i in range(n):
        if i < deep:
          out.append(self.ie(d - 1, vs, False))
        elif i == deep:
          out.append(self.ie(d - 1, vs, True))
        elif self.rnd.random() < 0.7:
          out.append(self.eff_leaf(vs) if self.rnd.random() < 0.75 else self.pure_leaf(vs))
        else:
          out.append(self.ie(d - 1, vs, False))
      return out
    return [self.ie(d - 1, vs, True) for _ in range(n)]

  # ---- expressions
  def ie(self, d, vs, eff=True):
    """int-valued expression"""
    rnd = self.rnd
    if d <= 0:
      return self.eff_leaf(vs) if (eff and rnd.random() < 0.65) else self.pure_leaf(vs)
    if eff and rnd.random() < self.lazy_p:
      return self.lazy(d, vs)
    r = rnd.random()
    if r < 0.16:
      a, b = self.operands(2, d, vs, eff)
      return '(%s %s %s)' % (a, rnd.choice(['+', '-', '*']), b)
    if r < 0.22:
      return '(%s%s)' % (rnd.choice(['-', '~', '+']), self.ie(d - 1, vs, eff))
    if r < 0.42:
      return self.call(d, vs, eff)
    if r < 0.50:
      a, b = self.operands(2, d, vs, eff)
      return '(%s %s %s)' % (a, rnd.choice(['<', '<=', '==', '!=', '>']), b)
    if r < 0.54:
      a, = self.operands(1, d, vs, eff)
      return '(%s %s %s)' % (a, rnd.choice(['in', 'not in']), self.le(d - 1, vs, False))
    if r < 0.62:
      return self.attr(d, vs, eff)
    if r < 0.76:
      return self.sub(d, vs, eff)
    if r < 0.88:
      return 'hc(%s)' % self.coll(d, vs, eff)
    if r < 0.93 and eff:
      return 't(%s)' % self.ie(d - 1, vs, True)
    if r < 0.96:
      return 'len(%s)' % self.le(d - 1, vs, eff)
    return self.eff_leaf(vs) if eff else self.pure_leaf(vs)

  def call(self, d, vs, eff):
    rnd = self.rnd
    npos = rnd.randint(1, 3)
    use_star = rnd.random() < 0.3
    use_kw = rnd.random() < 0.45
    use_dstar = rnd.random() < 0.25
    n = npos + use_star + use_kw + use_dstar
    ops = self.operands(n, d, vs, eff)
    parts = ops[:npos]
    i = npos
    if use_star:
      parts.insert(rnd.randint(1, len(parts)), '*%s' % self.as_list(ops[i], d, vs, eff)); i += 1
    if use_kw:
      parts.append('k=%s' % ops[i]); i += 1
    if use_dstar:
      parts.append('**%s' % self.as_dict(ops[i]))
    r = rnd.random()
    if not eff or r < 0.4:
      fn = 'h'
    elif r < 0.7:
      fn = 'g'
    elif r < 0.85:
      fn = 'tf(%d)' % self.K()
    elif r < 0.93:
      fn = 'o.m'
      parts = parts[:1] if not parts[0].startswith('*') else ['0']
    else:
      fn = 'to(%d).m' % self.K()
      parts = parts[:1] if not parts[0].startswith('*') else ['0']
    return '%s(%s)' % (fn, ', '.join(parts))

  def as_list(self, x, d, vs, eff):
    r = self.rnd.random()
    if r < 0.4:
      return '[%s, 1]' % x
    if r < 0.7 and eff:
      return 'tl(%s)' % x
    return '(%s, 2)' % x

  def as_dict(self, x):
    if x.startswith('t(') and x[2:-1].isdigit():
      return 'td(%s)' % x[2:-1]
    return "{'kw': %s}" % x

  def oe(self, d, vs, eff):
    r = self.rnd.random()
    if not eff or r < 0.4:
      return 'o'
    if r < 0.8 or d <= 1:
      return 'to(%d)' % self.K()
    return 'to(%s)' % self.ie(d - 1, vs, True)

  def attr(self, d, vs, eff):
    return '%s.%s' % (self.oe(d, vs, eff), 'p' if eff and self.rnd.random() < 0.5 else 'v')

  def le(self, d, vs, eff):
    """list-valued expression of length >= 3 when used as a subscript base"""
    r = self.rnd.random()
    if r < 0.35:
      return 'a'
    if r < 0.6 and eff:
      return 'tl(%d)' % self.K() if (d <= 0 or self.rnd.random() < 0.6) else 'tl(%s)' % self.ie(d - 1, vs, True)
    ops = self.operands(3, max(d, 1), vs, eff)
    return '[%s]' % ', '.join(ops)

  def sub(self, d, vs, eff):
    rnd = self.rnd
    r = rnd.random()
    if r < 0.35:
      base = self.le(d - 1, vs, eff and rnd.random() < 0.5)
      idx = self.ie(d - 1, vs, eff) if not has_call(base) else (self.eff_leaf(vs) if eff and rnd.random() < 0.6 else self.pure_leaf(vs))
      return '%s[%s %% 3]' % (base, idx)
    if r < 0.6:
      base = self.oe(d, vs, eff)
      if base == 'o' or rnd.random() < 0.5:
        idx = self.ie(d - 1, vs, eff)
      else:
        idx = self.eff_leaf(vs) if eff else self.pure_leaf(vs)
      return '%s[%s]' % (base, idx)
    if not self.slices:
      return '%s[%s]' % ('o', self.ie(d - 1, vs, eff))
    lo, hi = self.operands(2, d, vs, eff)
    if r < 0.8:
      return 'hc(%s[%s:%s])' % (rnd.choice(['a', 'a', 'tl(%d)' % self.K()]) if eff else 'a', lo, hi)
    if r < 0.9:
      return 'o[%s:%s]' % (lo, hi)
    return 'o[%s, %s:]' % (lo, hi)

  def coll(self, d, vs, eff):
    rnd = self.rnd
    if self.dict_spread and rnd.random() < 0.5:
      # {pure: e0, **SPREAD, pure: e1}: all keys are pure leaves, so Python's entry-by-entry order and the
      # keys-then-values walk of the transformer (recorded D12) agree: e0, SPREAD, e1
      ops = self.operands(rnd.randint(2, 3), d, vs, eff)
      ents = ['%s: %s' % (self.pure_leaf(vs), o) for o in ops[1:]]
      ents.insert(rnd.randint(0, len(ents)), '**%s' % self.as_dict(ops[0]))
      return '{%s}' % ', '.join(ents)
    r = rnd.random()
    n = rnd.randint(1, 3)
    ops = self.operands(n, d, vs, eff)
    if rnd.random() < 0.25:
      ops.insert(rnd.randint(0, len(ops)), '*%s' % self.le(0, vs, False))
    if r < 0.3:
      return '(%s,)' % ', '.join(ops)
    if r < 0.55:
      return '[%s]' % ', '.join(ops)
    if r < 0.75:
      return '{%s}' % ', '.join(ops)
    # dict display: at most ONE entry with effects (>= 2 is the recorded D12)
    k, v = self.operands(2, d, vs, eff)
    ents = ['%s: %s' % (k, v)]
    for _ in range(rnd.randint(0, 2)):
      e = '%s: %s' % (self.pure_leaf(vs), self.ie(max(d - 1, 0), vs, False))
      ents.insert(rnd.randint(0, len(ents)), e)
    return '{%s}' % ', '.join(ents)

  def lazy(self, d, vs):
    rnd = self.rnd
    r = rnd.random()
    a, b, c = [self.ie(d - 1, vs, True) for _ in range(3)]
    if r < 0.25:
      return '(%s %s %s)' % (a, rnd.choice(['and', 'or']), b)
    if r < 0.45:
      return '(%s if %s else %s)' % (a, b, c)
    if r < 0.6:
      return '(lambda q: q + %s)(%s)' % (a, b)
    if r < 0.72:
      return 'sum([q + %s for q in %s])' % (a, self.le(0, vs, True))
    if r < 0.8:
      return 'sum(q + %s for q in a)' % a
    if r < 0.92:
      return '(%s < %s <= %s)' % (a, b, c)
    return "len(f'{%s}')" % a

  # ---- statements
  def block(self, ind, depth, vs, budget):
    lines = []
    vs = list(vs)
    for _ in range(self.rnd.randint(1, 3)):
      if budget[0] > 0 and depth < 2 and self.rnd.random() < 0.45:
        budget[0] -= 1
        ls = self.compound(ind, depth, vs, budget)
      else:
        ls = self.simple(ind, vs)
      lines += ls
    return lines

  def simple(self, ind, vs):
    rnd = self.rnd
    r = rnd.random()
    d = rnd.randint(1, 3)
    v = rnd.choice(['x', 'y', 'z', 'w'])
    if r < 0.25:
      return ['%s%s = %s' % (ind, v, self.ie(d, vs))]
    if r < 0.35:
      a, b = self.operands(2, d, vs, True)
      return ['%s%s, %s = %s, %s' % (ind, v, rnd.choice(['z', 'w']), a, b)]
    if r < 0.45:
      # store through a subscript / attribute; an effectful target with an effectful value is the new D16
      tgt = rnd.choice(['a[%s %% 3]' % self.pure_leaf(vs), 'o.v', 'o[%s]' % self.pure_leaf(vs), 'a[%s]' % rnd.randint(0, 2),
                        'a[%s %% 3]' % self.eff_leaf(vs), 'to(%d).v' % self.K(), 'to(%d)[%s]' % (self.K(), self.eff_leaf(vs))])
      val = self.ie(d, vs, eff=not has_call(tgt) or rnd.random() < 0.15)
      return ['%s%s = %s' % (ind, tgt, val)]
    if r < 0.55:
      tgt = rnd.choice([v, v, 'a[%d]' % rnd.randint(0, 2), 'a[%s %% 3]' % self.eff_leaf(vs), 'o.v'])
      return ['%s%s %s= %s' % (ind, tgt, rnd.choice(['+', '-', '*']), self.ie(d, vs))]
    if r < 0.7:
      return ['%s%s' % (ind, rnd.choice([self.call(d, vs, True), 't(%s)' % self.ie(d - 1, vs), 'o.m(%s)' % self.ie(d - 1, vs)]))]
    if r < 0.73 and rnd.random() < self.lazy_p * 8:
      return ['%sassert %s + 1, %s' % (ind, self.eff_leaf(vs), self.eff_leaf(vs))]
    return ['%s%s = %s' % (ind, v, self.ie(d, vs))]

  def compound(self, ind, depth, vs, budget):
    rnd = self.rnd
    ind2 = ind + '  '
    d = rnd.randint(1, 2)
    k = rnd.choice(['if', 'ifelse', 'for', 'with', 'with2', 'try', 'tryf', 'while', 'def', 'ret', 'raise'])
    if k == 'if':
      return ['%sif %s:' % (ind, self.ie(d, vs))] + self.block(ind2, depth + 1, vs, budget)
    if k == 'ifelse':
      out = ['%sif %s:' % (ind, self.ie(d, vs))] + self.block(ind2, depth + 1, vs, budget)
      if rnd.random() < 0.3:
        out += ['%selif %s:' % (ind, self.ie(d, vs))] + self.block(ind2, depth + 1, vs, budget)
      return out + ['%selse:' % ind] + self.block(ind2, depth + 1, vs, budget)
    if k == 'for':
      i = 'i_%d' % self.U()
      it = self.le(d, vs, True) if rnd.random() < 0.8 else '(%s, %s)' % tuple(self.operands(2, d, vs, True))
      return ['%sfor %s in %s:' % (ind, i, it)] + self.block(ind2, depth + 1, vs + [i], budget)
    if k == 'with':
      w = 'w_%d' % self.U()
      ce = 'tc(%s)' % (self.ie(d, vs) if rnd.random() < 0.5 else self.K())
      if rnd.random() < 0.6:
        return ['%swith %s as %s:' % (ind, ce, w)] + self.block(ind2, depth + 1, vs + [w], budget)
      return ['%swith %s:' % (ind, ce)] + self.block(ind2, depth + 1, vs, budget)
    if k == 'with2':
      w = 'w_%d' % self.U()
      # second item effect-free to construct: `CMK` is a module-level pure context manager value? keep tc flat
      return ['%swith tc(%s) as %s, tc(%d):' % (ind, self.ie(d, vs), w, self.K())] + self.block(ind2, depth + 1, vs + [w], budget)
    if k in ('try', 'tryf'):
      body = self.block(ind2, depth + 1, vs, budget)
      if rnd.random() < 0.7:
        body = body + self.raiser(ind2, vs)
      out = ['%stry:' % ind] + body
      if k == 'try' or rnd.random() < 0.5:
        out += ['%sexcept ValueError:' % ind] + self.block(ind2, depth + 1, vs, [0])
      if k == 'tryf' or rnd.random() < 0.2:
        out += ['%sfinally:' % ind] + self.block(ind2, depth + 1, vs, [0])
      return out
    if k == 'while':
      f = 'f_%d' % self.U()
      test = f                      # a bare name: any other test is named under the default configuration -> rejected
      if rnd.random() < self.lazy_p * 4:
        test = '%s + %s * 0 > 0' % (f, self.eff_leaf(vs))
      return ['%s%s = 2' % (ind, f), '%swhile %s:' % (ind, test), '%s%s -= 1' % (ind2, f)] + self.block(ind2, depth + 1, vs, budget)
    if k == 'def':
      g = 'loc_%d' % self.U()
      body = ['%sq = %s' % (ind2, self.ie(d, ['p', 'x']))] if rnd.random() < 0.5 else ['%sq = p' % ind2]
      return (['%sdef %s(p):' % (ind, g)] + body + ['%sreturn %s' % (ind2, self.ie(d, ['p', 'x', 'q']))]
              + ['%s%s = %s(%s)' % (ind, rnd.choice(['z', 'w']), g, self.ie(1, vs))])
    if k == 'ret':
      val = self.ie(d + 1, vs) if rnd.random() < 0.5 else self.coll(d + 1, vs, True)
      return ['%sif x < %d:' % (ind, rnd.randint(0, 4)), '%sreturn %s' % (ind2, val)]
    if k == 'raise':
      return ['%sif x < %d:' % (ind, rnd.randint(0, 3))] + self.raiser(ind2, vs, guard=False)
    raise AssertionError(k)

  def raiser(self, ind, vs, guard=True):
    rnd = self.rnd
    r = rnd.random()
    if r < 0.4:
      exc = 'te(%s)' % self.ie(1, vs)
    elif r < 0.8:
      exc = 'ValueError(%s)' % ', '.join(self.operands(rnd.randint(1, 2), 2, vs, True))
    else:
      exc = 'ValueError(%s) from te(%d)' % (self.ie(1, vs), self.K())
    if guard:
      return ['%sif y < %d:' % (ind, rnd.randint(1, 3)), '%s  raise %s' % (ind, exc)]
    return ['%sraise %s' % (ind, exc)]

  def program(self, size):
    budget = [size]
    vs = ['x', 'y', 'z', 'w']
    body = ['  z = 0', '  w = 1']
    body += self.block('  ', 0, vs, budget)
    while budget[0] > 0 and len(body) < 40:
      body += self.block('  ', 0, vs, budget)
    last = self.ie(2, vs) if self.rnd.random() < 0.5 else self.coll(2, vs, True)
    return 'def f(x, y, a, o):\n' + '\n'.join(body) + '\n  return (x, y, z, w, %s)\n' % last


def has_call(s):
  return '(' in s


# ----------------------------------------------------------------------------------------------- checking

def _ctx():
  ei = transformer.EntityInfo(name='f', source_code=None, source_file=None, future_features=(), namespace=None)
  return transformer.Context(ei, None, None)


def all_names(tree):
  out = set()
  for n in ast.walk(tree):
    if isinstance(n, ast.Name):
      out.add(n.id)
    elif isinstance(n, ast.arg):
      out.add(n.arg)
    elif isinstance(n, (ast.FunctionDef, ast.ClassDef)):
      out.add(n.name)
    elif isinstance(n, (ast.Global, ast.Nonlocal)):
      out.update(n.names)
    elif isinstance(n, ast.ExceptHandler) and n.name:
      out.add(n.name)
  return out


def check_shape(out_tree, spec):
  """(b): no operand slot of the output is still asked to be named."""
  for n in ast.walk(out_tree):
    for (p, f, c, ok) in slots(n):
      if ok and should_name(spec, p, f, c):
        return '%s.%s still holds %s: %s' % (type(p).__name__, f, type(c).__name__, ast.unparse(c)[:60])
  return None


def check_temps(in_names, out_tree):
  """(c): introduced names bound exactly once, distinct from every input name. -> (problem, #temps)"""
  stores = {}
  for n in ast.walk(out_tree):
    if isinstance(n, ast.Name) and n.id not in in_names:
      stores.setdefault(n.id, 0)
      if isinstance(n.ctx, ast.Store):
        stores[n.id] += 1
  for name, cnt in sorted(stores.items()):
    if cnt != 1:
      return 'introduced name %s has %d binding occurrences' % (name, cnt), len(stores)
  return None, len(stores)


def check_one(src, spec, inputs=INPUTS):
  """-> dict(status='rejected'|'ok'|'fail', ...)"""
  res = dict(status='ok', runs=0, temps=0, max_events=0, failure=None, out=None)
  try:
    tree = ast.parse(src)
    orig_code = compile(src, '<c18-orig>', 'exec')
  except SyntaxError as e:
    res.update(status='fail', failure=dict(kind='generator-bug', sig='syntax', what=str(e)))
    return res
  in_names = all_names(tree)
  fnode = copy.deepcopy(tree).body[0]
  try:
    out_node = anf.transform(fnode, _ctx(), config=build_config(spec))
  except Exception as e:
    res.update(status='rejected', rejected_with=type(e).__name__)
    return res
  try:
    out_src = parser.unparse(out_node, indentation='  ')
    res['out'] = out_src
    out_tree = ast.parse(out_src)
    out_code = compile(out_src, '<c18-anf>', 'exec')
  except Exception as e:
    res.update(status='fail', failure=dict(kind='output-does-not-compile', sig=type(e).__name__,
                                           what='the accepted output is not valid Python: %s' % str(e)[:150]))
    return res
  bad = check_shape(out_tree, spec)
  if bad:
    res.update(status='fail', failure=dict(kind='not-anf', sig=bad.split(' still')[0], what=bad))
    return res
  bad, ntemps = check_temps(in_names, out_tree)
  res['temps'] = ntemps
  if bad:
    res.update(status='fail', failure=dict(kind='temp-collision', sig='binding-count', what=bad))
    return res
  for inp in inputs:
    o1 = run(orig_code, 'f', inp)
    o2 = run(out_code, 'f', inp)
    res['runs'] += 1
    res['max_events'] = max(res['max_events'], len(o1['events']))
    if o1 != o2:
      first = next((i for i, (p, q) in enumerate(zip(o1['events'], o2['events'])) if p != q),
                   min(len(o1['events']), len(o2['events'])))
      res.update(status='fail', failure=dict(
          kind='order-or-result-differs', sig='default-config' if spec is None else 'custom-config',
          what='input %r: original %s / transformed %s; events first differ at #%d: %s vs %s' % (
              inp, o1['outcome'], o2['outcome'], first, o1['events'][first:first + 3], o2['events'][first:first + 3]),
          input=list(inp)))
      return res
  return res


def shrink(src, spec, kind):
  """Greedy statement deletion that keeps the same failure kind (only used on failures)."""
  def fails(s):
    try:
      r = check_one(s, spec)
    except Exception:
      return False
    return r['status'] == 'fail' and r['failure']['kind'] == kind
  cur = src
  progress = True
  rounds = 0
  while progress and rounds < 30:
    progress = False
    rounds += 1
    tree = ast.parse(cur)
    cands = []
    for n in ast.walk(tree):
      for fld in ('body', 'orelse', 'finalbody'):
        lst = getattr(n, fld, None)
        if isinstance(lst, list) and lst and isinstance(lst[0], ast.stmt):
          for i in range(len(lst)):
            cands.append((n, fld, i))
    for (n, fld, i) in cands:
      lst = getattr(n, fld)
      if i >= len(lst):
        continue
      saved = lst[i]
      if _protected(saved):
        continue
      # try: drop the statement; or replace a compound statement by its body
      options = [[]]
      if hasattr(saved, 'body') and not isinstance(saved, ast.FunctionDef):
        options.append(list(saved.body))
      done = False
      for opt in options:
        lst[i:i + 1] = opt
        if not lst and fld == 'body':
          lst.append(ast.Pass())
        try:
          s2 = ast.unparse(ast.fix_missing_locations(tree))
          ok = fails(s2)
        except Exception:
          ok = False
        if ok:
          cur = s2
          progress = True
          done = True
          break
        # undo
        if lst and isinstance(lst[-1], ast.Pass) and not opt and len(lst) == 1:
          lst[:] = [saved]
        else:
          lst[i:i + len(opt)] = [saved]
      if done:
        break
  return cur


def _protected(st):
  """initialisations and loop fuel: deleting them turns the program into a NameError / an endless loop"""
  if isinstance(st, ast.Assign) and len(st.targets) == 1 and isinstance(st.targets[0], ast.Name):
    n = st.targets[0].id
    return n.startswith('f_') or (n in ('z', 'w') and isinstance(st.value, ast.Constant)) or n == 'q'
  if isinstance(st, ast.AugAssign) and isinstance(st.target, ast.Name):
    return st.target.id.startswith('f_')
  return isinstance(st, ast.FunctionDef)


def work(item):
  idx, seed, size, include_hazards = item
  dict_spread, size = size >= 100, size % 100
  rnd = random.Random(seed)
  out = dict(idx=idx, status=None, runs=0, nontrivial=False, excluded=0, failure=None, src=None, spec=None,
             positions=[], rejected_with=None, key=None)
  try:
    spec = random_spec(rnd)
    names_slices = spec is None or asks(spec, ast.Subscript(), 'slice', ast.Slice())
    src = None
    for attempt in range(25):
      g = Gen(rnd, lazy_p=0.05 if rnd.random() < 0.5 else 0.0, slices=not names_slices or include_hazards, dict_spread=dict_spread)
      cand = g.program(size)
      hz = hazards(ast.parse(cand).body[0], spec)
      if hz and not include_hazards:
        out['excluded'] += 1
        continue
      src = cand
      break
    if src is None:
      out['status'] = 'no-program'
      return out
    out['spec'] = spec
    r = check_one(src, spec)
    out['status'] = r['status']
    out['runs'] = r['runs']
    out['rejected_with'] = r.get('rejected_with')
    out['key'] = hashlib.sha1((src + repr(spec)).encode()).hexdigest()
    if r['status'] == 'ok':
      out['nontrivial'] = r['temps'] >= 1 and r['max_events'] >= 2
      out['positions'] = effect_positions(ast.parse(src))
      out['src'] = src
      out['out'] = r['out']
    if r['status'] == 'fail':
      f = dict(r['failure'])
      try:
        small = shrink(src, spec, f['kind'])
        r2 = check_one(small, spec)
        if r2['status'] == 'fail' and r2['failure']['kind'] == f['kind']:
          f = dict(r2['failure'])
          src, r = small, r2
      except Exception:
        pass
      f.update(program=src, config=spec, transformed=r.get('out'), seed=seed, hazards=hazards(ast.parse(src).body[0], spec))
      out['failure'] = f
  except Exception as e:
    out['status'] = 'fail'
    out['failure'] = dict(kind='harness-error', sig=type(e).__name__, what=traceback.format_exc()[-600:], program=None, seed=seed)
  return out


def effect_positions(tree):
  out = set()
  for n in ast.walk(tree):
    for (p, f, c, ok) in slots(n):
      if has_effect(c):
        pos = '%s.%s' % (type(n).__name__, f)
        if isinstance(n, ast.Call):
          raw = getattr(n, f)
          raw = raw if isinstance(raw, list) else [raw]
          for x in raw:
            if isinstance(x, ast.Starred) and x.value is c:
              pos = 'Call.args*'
            if isinstance(x, ast.keyword) and x.value is c and x.arg is None:
              pos = 'Call.keywords**'
        out.add(pos)
  return sorted(out)


# ----------------------------------------------------------------------------------------------- witnesses

def _r(parent, field, child, action):
  return dict(parent=parent, field=field, child=child, action=action, whole=False)


WITNESSES = [
    ('known-D12-dict-order', 'keys-before-values', None,
     'def f(x, y, a, o):\n  return {t(1): t(2), t(3): t(4)}\n',
     'dict display {k1: v1, k2: v2}: the transformer evaluates k1, k2, v1, v2; Python evaluates k1, v1, k2, v2'),
    ('known-D12-slice', 'slice-hoisted', None,
     'def f(x, y, a, o):\n  return a[t(0):t(2)]\n',
     'the ast.Slice node is hoisted into `tmp = lo:hi` (guard tests the obsolete ast.slice)'),
    ('known-D12-slice', 'tuple-containing-slice-hoisted',
     [_r(None, None, ['Slice'], 'LEAVE'), _r(None, None, ['Constant', 'Name'], 'LEAVE'), _r(None, None, ['expr'], 'REPLACE')],
     'def f(x, y, a, o):\n  return o[t(1), t(2):]\n',
     'o[i, lo:hi]: with the slice itself left alone, the index tuple holding it is hoisted into `tmp = (i, lo:hi)`'),
    ('new-D15-hoist-order', 'nested-operand', None,
     'def f(x, y, a, o):\n  return t(1) + (-t(2))\n',
     'statements hoisted out of a later operand precede the evaluation of an earlier sibling operand'),
    ('new-D15-hoist-order', 'outer-call-after-sibling-arguments', None,
     'def f(x, y, a, o):\n  return g(t(1)) + g(t(2))\n',
     'g(t(1)) + g(t(2)): both argument calls run before the first outer call'),
    ('new-D15-hoist-order', 'partial-config', [_r(['BinOp'], 'right', None, 'REPLACE')],
     'def f(x, y, a, o):\n  return t(1) + t(2)\n',
     'a configuration naming only the right operand moves it before the unnamed left operand'),
    ('new-D15-hoist-order', 'with-items', None,
     'def f(x, y, a, o):\n  with tc(1) as p, tc(2) as q:\n    return p + q\n',
     'with A as p, B as q: B is constructed before A.__enter__ runs'),
    ('new-D16-assign-target-order', 'target-before-value', None,
     'def f(x, y, a, o):\n  a[t(1)] = t(2)\n  return a\n',
     'a[t(1)] = t(2): Python evaluates the right-hand side first; the transformer hoists t(1) before it'),
]


def run_witnesses():
  out = []
  for kind, sig, spec, src, what in WITNESSES:
    try:
      hz = hazards(ast.parse(src).body[0], spec)
      r = check_one(src, spec)
    except Exception as e:
      out.append(dict(kind='harness-error', sig=kind, what=traceback.format_exc()[-400:], program=src))
      continue
    if r['status'] == 'fail':
      out.append(dict(kind=kind, sig=sig, what='%s [%s: %s]' % (what, r['failure']['kind'], r['failure']['what'][:260]),
                      program=src, config=spec, transformed=r.get('out'), model_hazards=hz))
    elif not hz:
      out.append(dict(kind='harness-error', sig='witness-not-in-hazard-model:' + sig,
                      what='hazard model does not flag the witness', program=src))
  return out


# ----------------------------------------------------------------------------------------------- main

def main():
  ap = argparse.ArgumentParser()
  ap.add_argument('seed', type=int)
  ap.add_argument('tier')
  ap.add_argument('--n', type=int, default=None)
  ap.add_argument('--include-hazards', action='store_true',
                  help='do not keep recorded-defect triggers out of the space (diagnostic)')
  ap.add_argument('--no-witnesses', action='store_true')
  ap.add_argument('--maxfail', type=int, default=10)
  a = ap.parse_args()
  n = a.n if a.n is not None else (120000 if a.tier == 'thorough' else 6000)
  items = [(i, a.seed * 1000003 + i, 1 + (i % 4), a.include_hazards) for i in range(n)]
  # extra block (own seeds, default stream untouched): dict displays with a ** entry among the operand shapes
  items += [(n + i, a.seed * 1000003 + 700000 + i, 101 + (i % 4), a.include_hazards) for i in range(n // 8)]
  evaluated = programs = accepted = rejected = excluded = noprog = 0
  rej_kinds = {}
  seen = set()
  positions = set()
  failures, samples = [], []
  fail_keys = set()
  nfail = 0
  cfg_default = cfg_custom = 0
  for r in harness.pool_map(work, items, chunksize=16):
    programs += 1
    excluded += r['excluded']
    evaluated += r['runs']
    if r['status'] == 'no-program':
      noprog += 1
    elif r['status'] == 'rejected':
      rejected += 1
      rej_kinds[r['rejected_with']] = rej_kinds.get(r['rejected_with'], 0) + 1
    elif r['status'] == 'ok':
      accepted += 1
      if r['spec'] is None:
        cfg_default += 1
      else:
        cfg_custom += 1
      positions.update(r['positions'])
      if r['nontrivial'] and r['key'] not in seen:
        seen.add(r['key'])
        if len(samples) < 2 and r['spec'] is not None and len(r['src']) < 700:
          samples.append(dict(program=r['src'], config=r['spec'], transformed=r['out']))
    elif r['status'] == 'fail':
      nfail += 1
      f = r['failure']
      k = (f['kind'], f['sig'])
      if k not in fail_keys or len(failures) < 4:
        if len(failures) < a.maxfail:
          fail_keys.add(k)
          failures.append(f)
  wit = [] if a.no_witnesses else run_witnesses()
  failures = wit + failures
  harness.emit(dict(
      evaluated=evaluated, distinct_nontrivial=len(seen), programs=programs, accepted=accepted,
      accepted_default_config=cfg_default, accepted_custom_config=cfg_custom,
      rejected_by_transformer=rejected, rejected_with=rej_kinds,
      candidates_excluded_by_hazard_model=excluded, items_without_hazard_free_program=noprog,
      failing_programs=nfail, witnesses_run=0 if a.no_witnesses else len(WITNESSES),
      effect_positions_covered=sorted(positions),
      rule=('bounded (NOT proved): %d seeded items; each draws a configuration (30%% default, else 1-4 random '
            'edge-pattern rules, usually guarded by a leave-Slice rule and often closed by the default tail) and '
            'a random program f(x, y, a, o) of 1-4 compound statements, expression depth <= 3, tracer calls in '
            'every operand position; candidates that trigger a recorded order defect according to the static '
            'hazard model (D12 dict / slice, D15 hoist order, D16 assignment target) are redrawn (<= 25 tries); '
            'accepted outputs are unparsed, compiled and run on inputs %s against the original (outcome, ordered '
            'events, final a and o.v), checked for remaining nameable slots and for temp collisions; non-trivial = '
            'accepted, >= 1 temporary, >= 2 events; distinct by (source, configuration)' % (n, INPUTS)),
      samples=samples, failures=failures,
      notes=['user variables named like tmp_1NNN are clobbered (DummyGensym ignores the symbols of the input): '
             'outside C18 as worded (collision among temporaries only); not generated',
             'positions outside the property list that lose their hoisted statements or crash (except-clause '
             'type expression, default values of nested defs, annotated assignment, effectful for/with targets) '
             'are not generated']))


if __name__ == '__main__':
  main()
