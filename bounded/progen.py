"""Program space shared by the bounded stand-ins (DESIGN.md section 6).

Every generated program is a module defining `f(t, c, a)`:
  t(k)  -- tracer: records the event k and returns k            (externally visible side effect)
  c()   -- decision source: returns the next bool of a decision vector (False when exhausted)
  a     -- a mutable argument (list) that programs may mutate
plus module-level helpers.  Loops carry a uniquely named fuel counter so every program terminates.

Two sources:
  skeletons(K)      all control skeletons with <= K control nodes (bounded-exhaustive), filled with a
                    deterministic pool of leaf statements;
  random_program()  seeded random larger programs.

`avoid` names known-finding triggers the generator should steer clear of (see known_findings.txt):
  'D1' loop targets are private to their loop; 'D2' no calls in the middle of comparison chains;
  'D6' no `except ... as name`.
"""
import itertools
import random

HEADER = '''
G = [0]

def h1(x):
  return x + 1

def h2(x, y=2, *rest, k=0):
  return (x, y, rest, k)

class CM(object):
  def __init__(self, t, k):
    self.t, self.k = t, k
  def __enter__(self):
    self.t(('enter', self.k))
    return self.k
  def __exit__(self, *exc):
    self.t(('exit', self.k))
    return False

class Box(object):
  def __init__(self):
    self.v = 0
'''

VARS = ['x', 'y', 'z']
# opt-in program families: named explicitly by a stand-in's extra block, so that the default program streams of
# every stand-in stay what they were
OPT_IN = ('defret', 'outerraise', 'delitem', 'compshadow', 'tryelse')


class Gen(object):
  def __init__(self, rnd, avoid=('D1', 'D2'), max_depth=3, features=None):
    self.rnd = rnd
    self.avoid = set(avoid)
    self.max_depth = max_depth
    self.fuel = 0
    self.ev = 0
    self.fn = 0
    self.loopvar = 0
    self.features = features   # None = everything

  def on(self, feat):
    if self.features is None:
      # while/else, for/else: documented as unsupported; 'defret' (bodies that END in an unconditional return) is
      # opt-in so that the default program streams of every stand-in stay what they were
      return feat not in ('loopelse',) + OPT_IN
    if feat in OPT_IN:
      return feat in self.features
    if set(self.features) <= set(OPT_IN):
      return feat not in ('loopelse',)     # only opt-in families named: everything of the default space plus them
    return feat in self.features

  def maybe_ret(self, body, vars_, ind2, p=0.3):
    """with 'defret': the body may end in an unconditional return (a branch that definitely returns)"""
    if self.on('defret') and self.rnd.random() < p:
      return body + ['%sreturn %s' % (ind2, self.expr(vars_))]
    return body

  # ------------------------------------------------------------------ expressions
  def tk(self):
    self.ev += 1
    return 't(%d)' % self.ev

  def atom(self, vars_):
    r = self.rnd.random()
    if r < 0.45 and vars_:
      return self.rnd.choice(vars_)
    if r < 0.7:
      return str(self.rnd.randint(0, 3))
    return self.tk()

  def expr(self, vars_, depth=0):
    if self.on('compshadow') and vars_ and self.rnd.random() < 0.15:
      # opt-in family: a comprehension whose target re-uses a variable that its own (outermost) iterable reads
      v = self.rnd.choice(vars_)
      return 'sum([%s + 1 for %s in [%s, %d]])' % (v, v, v, self.rnd.randint(0, 3))
    r = self.rnd.random()
    if depth > 1 or r < 0.3:
      return self.atom(vars_)
    if r < 0.5:
      return '(%s %s %s)' % (self.expr(vars_, depth + 1), self.rnd.choice(['+', '-', '*']), self.expr(vars_, depth + 1))
    if r < 0.6 and self.on('call'):
      return 'h1(%s)' % self.expr(vars_, depth + 1)
    if r < 0.68 and self.on('ifexp'):
      return '(%s if %s else %s)' % (self.expr(vars_, depth + 1), self.cond(vars_, depth + 1), self.expr(vars_, depth + 1))
    if r < 0.74 and self.on('call'):
      return 'h2(%s, k=%s)[0]' % (self.expr(vars_, depth + 1), self.atom(vars_))
    if r < 0.8 and self.on('lambda'):
      return '(lambda q: q + %s)(%s)' % (self.atom(vars_), self.atom(vars_))
    if r < 0.86 and self.on('comp'):
      return 'sum([q + %s for q in range(%d)])' % (self.atom(vars_), self.rnd.randint(0, 3))
    if r < 0.9 and self.on('call'):
      return 'len(a)'
    if r < 0.95 and self.on('call'):
      return 'abs(%s)' % self.expr(vars_, depth + 1)
    return self.atom(vars_)

  def cond(self, vars_, depth=0):
    r = self.rnd.random()
    if r < 0.35:
      return 'c()'
    if r < 0.55:
      return '%s %s %s' % (self.expr(vars_, 2), self.rnd.choice(['<', '<=', '==', '!=', '>']), self.expr(vars_, 2))
    if r < 0.7 and depth < 2 and self.on('boolop'):
      return '(%s %s %s)' % (self.cond(vars_, depth + 1), self.rnd.choice(['and', 'or']), self.cond(vars_, depth + 1))
    if r < 0.8 and depth < 2 and self.on('boolop'):
      return '(not %s)' % self.cond(vars_, depth + 1)
    if r < 0.88 and self.on('chain'):
      mid = self.atom([v for v in vars_]) if 'D2' in self.avoid else self.expr(vars_, 1)
      if 'D2' in self.avoid and mid.startswith('t('):
        mid = '1'
      return '0 <= %s < %s' % (mid, self.expr(vars_, 2))
    if r < 0.94 and self.on('boolop'):
      return '(%s and c())' % self.tk()
    return 'c()'

  # ------------------------------------------------------------------ statements
  def leaf(self, vars_, ind):
    if self.on('delitem') and self.rnd.random() < 0.2:
      # opt-in family: an element of the list parameter is deleted (the list itself is NOT rebound)
      return ['%sa.append(%s)' % (ind, self.atom(vars_)), '%sdel a[0]' % ind], []
    r = self.rnd.random()
    v = self.rnd.choice(VARS)
    if r < 0.35:
      return ['%s%s = %s' % (ind, v, self.expr(vars_))], [v]
    if r < 0.5 and vars_:
      v = self.rnd.choice(vars_)
      return ['%s%s %s= %s' % (ind, v, self.rnd.choice(['+', '-', '*']), self.expr(vars_))], []
    if r < 0.6:
      v2 = self.rnd.choice(VARS)
      return ['%s%s, %s = %s, %s' % (ind, v, v2, self.expr(vars_), self.expr(vars_))], [v, v2] if v != v2 else [v]
    if r < 0.7:
      return ['%s%s' % (ind, self.tk())], []
    if r < 0.78 and self.on('mutate'):
      return ['%sa.append(%s)' % (ind, self.expr(vars_))], []
    if r < 0.84 and self.on('mutate'):
      return ['%sa[0] = %s' % (ind, self.expr(vars_))], []
    if r < 0.9 and self.on('mutate'):
      return ['%sG[0] = G[0] + %s' % (ind, self.atom(vars_))], []
    if r < 0.95 and self.on('call'):
      return ['%sprint_(%s)' % (ind, self.atom(vars_))], []
    return ['%spass' % ind], []

  def block(self, vars_, ind, depth, in_loop, budget, in_fn_with_ret=True):
    """returns (lines, definitely-assigned names)"""
    lines = []
    vars_ = list(vars_)
    n = self.rnd.randint(1, 3)
    for _ in range(n):
      if budget[0] > 0 and depth < self.max_depth and self.rnd.random() < 0.55:
        budget[0] -= 1
        ls, new = self.compound(vars_, ind, depth, in_loop, budget)
      else:
        ls, new = self.leaf(vars_, ind)
      lines += ls
      for v in new:
        if v not in vars_:
          vars_.append(v)
    return lines, vars_

  def compound(self, vars_, ind, depth, in_loop, budget):
    ind2 = ind + '  '
    kinds = ['if', 'ifelse', 'while', 'for', 'for_list', 'try_finally', 'try_except', 'with', 'def', 'return']
    if in_loop:
      kinds += ['break', 'continue', 'break', 'continue']
    kinds = [k for k in kinds if self.on(k.split('_')[0])]
    k = self.rnd.choice(kinds)
    if k == 'if':
      body, _ = self.block(vars_, ind2, depth + 1, in_loop, budget)
      return ['%sif %s:' % (ind, self.cond(vars_))] + self.maybe_ret(body, vars_, ind2), []
    if k == 'ifelse':
      test = self.cond(vars_)
      b1, v1 = self.block(vars_, ind2, depth + 1, in_loop, budget)
      out = ['%sif %s:' % (ind, test)] + b1
      if self.rnd.random() < 0.3:
        b3, v3 = self.block(vars_, ind2, depth + 1, in_loop, budget)
        out += ['%selif %s:' % (ind, self.cond(vars_))] + b3
      else:
        v3 = v1
      b2, v2 = self.block(vars_, ind2, depth + 1, in_loop, budget)
      out += ['%selse:' % ind] + self.maybe_ret(b2, vars_, ind2, 0.2)
      return out, [v for v in v1 if v in v2 and v in v3 and v not in vars_]
    if k == 'while':
      self.fuel += 1
      fu = 'fuel_%d' % self.fuel
      body, _ = self.block(vars_, ind2, depth + 1, True, budget)
      out = ['%s%s = 0' % (ind, fu),
             '%swhile %s < %d and %s:' % (ind, fu, self.rnd.randint(1, 3), self.cond(vars_)),
             '%s%s += 1' % (ind2, fu)] + body
      if self.rnd.random() < 0.15 and self.on('loopelse'):
        b2, _ = self.block(vars_, ind2, depth + 1, in_loop, budget)
        out += ['%selse:' % ind] + b2
      return out, []
    if k in ('for', 'for_list'):
      self.loopvar += 1
      if 'D1' in self.avoid:
        tgt = 'i_%d' % self.loopvar
      else:
        tgt = self.rnd.choice(VARS + ['i_%d' % self.loopvar])
      if k == 'for':
        it = 'range(%d)' % self.rnd.randint(0, 3)
      elif self.rnd.random() < 0.5:
        it = '[%s, %s]' % (self.atom(vars_), self.atom(vars_))
      else:
        it = 'a[:2]'
      unpack = self.rnd.random() < 0.15
      if unpack:
        tgt2 = 'j_%d' % self.loopvar
        header = '%sfor %s, %s in [(1, 2), (%s, 4)]:' % (ind, tgt, tgt2, self.atom(vars_))
        inner = vars_ + [tgt, tgt2]
      else:
        header = '%sfor %s in %s:' % (ind, tgt, it)
        inner = vars_ + [tgt]
      body, _ = self.block(inner, ind2, depth + 1, True, budget)
      return [header] + body, []
    if k == 'try_finally':
      body, _ = self.block(vars_, ind2, depth + 1, in_loop, budget)
      body = self.maybe_ret(body, vars_, ind2, 0.2)
      fin, fv = self.block(vars_, ind2, depth + 1, False, [0])
      return ['%stry:' % ind] + body + ['%sfinally:' % ind] + fin, [v for v in fv if v not in vars_]
    if k == 'try_except':
      body, _ = self.block(vars_, ind2, depth + 1, in_loop, budget)
      raiser = ['%sif %s:' % (ind2, self.cond(vars_)), '%s  raise ValueError(%s)' % (ind2, self.atom(vars_))]
      body = (raiser + body) if self.rnd.random() < 0.5 else (body + raiser)
      body = self.maybe_ret(body, vars_, ind2, 0.35)
      hb, _ = self.block(vars_, ind2, depth + 1, in_loop, [0])
      hb = self.maybe_ret(hb, vars_, ind2, 0.15)
      if 'D6' in self.avoid or self.rnd.random() < 0.5:
        head = '%sexcept ValueError:' % ind
      else:
        head = '%sexcept ValueError as err:' % ind
        hb = ['%st(type(err).__name__)' % ind2] + hb
      out = ['%stry:' % ind] + body + [head] + hb
      if self.on('tryelse') and self.rnd.random() < 0.7:
        # opt-in family: try / except / else / finally whose ELSE clause assigns and then jumps (return, or break /
        # continue inside a loop): the path body -> else -> jump -> finally must exist in the graph
        v = self.rnd.choice(VARS)
        jump = self.rnd.choice(['break', 'continue', 'return %s' % self.expr(vars_)]) if in_loop else 'return %s' % self.expr(vars_)
        eb = ['%s%s = %s' % (ind2, v, self.expr(vars_))]
        if self.rnd.random() < 0.6:
          eb += ['%sif %s:' % (ind2, self.cond(vars_)), '%s  %s' % (ind2, jump)]
        else:
          eb += ['%s%s' % (ind2, jump)]
        v2 = self.rnd.choice(VARS)
        fin = ['%s%s = %s' % (ind2, v2, self.expr(vars_ + [v])) if self.rnd.random() < 0.5 else '%sprint_(%s)' % (ind2, v),
               '%sif %s:' % (ind2, self.cond(vars_)), '%s  %s' % (ind2, self.tk())]
        return out + ['%selse:' % ind] + eb + ['%sfinally:' % ind] + fin, []
      if self.rnd.random() < 0.25:
        fin, _ = self.block(vars_, ind2, depth + 1, False, [0])
        out += ['%sfinally:' % ind] + fin
      if self.on('outerraise') and self.rnd.random() < 0.5:
        # opt-in: the inner try also raises a KeyError that its own handlers do not match; an ENCLOSING try catches it
        # (the outer body may end in a return, which makes the outer handler reachable only through that raise)
        kraise = ['%sif %s:' % (ind2 + '  ', self.cond(vars_)), '%s  raise KeyError(%s)' % (ind2 + '  ', self.atom(vars_))]
        inner = ['  ' + l for l in out]
        inner = inner[:1] + kraise + inner[1:]
        tail, _ = self.block(vars_, ind2, depth + 1, in_loop, [0])
        if self.rnd.random() < 0.4:
          tail = tail + ['%sreturn %s' % (ind2, self.expr(vars_))]
        hb2, _ = self.block(vars_, ind2, depth + 1, in_loop, [0])
        out = ['%stry:' % ind] + inner + tail + ['%sexcept KeyError:' % ind] + hb2
      return out, []
    if k == 'with':
      body, _ = self.block(vars_, ind2, depth + 1, in_loop, budget)
      self.ev += 1
      if self.rnd.random() < 0.5:
        return ['%swith CM(t, %d) as w:' % (ind, self.ev)] + body, ['w']
      return ['%swith CM(t, %d):' % (ind, self.ev)] + body, []
    if k == 'def':
      self.fn += 1
      name = 'g_%d' % self.fn
      mode = self.rnd.random()
      decl = []
      inner_vars = list(vars_) + ['p']
      nlc = [v for v in vars_ if v in VARS]
      if mode < 0.3 and nlc:
        nl = self.rnd.choice(nlc)
        decl = ['%snonlocal %s' % (ind2, nl)]
      body, _ = self.block(inner_vars, ind2, depth + 1, False, budget)
      out = ['%sdef %s(p):' % (ind, name)] + decl + body + ['%sreturn p + %s' % (ind2, self.atom(inner_vars))]
      v = self.rnd.choice(VARS)
      out += ['%s%s = %s(%s)' % (ind, v, name, self.atom(vars_))]
      return out, [v]
    if k == 'return':
      return ['%sif %s:' % (ind, self.cond(vars_)), '%sreturn %s' % (ind2, self.expr(vars_))], []
    if k == 'break':
      return ['%sif %s:' % (ind, self.cond(vars_)), '%sbreak' % ind2], []
    if k == 'continue':
      return ['%sif %s:' % (ind, self.cond(vars_)), '%scontinue' % ind2], []
    raise AssertionError(k)

  def program(self, size):
    self.fuel = self.ev = self.fn = self.loopvar = 0
    budget = [size]
    init = ['  x = a[0]', '  y = 1', '  z = 0']
    body, vars_ = self.block(list(VARS), '  ', 0, False, budget)
    while budget[0] > 0:
      more, vars_ = self.block(vars_, '  ', 0, False, budget)
      body += more
      if len(body) > 60:
        break
    src = HEADER + '\ndef f(t, c, a):\n  print_ = t\n' + '\n'.join(init + body) + '\n  return (x, y, z)\n'
    return src


def random_program(seed, size=4, avoid=('D1', 'D2'), features=None, max_depth=3):
  rnd = random.Random(seed)
  return Gen(rnd, avoid, max_depth, features).program(size)


# ---------------------------------------------------------------------- bounded-exhaustive skeletons

CTRL = ['if', 'ifelse', 'while', 'for', 'tryf', 'trye', 'with', 'def', 'ret', 'brk', 'cont']


def _trees(k, in_loop):
  """All sequences of control nodes (with nested bodies) using exactly k control nodes."""
  if k == 0:
    yield ()
    return
  for first_size in range(1, k + 1):
    for node in _node(first_size, in_loop):
      for rest in _trees(k - first_size, in_loop):
        yield (node,) + rest


def _node(size, in_loop):
  """One control node whose subtree uses exactly `size` control nodes."""
  inner = size - 1
  if inner == 0:
    yield ('ret',)
    if in_loop:
      yield ('brk',)
      yield ('cont',)
  for kind in ('if', 'while', 'for', 'tryf', 'trye', 'with', 'def'):
    loop = in_loop or kind in ('while', 'for')
    if kind == 'def':
      loop = False
    for body in _trees(inner, loop):
      yield (kind, body)
  for split in range(0, inner + 1):
    for b1 in _trees(split, in_loop):
      for b2 in _trees(inner - split, in_loop):
        yield ('ifelse', b1, b2)


def skeletons(max_k):
  for k in range(0, max_k + 1):
    for t in _trees(k, False):
      yield t


class Filler(object):
  """Deterministic filling of a skeleton: every block is  leaf; node; leaf; node; ... ; leaf."""

  def __init__(self, avoid=('D1', 'D2')):
    self.n = 0
    self.fuel = 0
    self.avoid = set(avoid)

  def leaf(self, ind):
    self.n += 1
    pool = ['x = x + t(%d)', 'y = x * 2 + t(%d)', 'z = z + y + t(%d)', 'a.append(t(%d) + z)',
            'x, y = y, x + t(%d)', 'z = h1(z) + t(%d)', 'y = t(%d) if c() else y + 1']
    return ind + pool[self.n % len(pool)] % self.n

  def cond(self):
    self.n += 1
    return ['c()', 'x < 3 and c()', 'c() or y > 100', 'not c()'][self.n % 4]

  def fill(self, tree, ind):
    out = [self.leaf(ind)]
    for node in tree:
      out += self.node(node, ind)
      out.append(self.leaf(ind))
    return out

  def node(self, node, ind):
    k = node[0]
    ind2 = ind + '  '
    if k == 'ret':
      return ['%sif c():' % ind, '%sreturn (x, y, z, t(%d))' % (ind2, 900 + self.n)]
    if k == 'brk':
      return ['%sif c():' % ind, '%sbreak' % ind2]
    if k == 'cont':
      return ['%sif c():' % ind, '%scontinue' % ind2]
    if k == 'if':
      return ['%sif %s:' % (ind, self.cond())] + self.fill(node[1], ind2)
    if k == 'ifelse':
      return ['%sif %s:' % (ind, self.cond())] + self.fill(node[1], ind2) + ['%selse:' % ind] + self.fill(node[2], ind2)
    if k == 'while':
      self.fuel += 1
      fu = 'fuel_%d' % self.fuel
      return ['%s%s = 0' % (ind, fu), '%swhile %s < 2 and c():' % (ind, fu), '%s%s += 1' % (ind2, fu)] + self.fill(node[1], ind2)
    if k == 'for':
      self.fuel += 1
      tgt = 'i_%d' % self.fuel
      return ['%sfor %s in range(2):' % (ind, tgt), '%sz = z + %s' % (ind2, tgt)] + self.fill(node[1], ind2)
    if k == 'tryf':
      return ['%stry:' % ind] + self.fill(node[1], ind2) + ['%sfinally:' % ind, self.leaf(ind2)]
    if k == 'trye':
      return (['%stry:' % ind] + self.fill(node[1], ind2) + ['%sif c():' % ind2, '%s  raise ValueError(x)' % ind2]
              + ['%sexcept ValueError:' % ind, self.leaf(ind2)])
    if k == 'with':
      self.n += 1
      return ['%swith CM(t, %d) as w:' % (ind, self.n), '%sz = z + w' % ind2] + self.fill(node[1], ind2)
    if k == 'def':
      self.fuel += 1
      name = 'g_%d' % self.fuel
      return (['%sdef %s(p):' % (ind, name), '%snonlocal x' % ind2] + self.fill(node[1], ind2)
              + ['%sreturn p + x' % ind2, '%sy = %s(z)' % (ind, name)])
    raise AssertionError(k)


def skeleton_program(tree, avoid=('D1', 'D2')):
  f = Filler(avoid)
  body = f.fill(tree, '  ')
  return HEADER + '\ndef f(t, c, a):\n  x = a[0]\n  y = 1\n  z = 0\n' + '\n'.join(body) + '\n  return (x, y, z)\n'


def control_count(tree):
  n = 0
  for node in tree:
    n += 1
    for sub in node[1:]:
      n += control_count(sub)
  return n
