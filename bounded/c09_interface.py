"""C09 bounded stand-in: the function returned by a conversion keeps the calling interface and the
environment of the original.

For g = malt.to_graph(f) over generated definitions:
  * inspect.signature(g) == inspect.signature(f) (names, kinds, order, defaults; follow_wrapped=False)
  * g.__defaults__ elements / g.__kwdefaults__ values ARE f's objects; no default expression is re-evaluated
    (every default goes through a counting `tick`)
  * g.__globals__ is f.__globals__ (and a later rebinding of a module global is seen)
  * for every free variable n of f: g's cell for n IS f's cell for n; rebinding through a setter closure or
    through `nonlocal` in the converted function is seen by the other side (twin-run oracle)
  * every call binding (positional / keyword / mixed, through *args / **kwargs expansion, directly, through the
    `malt.convert` wrapper and through `converted_call`) gives the same result, every illegal one TypeError in both
  * bound methods / class methods convert to a function taking the instance / class first
  * decorators of the converted function are not re-applied (counting decorators)

Case families
  sig      bounded-exhaustive signatures: 0..2 positional-only x 0..2 positional x suffix of defaults x *args x
           0..2 keyword-only with every default mask x **kwargs (756 shapes) x enumerated call bindings
  rsig     seeded random signatures, arity up to 3 per kind (thorough: 4), random default kinds
  clo      closure shapes: n = 0..4 enclosing cells, masks U (read by f), W (rebound by f through nonlocal),
           L (cell unassigned at conversion time), S (read by a sibling): exhaustive for n <= 2 with kind=def,
           seeded random for n <= 4 and kind in def / lambda / method / nested2, random signature
  loop     functions created in a loop (one code object, shared cell, distinct defaults) and by a factory
           (one code object, distinct cells), converted in a random order
  meth     bound method, class method, static method, method with super() / __class__ cell
  deco     counting decorators (plain, parametrised, stacked, functools.wraps wrapper, on a method, on an inner def)
  probe    fixed witnesses of adjacent behaviour (annotations, removed defaults); a probe that fails is reported
           as a finding with a stable key

usage: c09_interface.py <seed> <tier> [--families sig,rsig,...] [--maxfail N]
"""
import argparse
import hashlib
import itertools
import os
import random
import shutil
import sys
import tempfile
import traceback

sys.dont_write_bytecode = True
_PRIVATE_TMP = tempfile.mkdtemp(prefix='verif_c09_')
os.environ['TMPDIR'] = _PRIVATE_TMP
tempfile.tempdir = _PRIVATE_TMP

sys.path.insert(0, os.path.dirname(os.path.abspath(__file__)))
import harness

import inspect
import malt
from malt.core import converter
from malt.impl import api

PRELUDE = '''CNT = {}
def tick(tag, v):
  CNT[tag] = CNT.get(tag, 0) + 1
  return v
G0 = 'g0'
'''


# ---------------------------------------------------------------------------------------------------------------
# signature specs
# ---------------------------------------------------------------------------------------------------------------

def make_spec(po, pk, ndef, va, ko_mask, vk, salt=0):
  """po, pk: counts; ndef: number of trailing positional defaults; ko_mask: tuple of bools (default present)."""
  pos = ['p%d' % i for i in range(po)] + ['q%d' % i for i in range(pk)]
  dflt = {}
  for j, n in enumerate(pos[len(pos) - ndef:] if ndef else []):
    dflt[n] = _default_expr(n, j + salt)
  kos = ['k%d' % i for i in range(len(ko_mask))]
  for j, (n, m) in enumerate(zip(kos, ko_mask)):
    if m:
      dflt[n] = _default_expr(n, j + salt + 1)
  return dict(po=[(n, dflt.get(n)) for n in pos[:po]], pk=[(n, dflt.get(n)) for n in pos[po:]],
              va='va' if va else None, ko=[(n, dflt.get(n)) for n in kos], vk='vk' if vk else None)


def _default_expr(name, j):
  if j % 2:
    return "tick('d', ['mut', %r])" % name         # mutable default, fresh object per evaluation
  return "tick('d', ('imm', %r))" % name           # immutable, still a fresh object per evaluation


def render_sig(spec, self_name=None):
  po, pk = list(spec['po']), list(spec['pk'])
  if self_name:
    (po if po else pk).insert(0, (self_name, None))
  parts = []
  for n, d in po:
    parts.append(n if d is None else '%s=%s' % (n, d))
  if po:
    parts.append('/')
  for n, d in pk:
    parts.append(n if d is None else '%s=%s' % (n, d))
  if spec['va']:
    parts.append('*' + spec['va'])
  elif spec['ko']:
    parts.append('*')
  for n, d in spec['ko']:
    parts.append(n if d is None else '%s=%s' % (n, d))
  if spec['vk']:
    parts.append('**' + spec['vk'])
  return ', '.join(parts)


def params_listing(spec):
  items = [n for n, _ in spec['po'] + spec['pk']]
  if spec['va']:
    items.append(spec['va'])
  items += [n for n, _ in spec['ko']]
  if spec['vk']:
    items.append('sorted(%s.items())' % spec['vk'])
  return items


def shape_key(spec):
  def part(ps):
    return ''.join('d' if d is not None else 'r' for _, d in ps) or '-'
  return 'po%s.pk%s.%s.ko%s.%s' % (part(spec['po']), part(spec['pk']), 'va' if spec['va'] else '-',
                                  part(spec['ko']), 'vk' if spec['vk'] else '-')


def exhaustive_specs():
  for po in range(3):
    for pk in range(3):
      for ndef in range(po + pk + 1):
        for va in (False, True):
          for nko in range(3):
            for ko_mask in itertools.product((False, True), repeat=nko):
              for vk in (False, True):
                yield make_spec(po, pk, ndef, va, ko_mask, vk, salt=po + pk + nko)


def random_spec(rng, maxk=3):
  po, pk, nko = rng.randint(0, maxk), rng.randint(0, maxk), rng.randint(0, maxk)
  return make_spec(po, pk, rng.randint(0, po + pk), rng.random() < .5,
                   tuple(rng.random() < .5 for _ in range(nko)), rng.random() < .5, salt=rng.randint(0, 9))


def bindings(spec, rng, cap):
  """Call shapes (args, kwargs): every count of positionals 0..n+1 x subsets of keyword names (+ unknown name)."""
  pos = [n for n, _ in spec['po'] + spec['pk']]
  names = pos + [n for n, _ in spec['ko']] + ['zz']
  subsets = []
  if len(names) <= 6:
    for r in range(len(names) + 1):
      subsets.extend(itertools.combinations(names, r))
  else:
    for r in range(3):
      subsets.extend(itertools.combinations(names, r))
    subsets.append(tuple(names[:-1]))
    for _ in range(40):
      subsets.append(tuple(n for n in names if rng.random() < .5))
  # "fill the rest" subsets: exactly the parameters not bound positionally (the legal keyword completions)
  out = []
  for npos in range(len(pos) + 2):
    fills = [tuple(n for n in names[npos:-1]),
             tuple(n for n, d in (spec['po'] + spec['pk'])[npos:] + spec['ko'] if d is None)]
    for s in list(subsets) + fills:
      out.append((tuple(range(1, npos + 1)), dict((n, 'k_' + n) for n in s)))
  seen, uniq = set(), []
  for a, k in out:
    key = (a, tuple(sorted(k)))
    if key not in seen:
      seen.add(key)
      uniq.append((a, k))
  if len(uniq) > cap:
    keep = [b for b in uniq if len(b[1]) <= 1]
    rest = [b for b in uniq if len(b[1]) > 1]
    rng.shuffle(rest)
    uniq = keep + rest[:max(0, cap - len(keep))]
  return uniq


def canonical_call(spec, v):
  """A legal binding: required positionals by position (first one = v), required keyword-only by keyword."""
  args, kw = [], {}
  for i, (n, d) in enumerate(spec['po'] + spec['pk']):
    if d is None:
      args.append(v if i == 0 else 'a_' + n)
    else:
      break
  # positional parameters after the first default all have defaults
  for n, d in spec['ko']:
    if d is None:
      kw[n] = 'k_' + n
  return tuple(args), kw


# ---------------------------------------------------------------------------------------------------------------
# source builders
# ---------------------------------------------------------------------------------------------------------------

def sig_case_source(spec):
  items = params_listing(spec)
  return PRELUDE + '''
def f(%s):
  r = [%s]
  r.append(G0)
  r.append('@UID@')
  if len(r) > 2 and r[0]:
    r.append('T')
  return r
''' % (render_sig(spec), ', '.join(items))


def _body_lines(spec, n, U, W, L, mutate_b):
  lines = []
  if W:
    lines.append('nonlocal ' + ', '.join('x%d' % j for j in sorted(W)))
  lines.append('r = [%s]' % ', '.join(params_listing(spec)))
  lines.append("r.append('@UID@')")
  for j in sorted(U - W):
    lines.append('r.append(x%d)' % j)
  for j in sorted(W):
    if j in L:
      lines.append("x%d = ('w', len(r))" % j)
    else:
      lines.append("x%d = (x%d, len(r))" % (j, j))
    lines.append('r.append(x%d)' % j)
  if mutate_b:
    lines.append('b.append(len(b))')
  lines.append('if len(r) > 1 and r[0]:')
  lines.append("  r.append('T')")
  lines.append('return r')
  return lines


def closure_case_source(case):
  n, U, W, L, S, kind, spec = (case[k] for k in ('n', 'U', 'W', 'L', 'S', 'kind', 'spec'))
  ind = '  '
  out = [PRELUDE, 'def outer(conv):']
  for j in range(n):
    if j in L:
      out.append(ind + 'x%d = None' % j)
      out.append(ind + 'del x%d' % j)
    else:
      out.append(ind + "x%d = 'x%dv'" % (j, j))
  out.append(ind + 'inst = None')
  body = _body_lines(spec, n, U, W, L, case.get('mutate_b', False))
  if kind == 'def':
    out.append(ind + 'def f(%s):' % render_sig(spec))
    out += [ind * 2 + l for l in body]
  elif kind == 'nested2':
    out.append(ind + 'def mid():')
    out.append(ind * 2 + 'def f(%s):' % render_sig(spec))
    out += [ind * 3 + l for l in body]
    out.append(ind * 2 + 'return f')
    out.append(ind + 'f = mid()')
  elif kind == 'method':
    out.append(ind + 'class C(object):')
    out.append(ind * 2 + 'def m(%s):' % render_sig(spec, 'self'))
    out += [ind * 3 + l for l in body]
    out.append(ind + 'inst = C()')
    out.append(ind + 'f = inst.m')
  elif kind == 'lambda':
    items = params_listing(spec) + ["'@UID@'"] + ['x%d' % j for j in sorted(U)]
    out.append(ind + 'f = lambda %s: [%s]' % (render_sig(spec), ', '.join(items)))
  if kind == 'lambda':
    out.append(ind + 'sib = lambda a: [%s]' % ', '.join(['a', "'@UID@'"] + ['x%d' % j for j in sorted(S)]))
  else:
    out.append(ind + 'def sib(a):')
    out.append(ind * 2 + "r = [a, '@UID@']")
    for j in sorted(S):
      out.append(ind * 2 + 'r.append(x%d)' % j)
    out.append(ind * 2 + 'return r')
  out.append(ind + 'def setv(j, v):')
  if n:
    out.append(ind * 2 + 'nonlocal ' + ', '.join('x%d' % j for j in range(n)))
  out.append(ind * 2 + 'pass')
  for j in range(n):
    out.append(ind * 2 + 'if j == %d:' % j)
    out.append(ind * 3 + 'x%d = v' % j)
  out.append(ind + 'def getv(j):')
  out.append(ind * 2 + 'pass')
  for j in range(n):
    out.append(ind * 2 + 'if j == %d:' % j)
    out.append(ind * 3 + 'return x%d' % j)
  out.append(ind + 'g = conv(f)')
  out.append(ind + 'gs = conv(sib)')
  out.append(ind + 'return dict(f=f, g=g, sib=sib, gs=gs, setv=setv, getv=getv, inst=inst)')
  return '\n'.join(out) + '\n'


LOOP_SOURCE = PRELUDE + '''
def outer(conv, order):
  fs = []
  for i in range(3):
    k = i * 10
    def f(a, b=tick('d', ['loop', i]), *, c=tick('d', ('kw', i))):
      r = [a, b, c, k, '@UID@']
      b.append(a)
      if a:
        r.append('T')
      return r
    fs.append(f)
  def mk(k, u):
    def h(a, *va, c=tick('d', {'mk': k})):
      nonlocal k
      k = k + a
      c[a] = k
      return [a, va, sorted(c.items()), k, u, '@UID@']
    return h
  hs = [mk(j, 'u%d' % j) for j in range(3)]
  def setk(v):
    nonlocal k
    k = v
  allf = fs + hs
  gs = [None] * len(allf)
  for j in order:
    gs[j] = conv(allf[j])
  return dict(fs=allf, gs=gs, setk=setk)
'''

METH_SOURCE = PRELUDE + '''
class B(object):
  def m(self, a, *va, **vk):
    return ('B.m', self.v, a, va, sorted(vk.items()))
class C(B):
  def __init__(self, v):
    self.v = v
  def m(self, a, b=tick('d', ['m']), /, c=tick('d', ('c',)), *va, k=tick('d', {'k': 1}), **vk):
    r = [self.v, a, b, c, va, k, sorted(vk.items()), G0]
    if a:
      r.append('T')
    return r
  def sup(self, a, b=tick('d', 5)):
    return super().m(a, b) + (__class__.__name__,)
  @classmethod
  def cm(cls, a, *, k=tick('d', ['cm'])):
    return (cls.__name__, a, k)
  @staticmethod
  def sm(a, b=tick('d', ['sm'])):
    return ('sm', a, b)
o = C('ov')
'''

DECO_SOURCE = PRELUDE + '''
import functools
def deco(fn):
  CNT['deco'] = CNT.get('deco', 0) + 1
  return fn
def deco_a(tag):
  CNT['deco_a'] = CNT.get('deco_a', 0) + 1
  def d(fn):
    CNT[tag] = CNT.get(tag, 0) + 1
    fn.mark = tag
    return fn
  return d
def wrapping(fn):
  CNT['wrapping'] = CNT.get('wrapping', 0) + 1
  @functools.wraps(fn)
  def w(*a, **k):
    CNT['w_called'] = CNT.get('w_called', 0) + 1
    return ('w', fn(*a, **k))
  return w
@deco
def f1(a, b=tick('d', ['f1'])):
  if a:
    return (a, b)
  return (b, a)
@deco
@deco_a('t2')
def f2(a, *, k=tick('d', ('f2',))):
  return [a, k]
@wrapping
def f3(a, b=tick('d', ['f3'])):
  return [a, b]
class D(object):
  @deco
  @deco_a('tm')
  def m(self, a):
    return ('D.m', a)
def f4(a):
  @deco
  def inner(b):
    return b + 1
  return inner(a)
def f5(a):
  @deco_a('t5')
  def inner(b):
    return b + 2
  return inner(a)
o = D()
'''


# ---------------------------------------------------------------------------------------------------------------
# checks
# ---------------------------------------------------------------------------------------------------------------

class Ctx(object):
  def __init__(self, case):
    self.case = case
    self.evaluated = 0
    self.nontrivial = False
    self.failures = []

  def fail(self, kind, what, **extra):
    if len(self.failures) < 3:
      d = dict(kind=kind, sig=self.case['sig'], what=what, family=self.case['family'])
      d.update(extra)
      self.failures.append(d)


def sig_of(fn):
  return inspect.signature(fn, follow_wrapped=False)


def check_pair(cx, f, g, label=''):
  """Identity part of the contract for one (original function, converted function) pair."""
  f = getattr(f, '__func__', f)
  cx.evaluated += 1
  try:
    sf, sg = sig_of(f), sig_of(g)
    if sf != sg:
      cx.fail('signature-differs', '%ssignature %s became %s' % (label, sf, sg))
    elif list(sf.parameters) != list(sg.parameters):
      cx.fail('signature-differs', '%sparameter order %s became %s' % (label, sf, sg))
  except Exception as e:
    cx.fail('signature-error', '%s%s: %s' % (label, type(e).__name__, e))
  fd, gd = f.__defaults__, g.__defaults__
  if (fd or ()) or (gd or ()):
    cx.nontrivial = True
    cx.evaluated += 1
    if len(fd or ()) != len(gd or ()) or any(a is not b for a, b in zip(fd or (), gd or ())):
      cx.fail('defaults-not-identical', '%s__defaults__ %r became %r (identity)' % (label, fd, gd))
  fk, gk = f.__kwdefaults__, g.__kwdefaults__
  if (fk or {}) or (gk or {}):
    cx.nontrivial = True
    cx.evaluated += 1
    if set(fk or {}) != set(gk or {}) or any((gk or {}).get(n) is not v for n, v in (fk or {}).items()):
      cx.fail('kwdefaults-not-identical', '%s__kwdefaults__ %r became %r (identity)' % (label, fk, gk))
  cx.evaluated += 1
  if g.__globals__ is not f.__globals__:
    cx.fail('globals-differ', '%s__globals__ is a different dict' % label)
  fv = f.__code__.co_freevars
  for i, n in enumerate(fv):
    cx.nontrivial = True
    cx.evaluated += 1
    gv = g.__code__.co_freevars
    if n not in gv:
      cx.fail('cell-missing', '%sfree variable %s of the original is not free in the converted function %r'
              % (label, n, gv))
    elif g.__closure__[gv.index(n)] is not f.__closure__[i]:
      cx.fail('cell-differs', '%scell of free variable %s is not the original cell' % (label, n))


def outcome(fn, args, kw):
  try:
    return ('ok', repr(fn(*args, **kw)))
  except RecursionError:
    return ('raise', 'RecursionError')
  except Exception as e:
    return ('raise', harness.exc_kind(e))


STD = dict(recursive=True, user_requested=True, optional_features=None)


def check_sig_case(cx, mod, rng):
  spec = cx.case['spec']
  f = mod.f
  before = dict(mod.CNT)
  g = malt.to_graph(f)
  check_pair(cx, f, g)
  w = malt.convert(recursive=True)(f)
  opts = converter.ConversionOptions(**STD)
  bs = bindings(spec, rng, cx.case['cap'])
  legal = illegal = 0
  for i, (args, kw) in enumerate(bs):
    o1 = outcome(f, args, kw)
    o2 = outcome(g, args, kw)
    cx.evaluated += 1
    if o1[0] == 'ok':
      legal += 1
    elif o1 == ('raise', 'TypeError'):
      illegal += 1
    if o1 != o2:
      cx.fail('call-differs', 'f(*%r, **%r): original %r, converted %r' % (args, kw, o1, o2),
              binding=[list(args), kw], route='to_graph')
    if i % 7 == 0 or o1[0] == 'ok':
      o3 = outcome(w, args, kw)
      o4 = outcome(lambda *a, **k: api.converted_call(f, a, k if (k or i % 2) else None, options=opts), args, kw)
      cx.evaluated += 2
      if o3 != o1:
        cx.fail('call-differs', 'convert wrapper (*%r, **%r): original %r, wrapper %r' % (args, kw, o1, o3),
                binding=[list(args), kw], route='convert')
      if o4 != o1:
        cx.fail('call-differs', 'converted_call(f, %r, %r): original %r, got %r' % (args, kw, o1, o4),
                binding=[list(args), kw], route='converted_call')
  if legal and illegal:
    cx.nontrivial = True
  # a rebinding of a module global is seen by the converted function
  a, k = canonical_call(spec, 1)
  mod.G0 = 'g0-rebound'
  o1, o2 = outcome(f, a, k), outcome(g, a, k)
  cx.evaluated += 1
  if o1 != o2 or 'g0-rebound' not in o2[1]:
    cx.fail('global-rebinding-not-seen', 'after G0 was rebound: original %r, converted %r' % (o1, o2))
  if mod.CNT != before:
    cx.fail('default-reevaluated', 'evaluation counts %r became %r' % (before, mod.CNT))
  cx.case['_stat'] = (legal, illegal)


def run_script(d, n, spec, real):
  """The fixed interaction with one instance of a closure case; `real` = g / gs are converted functions."""
  out = []

  def call(fn, v, converted):
    args, kw = canonical_call(spec, v) if fn in (d['f'], d['g']) else ((v,), {})
    if converted and real and d['inst'] is not None and fn is d['g']:
      args = (d['inst'],) + args
    out.append(outcome(fn, args, kw))

  def get(j):
    out.append(outcome(d['getv'], (j,), {}))

  call(d['g'], 1, True)
  for j in range(n):
    get(j)
  call(d['f'], 2, False)
  for j in range(n):
    d['setv'](j, 'S%d' % j)
    call(d['g'], 3, True)
    get(j)
    call(d['f'], 4, False)
    get(j)
  call(d['gs'], 5, True)
  call(d['sib'], 6, False)
  call(d['g'], 0, True)
  for j in range(n):
    d['setv'](j, 'Z%d' % j)
  call(d['f'], 7, False)
  call(d['g'], 8, True)
  call(d['gs'], 9, True)
  for j in range(n):
    get(j)
  return out


def check_closure_case(cx, mod, rng):
  case = cx.case
  before = dict(mod.CNT)
  ref = mod.outer(lambda h: h)
  mid = dict(mod.CNT)
  new = mod.outer(malt.to_graph)
  after = dict(mod.CNT)
  # one invocation of outer evaluates each default once, conversion adds nothing
  d1 = dict((k, mid.get(k, 0) - before.get(k, 0)) for k in mid)
  d2 = dict((k, after.get(k, 0) - mid.get(k, 0)) for k in after)
  cx.evaluated += 1
  if d1 != d2:
    cx.fail('default-reevaluated', 'evaluations per outer() call: %r without conversion, %r with' % (d1, d2))
  check_pair(cx, new['f'], new['g'], 'f: ')
  check_pair(cx, new['sib'], new['gs'], 'sib: ')
  ff = getattr(new['f'], '__func__', new['f'])
  for n_ in set(ff.__code__.co_freevars) & set(new['sib'].__code__.co_freevars):
    g, gs = new['g'], new['gs']
    cx.evaluated += 1
    if n_ in g.__code__.co_freevars and n_ in gs.__code__.co_freevars:
      if g.__closure__[g.__code__.co_freevars.index(n_)] is not gs.__closure__[gs.__code__.co_freevars.index(n_)]:
        cx.fail('cell-differs', 'converted siblings do not share the cell of %s' % n_)
  o_ref = run_script(ref, case['n'], case['spec'], False)
  o_new = run_script(new, case['n'], case['spec'], True)
  cx.evaluated += len(o_ref)
  if o_ref != o_new:
    i = [a == b for a, b in zip(o_ref, o_new)].index(False)
    cx.fail('rebinding-differs', 'step %d of the script: all-original run %r, run with converted g/gs %r'
            % (i, o_ref[i], o_new[i]), script_ref=o_ref[:i + 1][-4:], script_new=o_new[:i + 1][-4:])
  if mod.CNT != after:
    cx.fail('default-reevaluated', 'calls changed the evaluation counts %r -> %r' % (after, mod.CNT))
  if case['U'] or case['W']:
    cx.nontrivial = True


def check_loop_case(cx, mod, rng):
  order = cx.case['order']
  before = dict(mod.CNT)
  ref = mod.outer(lambda h: h, order)
  mid = dict(mod.CNT)
  new = mod.outer(malt.to_graph, order)
  after = dict(mod.CNT)
  d1 = dict((k, mid.get(k, 0) - before.get(k, 0)) for k in mid)
  d2 = dict((k, after.get(k, 0) - mid.get(k, 0)) for k in after)
  cx.evaluated += 1
  if d1 != d2:
    cx.fail('default-reevaluated', 'evaluations per outer() call: %r without conversion, %r with' % (d1, d2))
  for j, (f, g) in enumerate(zip(new['fs'], new['gs'])):
    check_pair(cx, f, g, 'function %d: ' % j)
  if len(set(id(f.__code__) for f in new['fs'][:3])) != 1 or len(set(id(f.__code__) for f in new['fs'][3:])) != 1:
    cx.fail('generator-bug', 'functions do not share their code object')

  def script(d):
    out = []
    for rnd in range(2):
      for j in range(6):
        out.append(outcome(d['gs'][j], (rnd + j,), {}))
        out.append(outcome(d['fs'][j], (rnd + 1,), {}))
      d['setk'](100 + rnd)
      out.append(outcome(d['gs'][1], (0,), {}))
      out.append(outcome(d['gs'][4], (2, 3), {'c': {}}))
    return out
  o1, o2 = script(ref), script(new)
  cx.evaluated += len(o1)
  if o1 != o2:
    i = [a == b for a, b in zip(o1, o2)].index(False)
    cx.fail('call-differs', 'step %d: all-original %r, with converted %r' % (i, o1[i], o2[i]))
  cx.nontrivial = True


def check_meth_case(cx, mod, rng):
  before = dict(mod.CNT)
  C, o = mod.C, mod.o

  class E(mod.B):
    def __init__(self):
      self.v = 'ev'
  e = E()
  spec_m = dict(po=[('a', None), ('b', 'd')], pk=[('c', 'd')], va='va', ko=[('k', 'd')], vk='vk')
  few = [((1,), {}), ((0,), {}), ((), {}), ((1, 2), {}), ((1,), {'k': 3}), ((1,), {'b': 3}), ((1, 2, 3, 4), {}),
         ((), {'a': 1}), ((1,), {'zz': 2})]
  # label, requested entity, underlying function, arguments both sides get first, arguments only g gets first
  pairs = [('bound m', o.m, C.m, (), (o,), bindings(spec_m, rng, 150)),
           ('plain C.m', C.m, C.m, (o,), (), few),
           ('bound sup', o.sup, C.sup, (), (o,), few),
           ('classmethod', C.cm, C.__dict__['cm'].__func__, (), (C,), few),
           ('staticmethod', C.sm, C.sm, (), (), few),
           ('inherited bound', e.m, mod.B.m, (), (e,), few)]
  opts = converter.ConversionOptions(**STD)
  for label, req, func, lead, first, calls in pairs:
    g = malt.to_graph(req)
    cx.evaluated += 1
    if inspect.ismethod(g) or not inspect.isfunction(g):
      cx.fail('method-shape', '%s: conversion returned %r, not a plain function' % (label, type(g)))
      continue
    check_pair(cx, func, g, label + ': ')
    for args, kw in calls:
      o1 = outcome(req, lead + args, kw)
      o2 = outcome(g, first + lead + args, kw)
      cx.evaluated += 1
      if o1 != o2:
        cx.fail('call-differs', '%s (*%r, **%r): original %r, converted (instance first) %r'
                % (label, args, kw, o1, o2))
      if o1[0] == 'ok':
        o3 = outcome(lambda *a, **k: api.converted_call(req, a, k or None, options=opts), lead + args, kw)
        cx.evaluated += 1
        if o3 != o1:
          cx.fail('call-differs', '%s converted_call(%r, %r): original %r, got %r' % (label, args, kw, o1, o3))
  if mod.CNT != before:
    cx.fail('default-reevaluated', 'evaluation counts %r became %r' % (before, mod.CNT))
  cx.nontrivial = True


def check_deco_case(cx, mod, rng):
  before = dict(mod.CNT)
  o = mod.o
  gs = {}
  for name, req in (('f1', mod.f1), ('f2', mod.f2), ('f3', mod.f3), ('m', o.m), ('f4', mod.f4), ('f5', mod.f5)):
    gs[name] = malt.to_graph(req)
    check_pair(cx, req, gs[name], name + ': ')
  cx.evaluated += 1
  if mod.CNT != before:
    cx.fail('decorator-reapplied', 'conversion changed the counters %r -> %r' % (before, mod.CNT))

  def delta(fn, args, kw):
    b = dict(mod.CNT)
    r = outcome(fn, args, kw)
    return r, sorted((k, mod.CNT.get(k, 0) - b.get(k, 0)) for k in mod.CNT if mod.CNT.get(k, 0) != b.get(k, 0))
  for name, req, calls in (('f1', mod.f1, [((1,), {}), ((0,), {}), ((1,), {'b': 2}), ((), {})]),
                           ('f2', mod.f2, [((1,), {}), ((1,), {'k': 2}), ((1, 2), {})]),
                           ('f3', mod.f3, [((1,), {}), ((1, 2), {}), ((), {})]),
                           ('m', o.m, [((1,), {}), ((), {})]),
                           ('f4', mod.f4, [((1,), {})]), ('f5', mod.f5, [((1,), {})])):
    for args, kw in calls:
      r1 = delta(req, args, kw)
      r2 = delta(gs[name], ((o,) + args) if name == 'm' else args, kw)
      cx.evaluated += 1
      if r1 != r2:
        cx.fail('decorator-reapplied' if r1[0] == r2[0] else 'call-differs',
                '%s(*%r, **%r): original (result, counter deltas) %r, converted %r' % (name, args, kw, r1, r2))
  cx.nontrivial = True


# ---- probes: fixed witnesses of adjacent behaviour ------------------------------------------------------------

PROBES = {}


def probe(name):
  def d(fn):
    PROBES[name] = fn
    return fn
  return d


PROBE_SRC = {
    'annotations-module-level': PRELUDE + '''
def f(a: int, b: 'str' = tick('d', ['b']), /, *va: float, k: "K" = tick('d', ('k',)), **vk: bool) -> list:
  return [a, b, va, k, sorted(vk.items())]
''',
    'annotation-nested-local': PRELUDE + '''
def outer():
  T = int
  def f(a: T):
    return a
  return f
f = outer()
''',
    'annotation-reevaluated': PRELUDE + '''
def f(a: tick('ann', int)):
  return a
''',
    'defaults-removed': PRELUDE + '''
def f(a, b=3):
  return (a, b)
f.__defaults__ = None
''',
    'kwdefaults-removed': PRELUDE + '''
def f(a, *, k=3):
  return (a, k)
f.__kwdefaults__ = None
''',
}


@probe('annotations-module-level')
def _p1(cx, mod):
  g = malt.to_graph(mod.f)
  check_pair(cx, mod.f, g)
  for args, kw in [((1,), {}), ((1, 2, 3.0), {'k': 4, 'z': True}), ((), {})]:
    o1, o2 = outcome(mod.f, args, kw), outcome(g, args, kw)
    cx.evaluated += 1
    if o1 != o2:
      cx.fail('call-differs', '(*%r, **%r): %r vs %r' % (args, kw, o1, o2))


@probe('annotation-nested-local')
def _p2(cx, mod):
  cx.evaluated += 1
  try:
    g = malt.to_graph(mod.f)
  except Exception as e:
    cx.fail('annotation-scope', 'a nested function whose parameter annotation names a local of the enclosing '
            'function cannot be converted: %s: %s' % (type(e).__name__, str(e)[:160]))
    return
  check_pair(cx, mod.f, g)


@probe('annotation-reevaluated')
def _p3(cx, mod):
  before = dict(mod.CNT)
  g = malt.to_graph(mod.f)
  g2 = malt.to_graph(mod.f)
  check_pair(cx, mod.f, g)
  cx.evaluated += 1
  if mod.CNT != before:
    cx.fail('annotation-reevaluated', 'parameter annotation expressions are evaluated again by every conversion '
            '(instantiate): counts %r became %r after two to_graph calls' % (before, mod.CNT))


@probe('defaults-removed')
def _p4(cx, mod):
  g = malt.to_graph(mod.f)
  cx.evaluated += 2
  if sig_of(g) != sig_of(mod.f):
    cx.fail('defaults-removed', 'f.__defaults__ = None after definition: signature %s became %s, g(1) = %r while '
            'f(1) raises TypeError (instantiate assigns __defaults__ only when truthy, the erased None '
            'placeholders stay)' % (sig_of(mod.f), sig_of(g), outcome(g, (1,), {})))


@probe('kwdefaults-removed')
def _p5(cx, mod):
  g = malt.to_graph(mod.f)
  cx.evaluated += 2
  if sig_of(g) != sig_of(mod.f):
    cx.fail('defaults-removed', 'f.__kwdefaults__ = None after definition: signature %s became %s, g(1) = %r while '
            'f(1) raises TypeError' % (sig_of(mod.f), sig_of(g), outcome(g, (1,), {})))


CHECKERS = dict(sig=check_sig_case, rsig=check_sig_case, clo=check_closure_case, loop=check_loop_case,
                meth=check_meth_case, deco=check_deco_case)


def check_case(case):
  cx = Ctx(case)
  name = 'vp_c09_%d_%d' % (os.getpid(), case['idx'])
  rng = random.Random(case['seed'])
  try:
    mod = harness.load_source(case['src'], name)
  except SyntaxError as e:
    cx.fail('generator-bug', 'SyntaxError: %s' % e)
    return _result(cx)
  try:
    if case['family'] == 'probe':
      PROBES[case['probe']](cx, mod)
    else:
      CHECKERS[case['family']](cx, mod, rng)
  except Exception as e:
    tb = traceback.format_exc().strip().splitlines()
    kind = 'conversion-error' if isinstance(e, api.AutoGraphError) or 'malt' in ''.join(tb[-6:]) else 'harness-error'
    cx.fail(kind, '%s: %s' % (type(e).__name__, str(e)[:300]), traceback=tb[-8:])
  finally:
    harness.unload(name)
  return _result(cx)


def _result(cx):
  for f in cx.failures:
    f['program'] = cx.case['src']
    f['seed'] = cx.case['seed']
    f['desc'] = cx.case['desc']
  return dict(idx=cx.case['idx'], evaluated=cx.evaluated, nontrivial=cx.nontrivial, failures=cx.failures,
              stat=cx.case.get('_stat'))


# ---------------------------------------------------------------------------------------------------------------
# case generation
# ---------------------------------------------------------------------------------------------------------------

def subsets(n):
  return [frozenset(j for j in range(n) if m >> j & 1) for m in range(1 << n)]


AB_SPEC = dict(po=[], pk=[('a', None), ('b', "tick('d', [])")], va=None, ko=[], vk=None)


def gen_cases(seed, tier, families):
  rng = random.Random(seed)
  thorough = tier == 'thorough'
  cases = []

  def add(family, sig, desc, src, **kw):
    # every case gets its own constant in the converted bodies: code objects that compare EQUAL (CPython ignores
    # co_filename and the text of default expressions) share a cache entry, which is C10's subject, not C09's
    src = src.replace('@UID@', 'u%d' % len(cases))
    c = dict(idx=len(cases), family=family, sig=sig, desc=desc, src=src,
             seed=rng.randrange(1 << 30))
    c.update(kw)
    cases.append(c)

  if 'sig' in families:
    for spec in exhaustive_specs():
      add('sig', shape_key(spec), 'def f(%s)' % render_sig(spec), sig_case_source(spec), spec=spec,
          cap=400 if thorough else 160)
  if 'rsig' in families:
    for _ in range(1500 if thorough else 150):
      spec = random_spec(rng, 4 if thorough else 3)
      add('rsig', shape_key(spec), 'def f(%s)' % render_sig(spec), sig_case_source(spec), spec=spec,
          cap=400 if thorough else 120)
  if 'clo' in families:
    def clo(n, U, W, L, S, kind, spec, mutate_b):
      case = dict(n=n, U=U, W=W, L=L, S=S, kind=kind, spec=spec, mutate_b=mutate_b)
      sig = '%s.n%d.U%s.W%s.L%s.S%s' % (kind, n, _m(U), _m(W), _m(L), _m(S))
      add('clo', sig, sig + ' f(%s)' % render_sig(spec), closure_case_source(case), **case)
    for n in range(0, 4 if thorough else 3):
      for U in subsets(n):
        for W in [w for w in subsets(n) if w <= U]:
          for L in subsets(n):
            for S in subsets(n):
              if n == 3 and rng.random() > .25:
                continue
              clo(n, U, W, L, S, 'def', AB_SPEC, True)
    for _ in range(3000 if thorough else 330):
      n = rng.choice([1, 2, 3, 3, 4, 4])
      kind = rng.choice(['def', 'lambda', 'method', 'nested2'])
      U = frozenset(j for j in range(n) if rng.random() < .6)
      W = frozenset(j for j in U if rng.random() < .4) if kind != 'lambda' else frozenset()
      L = frozenset(j for j in range(n) if rng.random() < .3)
      S = frozenset(j for j in range(n) if rng.random() < .5)
      clo(n, U, W, L, S, kind, random_spec(rng, 2), False)
  if 'loop' in families:
    perms = list(itertools.permutations(range(6)))
    rng.shuffle(perms)
    for order in perms[:200 if thorough else 24]:
      add('loop', 'loop', 'conversion order %r' % (order,), LOOP_SOURCE, order=list(order))
  if 'meth' in families:
    add('meth', 'meth', 'methods', METH_SOURCE)
  if 'deco' in families:
    add('deco', 'deco', 'decorators', DECO_SOURCE)
  if 'probe' in families:
    for name in sorted(PROBE_SRC):
      add('probe', name, 'probe ' + name, PROBE_SRC[name], probe=name)
  return cases


def _m(s):
  return ''.join(str(j) for j in sorted(s)) or '-'


def main():
  ap = argparse.ArgumentParser()
  ap.add_argument('seed', type=int)
  ap.add_argument('tier')
  ap.add_argument('--families', default='sig,rsig,clo,loop,meth,deco,probe')
  ap.add_argument('--maxfail', type=int, default=10)
  a = ap.parse_args()
  families = a.families.split(',')
  harness.scratch_dir()       # created before the fork so that the parent can remove it
  try:
    cases = gen_cases(a.seed, a.tier, families)
    evaluated = 0
    seen_nt = set()
    per_family = {}
    failures, fkeys, samples = [], set(), []
    legal = illegal = 0
    order = list(cases)
    random.Random(a.seed).shuffle(order)      # spread the expensive cases over the pool
    for r in harness.pool_map(check_case, order, chunksize=4):
      c = cases[r['idx']]
      evaluated += r['evaluated']
      fam = per_family.setdefault(c['family'], dict(cases=0, evaluated=0))
      fam['cases'] += 1
      fam['evaluated'] += r['evaluated']
      if r['stat']:
        legal += r['stat'][0]
        illegal += r['stat'][1]
      if r['nontrivial']:
        seen_nt.add(hashlib.sha1((c['src'] + repr(c.get('order'))).encode()).hexdigest())
      for f in r['failures']:
        key = (f['kind'], f['sig'])
        if key not in fkeys and len(failures) < a.maxfail:
          fkeys.add(key)
          failures.append(f)
    for fam in ('sig', 'clo'):
      for c in cases:
        if c['family'] == fam and c['idx'] % 97 == 5:
          samples.append(c['desc'])
          break
    harness.emit(dict(
        evaluated=evaluated, distinct_nontrivial=len(seen_nt), cases=len(cases), per_family=per_family,
        legal_bindings=legal, illegal_bindings=illegal,
        rule='one generated module per case; sig: all 756 shapes of 0..2 positional-only x 0..2 positional x '
             'default suffix x *args x 0..2 keyword-only x default mask x **kwargs, each with enumerated call '
             'bindings (positional count 0..n+1 x keyword subsets incl. an unknown name) through to_graph, the '
             'convert wrapper and converted_call; rsig: seeded random signatures; clo: closure shapes n<=2 '
             'exhaustive over (read, rebound, unassigned, sibling) masks, n<=4 random over def/lambda/method/'
             'nested2, compared by a twin run of a fixed call/rebind script; loop: one code object, shared or '
             'distinct cells, random conversion order; meth, deco: fixed modules; probe: adjacent witnesses. '
             'evaluated = comparisons made; a case is non-trivial when it compared a default object, a closure '
             'cell, or both legal and illegal bindings',
        samples=samples, failures=failures, seed=a.seed, tier=a.tier))
  finally:
    shutil.rmtree(harness.scratch_dir(), ignore_errors=True)
    shutil.rmtree(_PRIVATE_TMP, ignore_errors=True)


if __name__ == '__main__':
  main()
