"""Run-time evaluation of the OriginResolver contracts (malt/pyct/origin_info.py: __init__, _absolute_lineno) on the real
parser: functions with 0..3 decorator lines (plain, stacked, with arguments, multi-line), at module level, nested in a
class (indented) and preceded by 0..40 padding lines, are parsed with parser.parse_entity and annotated with
origin_info.resolve_entity exactly as the transpiler does; for EVERY annotated node the file line it is mapped to must
hold the node's own source line (linecache text == OriginInfo.source_code_line), and the first line of the parsed
text must map to the line inspect reports.  Replay hook of the contracts and bounded stand-in (labelled bounded)."""
import ast
import inspect
import json
import linecache
import random
import sys

from malt.pyct import anno, origin_info, parser
from bounded import harness

DECOS = ['@deco', '@deco2(1)', '@deco2(\n    2)', '@tag.inner']

HEAD = '''
def deco(f):
  return f
def deco2(a):
  return deco
class tag(object):
  inner = staticmethod(deco)
'''

BODIES = [
    ['x = a + 1', 'if x > 0:', '  x = x * 2', 'return x'],
    ['"""doc"""', 'for i in range(a):', '  a += i', 'while a > 9:', '  a -= 3', 'return a'],
    ['try:', '  y = 1 // a', 'except ZeroDivisionError:', '  y = 0', 'return (y,', '        a)'],
]


def make_module(rnd, n):
  lines = HEAD.strip('\n').split('\n')
  names = []
  for i in range(n):
    lines += [''] * rnd.choice([0, 1, 2, 7, 40])
    in_class = rnd.random() < 0.35
    ind = ''
    if in_class:
      lines.append('class K%d(object):' % i)
      ind = '  '
    k = rnd.choice([0, 0, 1, 1, 2, 3])
    for d in rnd.sample(DECOS, k):
      lines += [ind + l for l in d.split('\n')]
    if in_class:
      lines.append(ind + '@staticmethod')
    lines.append('%sdef f%d(a):' % (ind, i))
    for l in rnd.choice(BODIES):
      lines.append(ind + '  ' + l)
    names.append(('K%d.f%d' % (i, i)) if in_class else 'f%d' % i)
  return '\n'.join(lines) + '\n', names


def main():
  seed = int(sys.argv[1]) if len(sys.argv) > 1 else 0
  tier = sys.argv[2] if len(sys.argv) > 2 else 'quick'
  rnd = random.Random(seed * 7919 + 13)
  nmods = 6 if tier == 'quick' else 120
  failures, evaluated, distinct = [], 0, set()
  for mi in range(nmods):
    src, names = make_module(rnd, 8)
    name = 'rt_origin_prog_%d_%d' % (seed, mi)
    mod = harness.load_source(src, name)
    try:
      for q in names:
        fn = mod
        for part in q.split('.'):
          fn = getattr(fn, part)
        try:
          node, source = parser.parse_entity(fn, future_features=())
          origin_info.resolve_entity(node, source, fn)
          path = inspect.getsourcefile(fn)
          _, first = inspect.getsourcelines(fn)
          ndeco = len(node.decorator_list)
          for n in ast.walk(node):
            o = anno.getanno(n, anno.Basic.ORIGIN, default=None)
            if o is None:
              continue
            evaluated += 1
            distinct.add((ndeco, n.lineno))
            text = linecache.getline(path, o.loc.lineno)
            if text.strip() != o.source_code_line.strip() or o.loc.filename != path:
              if len(failures) < 5:
                failures.append(dict(
                    kind='origin', sig='line-of-%d-decorator-function' % min(ndeco, 1),
                    what='%s (%d decorator lines, text starts at file line %d): the %s on line %d of the parsed text (%r) is mapped to file '
                         'line %d, which holds %r' % (q, ndeco, first, type(n).__name__, n.lineno, o.source_code_line.strip(),
                                                      o.loc.lineno, text.strip()),
                    program=source))
              break
        except Exception as e:  # pylint:disable=broad-except
          if len(failures) < 5:
            failures.append(dict(kind='crash', sig=type(e).__name__, what='%s: %r' % (q, e), program=src[:1500]))
    finally:
      harness.unload(name)
  print(json.dumps(dict(
      evaluated=evaluated, distinct_nontrivial=len(distinct), failures=failures,
      rule='bounded: %d modules x 8 functions (0..3 decorator lines incl. multi-line and attribute decorators, module level / '
           'static methods, 0..40 padding lines), every ORIGIN-annotated node compared with the file text; non-trivial = distinct '
           '(decorator count, line) pairs' % nmods,
      samples=['@deco2(\\n    2)\\n@deco\\ndef f3(a): ...  -> every node maps to the file line holding its own text'])))


main()
