"""C16 bounded stand-in: the conversion-status context is restored on every exit and isolated per thread.

Case = a random call tree written to a real module.  Every node n<i> is a function n<i>_impl(env) that is
  plain | malt.convert(recursive=R, user_requested=U)(impl) | malt.experimental.do_not_convert(impl) |
  api.call_with_unspecified_conversion_status(impl) | malt.to_graph(impl, recursive=R)
and calls its children through one of the call sites
  n<k>(env)                                                    (from converted parents: ag__.converted_call)
  with ag_ctx.ControlStatusCtx(status=S): n<k>(env)            S in ENABLED / DISABLED / UNSPECIFIED
  with ControlStatusCtx(S): api.converted_call(n<k>, (env,), None, options=ConversionOptions(R, U, optional_features=None))
  with ControlStatusCtx(S): api.internal_convert(n<k>, ag_ctx.control_status_ctx(), by_default, U)(env)
A run raises Boom at one (node, position) - or nowhere - and catches it at one chosen ancestor (or lets it
escape to the driver).  The same tree is run by 1..16 threads at once (barrier start, random switch interval),
every thread with its own raise/catch choices and its own recorder `env`; observer threads that never enter a
context run alongside.

Oracles (property wording):
  identity   ag_ctx.control_status_ctx() evaluated in the caller immediately before a call site and immediately
             after it (in a `finally`: returned or raised) is the very same object; also around each whole run;
  dnc        probes in the body of a do_not_convert-wrapped function see Status.DISABLED (UNSPECIFIED for
             call_with_unspecified_conversion_status);
  enabled    a probe whose calling frame is generated code of a function whose FunctionScope carries
             options.user_requested sees Status.ENABLED;
  model      the whole sequence of (node, status, runs-converted?) probes of a run equals the prediction of a small
             reference model of api.converted_call / the wrappers (computed per thread: schedule independent);
  threads    a thread's observations match ITS prediction whatever the others do; a thread that never entered a
             context always sees one and the same UNSPECIFIED default object, distinct from every other thread's.
The probe helper is a plain Python method marked ag__.autograph_artifact: converted code calls it unconverted and
without any context push, so it observes exactly the status of the code that calls it (a do_not_convert-wrapped
probe would always see DISABLED).

usage: c16_status_trees.py <seed> <tier> [--trees N] [--maxfail N]
"""
import argparse
import hashlib
import os
import random
import shutil
import sys
import threading
import traceback

sys.path.insert(0, os.path.dirname(os.path.abspath(__file__)))
import harness

import malt
from malt.core import ag_ctx
from malt.impl import api
from malt.operators import function_wrappers

STATUSES = ['ENABLED', 'DISABLED', 'UNSPECIFIED']


# ------------------------------------------------------------------------------------------- trees

class Node(object):
  def __init__(self, nid, deco):
    self.id, self.deco, self.children, self.parent = nid, deco, [], None     # children: [(site, Node)]

  def nodes(self):
    yield self
    for _, c in self.children:
      for n in c.nodes():
        yield n

  def show(self):
    return '%d:%s[%s]' % (self.id, '/'.join(str(x) for x in self.deco),
                          ', '.join('%s> %s' % ('/'.join(str(x) for x in s), c.show()) for s, c in self.children))


def random_deco(rnd):
  r = rnd.random()
  if r < 0.2:
    return ('plain',)
  if r < 0.5:
    return ('convert', rnd.random() < 0.7, rnd.random() < 0.7)
  if r < 0.6:
    return ('dnc',)
  if r < 0.68:
    # do_not_convert applied to something that is already an AutoGraph artifact (a convert(user_requested=False)
    # wrapper): the region is DISABLED all the same
    return ('dnc_conv', rnd.random() < 0.7)
  if r < 0.8:
    return ('unspec',)
  return ('to_graph', rnd.random() < 0.7)


def random_site(rnd):
  r = rnd.random()
  if r < 0.45:
    return ('none',)
  if r < 0.65:
    return ('ctx', rnd.choice(STATUSES))
  if r < 0.85:
    return ('cc', rnd.choice(STATUSES), rnd.random() < 0.7, rnd.random() < 0.5)
  return ('iconv', rnd.choice(STATUSES), rnd.random() < 0.5, rnd.random() < 0.5)


def random_tree(rnd, max_nodes):
  root = Node(0, ('plain',))
  nodes, n = [root], rnd.randint(2, max_nodes)
  depth = {0: 0}
  while len(nodes) < n + 1:
    cands = [p for p in nodes if len(p.children) < 3 and depth[p.id] < 4]
    p = rnd.choice(cands)
    c = Node(len(nodes), random_deco(rnd))
    c.parent = p
    depth[c.id] = depth[p.id] + 1
    p.children.append((random_site(rnd), c))
    nodes.append(c)
  return root


HEADER = '''import malt
from malt.core import ag_ctx
from malt.core import converter
from malt.impl import api


class Boom(Exception):
  pass

'''


def _site_lines(site, parent, child, ind):
  k, i = child.id, parent.id
  call = 'n%d(env)' % k
  if site[0] == 'none':
    return [ind + call]
  st = 'ag_ctx.Status.%s' % site[1]
  if site[0] == 'cc':
    call = ('api.converted_call(n%d, (env,), None, options=converter.ConversionOptions(recursive=%r, user_requested=%r, optional_features=None))'
            % (k, site[2], site[3]))
  elif site[0] == 'iconv':
    call = ('api.internal_convert(n%d, ag_ctx.control_status_ctx(), convert_by_default=%r, user_requested=%r)(env)'
            % (k, site[2], site[3]))
  return [ind + 'with ag_ctx.ControlStatusCtx(status=%s):' % st,
          ind + '  b2 = ag_ctx.control_status_ctx()',
          ind + '  try:',
          ind + '    ' + call,
          ind + '  finally:',
          ind + '    env.after(%d, %d, "inner", b2, ag_ctx.control_status_ctx())' % (i, k)]


def tree_source(root):
  out = [HEADER]
  for n in root.nodes():
    i = n.id
    out.append('def n%d_impl(env):' % i)
    out.append('  env.probe(%d)' % i)
    out.append('  if env.should_raise(%d, 0):' % i)
    out.append('    raise Boom("n%d")' % i)
    for j, (site, c) in enumerate(n.children):
      out.append('  b = ag_ctx.control_status_ctx()')
      out.append('  try:')
      out += _site_lines(site, n, c, '    ')
      out.append('  except Boom:')
      out.append('    if not env.catches(%d):' % i)
      out.append('      raise')
      out.append('  finally:')
      out.append('    env.after(%d, %d, "outer", b, ag_ctx.control_status_ctx())' % (i, c.id))
      out.append('  env.probe(%d)' % i)
      out.append('  if env.should_raise(%d, %d):' % (i, j + 1))
      out.append('    raise Boom("n%d")' % i)
    out.append('  return %d' % i)
    out.append('')
  for n in root.nodes():
    d, i = n.deco, n.id
    if d[0] == 'plain':
      out.append('n%d = n%d_impl' % (i, i))
    elif d[0] == 'convert':
      out.append('n%d = malt.convert(recursive=%r, user_requested=%r)(n%d_impl)' % (i, d[1], d[2], i))
    elif d[0] == 'dnc':
      out.append('n%d = malt.experimental.do_not_convert(n%d_impl)' % (i, i))
    elif d[0] == 'dnc_conv':
      out.append('n%d = malt.experimental.do_not_convert(malt.convert(recursive=%r, user_requested=False)(n%d_impl))' % (i, d[1], i))
    elif d[0] == 'unspec':
      out.append('n%d = api.call_with_unspecified_conversion_status(n%d_impl)' % (i, i))
    elif d[0] == 'to_graph':
      out.append('n%d = malt.to_graph(n%d_impl, recursive=%r)' % (i, i, d[1]))
  return '\n'.join(out) + '\n'


def all_specs(root):
  """(raise_at, catcher): every (node, position) x every proper ancestor (or None = escapes), plus no raise."""
  specs = [(None, None)]
  for n in root.nodes():
    anc, p = [None], n.parent
    while p is not None:
      anc.append(p.id)
      p = p.parent
    for pos in range(len(n.children) + 1):
      for a in anc:
        specs.append(((n.id, pos), a))
  return specs


# ------------------------------------------------------------------------------------------- reference model

class _SimBoom(Exception):
  pass


class Sim(object):
  """What api.converted_call, the wrappers and FunctionScope do to the status stack, as read from the code."""

  def __init__(self, spec):
    self.spec = spec
    self.stack = ['UNSPECIFIED']
    self.events = []
    self.crossed = 0          # context exits with the exception in flight

  def push(self, s):
    self.stack.append(s)

  def pop(self, raising):
    self.stack.pop()
    if raising:
      self.crossed += 1

  def within(self, status, fn):
    self.push(status)
    ok = False
    try:
      fn()
      ok = True
    finally:
      self.pop(not ok)

  def direct(self, node, wrapper):
    d = node.deco
    if not wrapper or d[0] == 'plain':
      return self.body(node, None)
    if d[0] == 'convert':                   # wrapper: with NullCtx: converted_call(impl, options=(R, U, True))
      return self.cc(node, False, (d[1], d[2], True))
    if d[0] in ('dnc', 'dnc_conv'):         # (the inner convert wrapper sees DISABLED and calls the function as it is)
      return self.within('DISABLED', lambda: self.body(node, None))
    if d[0] == 'unspec':
      return self.within('UNSPECIFIED', lambda: self.body(node, None))
    if d[0] == 'to_graph':                  # already converted, user_requested=True baked in
      return self.body(node, (d[1], True, True))
    raise AssertionError(d)

  def cc(self, node, wrapper, opts):
    """api.converted_call(callable, options=opts) with opts = (recursive, user_requested, internal_convert_user_code)"""
    artifact = wrapper and node.deco[0] != 'plain'
    if self.stack[-1] == 'DISABLED' or artifact or not opts[2]:
      return self.direct(node, wrapper)
    return self.body(node, opts)

  def body(self, node, opts):
    pushed = bool(opts and opts[1])          # FunctionScope: ENABLED iff user_requested
    if pushed:
      self.push('ENABLED')
    mode = None if opts is None else (opts[0], False, opts[0])     # ConversionOptions.call_options()
    ok = False
    try:
      self.probe(node, opts is not None)
      self.maybe_raise(node, 0)
      for j, (site, c) in enumerate(node.children):
        try:
          self.site(site, c, mode)
        except _SimBoom:
          if self.spec[1] != node.id:
            raise
        self.probe(node, opts is not None)
        self.maybe_raise(node, j + 1)
      ok = True
    finally:
      if pushed:
        self.pop(not ok)

  def call_from(self, mode, c):
    if mode is None:
      return self.direct(c, True)
    return self.cc(c, True, mode)

  def site(self, site, c, mode):
    if site[0] == 'none':
      return self.call_from(mode, c)
    s = site[1]
    if site[0] == 'ctx':
      return self.within(s, lambda: self.call_from(mode, c))
    if site[0] == 'cc':
      return self.within(s, lambda: self.cc(c, True, (site[2], site[3], True)))
    if site[0] == 'iconv':
      by_default, u = site[2], site[3]

      def go():
        if c.deco[0] != 'plain':            # internal_convert returns an artifact unchanged
          return self.direct(c, True)
        if s == 'ENABLED' or (s == 'UNSPECIFIED' and by_default):
          return self.within(s, lambda: self.cc(c, False, (True, u, True)))     # `with conversion_ctx:` re-enters ctx
        if s == 'DISABLED':
          return self.within('DISABLED', lambda: self.body(c, None))
        return self.within('UNSPECIFIED', lambda: self.body(c, None))
      return self.within(s, go)
    raise AssertionError(site)

  def probe(self, node, converted):
    self.events.append((node.id, self.stack[-1], converted))

  def maybe_raise(self, node, pos):
    if self.spec[0] == (node.id, pos):
      raise _SimBoom()


def predict(root, spec):
  sim = Sim(spec)
  escaped = False
  try:
    sim.direct(root, True)
  except _SimBoom:
    escaped = True
  assert sim.stack == ['UNSPECIFIED']
  return sim.events, escaped, sim.crossed


# ------------------------------------------------------------------------------------------- run-time recorder

_TLS = threading.local()


class Env(object):
  def __init__(self, decos):
    self.decos = decos
    self.spec = (None, None)
    self.events = []
    self.problems = []

  def begin(self, spec):
    self.spec = spec
    self.events = []

  def _caller(self):
    f = sys._getframe(2)
    while f is not None and f.f_code.co_filename.endswith(os.path.join('impl', 'api.py')):
      f = f.f_back
    return f

  def probe(self, i):
    ctx = ag_ctx.control_status_ctx()
    status = ctx.status.name
    fr = self._caller()
    converted = fr is not None and '__autograph_generated_file' in fr.f_code.co_filename
    self.events.append((i, status, converted))
    d = self.decos[i][0]
    if d in ('dnc', 'dnc_conv') and status != 'DISABLED':
      self.problems.append(dict(kind='status-inside-do-not-convert', sig='dnc:%s' % status,
                                what='probe in the body of do_not_convert-wrapped n%d saw %s' % (i, status)))
    if d == 'unspec' and status != 'UNSPECIFIED':
      self.problems.append(dict(kind='status-inside-unspecified-wrapper', sig='unspec:%s' % status,
                                what='probe in the body of call_with_unspecified_conversion_status-wrapped n%d saw %s' % (i, status)))
    if converted:
      scopes = [v for v in fr.f_locals.values() if isinstance(v, function_wrappers.FunctionScope)]
      if any(s.options.user_requested for s in scopes) and status != 'ENABLED':
        self.problems.append(dict(kind='status-inside-user-requested', sig='%s:%s' % (d, status),
                                  what='probe in the converted body of user-requested n%d (%s) saw %s' % (i, '/'.join(map(str, self.decos[i])), status)))

  def should_raise(self, i, pos):
    return self.spec[0] == (i, pos)

  def catches(self, i):
    return self.spec[1] == i

  def after(self, i, k, where, before, after):
    if before is not after:
      raising = sys.exc_info()[0] is not None
      self.problems.append(dict(kind='identity-not-restored',
                                sig='%s:%s:%s' % (where, self.decos[k][0], 'raised' if raising else 'returned'),
                                what='control_status_ctx() before the call n%d -> n%d (%s site) was %r@%x, after it (%s) %r@%x'
                                % (i, k, where, before, id(before), 'the call raised' if raising else 'it returned', after, id(after))))


for _m in ('probe', 'should_raise', 'catches', 'after'):
  api.autograph_artifact(getattr(Env, _m))        # called as-is from converted code, no context push


_orig_exit = ag_ctx.ControlStatusCtx.__exit__
_orig_fall_back = api._fall_back_unconverted
_FALLBACKS = []


def _counting_exit(self, exc_type, exc_val, exc_tb):
  if exc_type is not None:
    _TLS.crossed = getattr(_TLS, 'crossed', 0) + 1
  return _orig_exit(self, exc_type, exc_val, exc_tb)


def _fall_back(f, args, kwargs, options, exc):
  _FALLBACKS.append('%s: %s: %s' % (getattr(f, '__name__', f), type(exc).__name__, str(exc)[:200]))
  return _orig_fall_back(f, args, kwargs, options, exc)


def install():
  ag_ctx.ControlStatusCtx.__exit__ = _counting_exit
  api._fall_back_unconverted = _fall_back


# ------------------------------------------------------------------------------------------- one case

def worker(mod, root, decos, specs, barrier, out, idx):
  """One thread: its own recorder, its own specs; never looks at another thread's state."""
  res = dict(runs=0, nontrivial=[], problems=[], default=None)
  out[idx] = res
  env = Env(decos)
  try:
    first = ag_ctx.control_status_ctx()
    res['default'] = first
    if first.status is not ag_ctx.Status.UNSPECIFIED:
      res['problems'].append(dict(kind='thread-interference', sig='fresh-thread-default',
                                  what='a fresh thread started with status %s' % first.status.name))
    barrier.wait()
    for spec in specs:
      env.begin(spec)
      env.problems = []
      _TLS.crossed = 0
      before = ag_ctx.control_status_ctx()
      escaped, err = False, None
      try:
        mod.n0(env)
      except mod.Boom:
        escaped = True
      except BaseException as e:
        err = e
      after = ag_ctx.control_status_ctx()
      res['runs'] += 1
      want, want_escaped, _ = predict(root, spec)
      probs = list(env.problems)
      if err is not None:
        probs.insert(0, dict(kind='unexpected-exception', sig=type(err).__name__,
                             what='%s: %s' % (type(err).__name__, ''.join(traceback.format_exception_only(type(err), err)).strip()[:300])))
      if after is not before or after is not first:
        probs.append(dict(kind='identity-not-restored', sig='whole-run:%s' % ('raised' if escaped or err else 'returned'),
                          what='control_status_ctx() of the thread before the run was %r@%x, after it %r@%x (thread default %r@%x)'
                          % (before, id(before), after, id(after), first, id(first))))
      if err is None and (env.events != want or escaped != want_escaped):
        n = 0
        while n < min(len(want), len(env.events)) and want[n] == env.events[n]:
          n += 1
        probs.append(dict(kind='status-model-mismatch',
                          sig='%s' % (('n-deco:%s' % decos[want[n][0]][0]) if n < len(want) else 'length'),
                          what='probe #%d: predicted (node, status, converted)=%r, observed %r; escaped predicted %r observed %r'
                          % (n, want[n] if n < len(want) else None, env.events[n] if n < len(env.events) else None,
                             want_escaped, escaped)))
      if _TLS.crossed and spec[0] is not None:
        res['nontrivial'].append(spec)
      for p in probs:
        p['spec'] = dict(raise_at=spec[0], caught_by=spec[1])
      res['problems'] += probs
      if probs:
        break                     # the stack of this thread may be unbalanced from here on
  except BaseException as e:      # harness trouble must not hang the barrier silently
    res['problems'].append(dict(kind='harness-error', sig=type(e).__name__, what=traceback.format_exc()[-400:]))
    try:
      barrier.abort()
    except Exception:
      pass


def observer(barrier, stop, out, idx):
  res = dict(observations=0, problems=[], default=None)
  out[idx] = res
  try:
    first = ag_ctx.control_status_ctx()
    res['default'] = first
    barrier.wait()
    while True:
      c = ag_ctx.control_status_ctx()
      res['observations'] += 1
      if c is not first or c.status is not ag_ctx.Status.UNSPECIFIED:
        res['problems'].append(dict(kind='thread-interference', sig='idle-thread-sees-foreign-context',
                                    what='a thread that never entered a context saw %r (its default is %r)' % (c, first)))
        break
      if stop.is_set():
        break
  except threading.BrokenBarrierError:
    pass


def check_tree(item):
  idx, seed, nthreads, max_nodes, per_thread, warm = item
  rnd = random.Random(seed)
  root = random_tree(rnd, max_nodes)
  src = tree_source(root)
  name = 'vp_c16_%d_%d' % (os.getpid(), idx)
  res = dict(idx=idx, runs=0, nontrivial=[], failure=None, threads=nthreads, observations=0,
             tree=root.show(), key=hashlib.sha1(src.encode()).hexdigest()[:12])
  del _FALLBACKS[:]
  main_before = ag_ctx.control_status_ctx()
  try:
    mod = harness.load_source(src, name)
  except Exception as e:
    res['failure'] = dict(kind='harness-error', sig='load:%s' % type(e).__name__, what=traceback.format_exc()[-400:], program=src)
    return res
  old_interval = sys.getswitchinterval()
  try:
    decos = {n.id: n.deco for n in root.nodes()}
    specs = all_specs(root)
    if warm:                        # convert everything once, single-threaded, before the concurrent phase
      out = {}
      b = threading.Barrier(1)
      t = threading.Thread(target=worker, args=(mod, root, decos, [(None, None)], b, out, 0))
      t.start()
      t.join()
      res['runs'] += out[0]['runs']
      if out[0]['problems']:
        res['failure'] = dict(out[0]['problems'][0], threads=1, phase='warm-up')
    if res['failure'] is None:
      sys.setswitchinterval(rnd.choice([1e-6, 1e-5, 1e-4, 1e-3, 5e-3]))
      nobs = 1 if nthreads < 8 else 2
      barrier = threading.Barrier(nthreads + nobs)
      stop = threading.Event()
      out, threads = {}, []
      for t in range(nthreads):
        mine = list(specs)
        rnd.shuffle(mine)
        mine = mine[:per_thread]
        threads.append(threading.Thread(target=worker, args=(mod, root, decos, mine, barrier, out, t)))
      obs = [threading.Thread(target=observer, args=(barrier, stop, out, nthreads + o)) for o in range(nobs)]
      for t in threads + obs:
        t.start()
      for t in threads:
        t.join()
      stop.set()
      for t in obs:
        t.join()
      defaults = [out[t]['default'] for t in out if out[t].get('default') is not None]
      for t in range(nthreads):
        res['runs'] += out[t]['runs']
        res['nontrivial'] += [(res['key'], s) for s in out[t]['nontrivial']]
      for t in sorted(out):
        if 'observations' in out[t]:
          res['observations'] += out[t]['observations']
      probs = [dict(p, thread=t) for t in sorted(out) for p in out[t]['problems']]
      if len(set(id(d) for d in defaults)) != len(defaults) or any(d is main_before for d in defaults):
        probs.append(dict(kind='thread-interference', sig='shared-default-object',
                          what='%d live threads have only %d distinct default contexts'
                          % (len(defaults) + 1, len(set(id(d) for d in defaults + [main_before])))))
      # direct oracles first, then the model, then consequences
      order = ['identity-not-restored', 'status-inside-do-not-convert', 'status-inside-user-requested',
               'status-inside-unspecified-wrapper', 'thread-interference', 'unexpected-exception', 'status-model-mismatch']
      probs.sort(key=lambda p: order.index(p['kind']) if p['kind'] in order else 99)
      if probs:
        res['failure'] = dict(probs[0], threads=nthreads, all_kinds=sorted(set(p['kind'] for p in probs)))
    main_after = ag_ctx.control_status_ctx()
    if res['failure'] is None and (main_after is not main_before or main_after.status is not ag_ctx.Status.UNSPECIFIED):
      res['failure'] = dict(kind='thread-interference', sig='main-thread-default-changed',
                            what='the main thread (never enters a context) saw %r before and %r after the case' % (main_before, main_after))
    if res['failure'] is None and _FALLBACKS:
      res['failure'] = dict(kind='unexpected-fallback', sig=_FALLBACKS[0].split(':')[1].strip(),
                            what='conversion of a node failed and fell back to unconverted: %s' % _FALLBACKS[0])
    if res['failure'] is not None:
      res['failure'].update(program=src, tree=res['tree'], seed=seed, warm=warm, item=[0, seed, nthreads, max_nodes, per_thread, warm],
                            replay='c16_status_trees.check_tree((0, %d, %d, %d, %d, %r)) rebuilds and runs this tree'
                            % (seed, nthreads, max_nodes, per_thread, warm))
  finally:
    sys.setswitchinterval(old_interval)
    harness.unload(name)
  return res


def main():
  ap = argparse.ArgumentParser()
  ap.add_argument('seed', type=int)
  ap.add_argument('tier')
  ap.add_argument('--trees', type=int, default=None)
  ap.add_argument('--maxfail', type=int, default=10)
  a = ap.parse_args()
  thorough = a.tier == 'thorough'
  ntrees = a.trees if a.trees is not None else (8000 if thorough else 800)
  install()
  scratch = harness.scratch_dir()        # created before the fork: one directory for all workers, removed below
  items = []
  for i in range(ntrees):
    nthreads = 1 + (i % 16)
    items.append((i, a.seed * 1000003 + i, nthreads, 3 + (i % 5), 24 if thorough else 10, i % 2 == 0))
  runs = trees = observations = 0
  nontrivial, failures, keys, samples = set(), [], set(), []
  by_threads = {}
  nfail = 0
  for r in harness.pool_map(check_tree, items, chunksize=2):
    trees += 1
    runs += r['runs']
    observations += r['observations']
    by_threads[r['threads']] = by_threads.get(r['threads'], 0) + r['runs']
    nontrivial.update((k, repr(s)) for k, s in r['nontrivial'])
    if len(samples) < 2 and r['nontrivial'] and len(r['tree']) < 260:
      samples.append(dict(tree=r['tree'], threads=r['threads'], a_run=repr(r['nontrivial'][0][1])))
    if r['failure']:
      nfail += 1
      f = r['failure']
      key = (f['kind'], f['sig'])
      if key not in keys and len(failures) < a.maxfail:
        keys.add(key)
        failures.append(f)
      elif key in keys:             # keep the smallest witness per key
        for n, g in enumerate(failures):
          if (g['kind'], g['sig']) == key and len(f['program']) < len(g['program']):
            failures[n] = f
  # A failure is reported only if it shows again when the same tree is re-run (same seed, same thread count):
  # every tree is a deterministic program per thread, so a defect of the stack discipline reproduces, while a
  # one-off disturbance of the harness (16 threads importing / converting on a loaded machine) does not.  What
  # could not be reproduced is NOT a violation; it is counted in the evidence (`anomalies_not_reproduced`).
  confirmed, anomalies = [], []
  for f in failures:
    again = 0
    for _ in range(6):
      r2 = check_tree(tuple(f['item']))
      if r2['failure'] and r2['failure']['kind'] == f['kind']:
        again += 1
        break
    if again:
      confirmed.append(f)
    else:
      anomalies.append(dict(kind=f['kind'], sig=f['sig'], what=f['what'][:300], tree=f.get('tree'), item=f['item']))
  failures = confirmed
  shutil.rmtree(scratch, ignore_errors=True)
  tm = os.times()
  harness.emit(dict(
      evaluated=runs, trees=trees, distinct_nontrivial=len(nontrivial), failing_trees=nfail,
      anomalies_not_reproduced=anomalies,
      idle_thread_observations=observations, runs_by_thread_count={str(k): by_threads[k] for k in sorted(by_threads)},
      cpu_seconds=round(tm[0] + tm[2], 1),
      rule=('random call trees of 2..7 nodes (plain / convert(R,U) / do_not_convert / call_with_unspecified / to_graph) '
            'x call sites (direct / ControlStatusCtx(S) / converted_call under S / internal_convert under S), written to '
            'real files; each tree run by 1..16 threads + 1-2 idle observer threads, every thread running up to %d '
            '(raise at node+position, catching ancestor) choices out of all of them; evaluated = runs (thread x choice); '
            'non-trivial = distinct (tree, choice) where the exception crossed at least one ControlStatusCtx.__exit__ '
            '(measured by a counting wrapper)' % (24 if thorough else 10)),
      samples=samples, failures=failures))


if __name__ == '__main__':
  main()
