"""Run-time evaluation of the reaching_fndefs contracts (Analyzer.visit_node and the _NodeState value type) on
small concrete inputs: real Analyzer, stub CFG nodes, random states (replay hook / bounded stand-in)."""
import ast
import json
import random
import sys

from malt.pyct import cfg
from malt.pyct.static_analysis import reaching_fndefs as rf


def one(rnd):
  n = rnd.randint(1, 3)
  defs = [ast.FunctionDef(name='f%d' % i, args=None, body=[], decorator_list=[]) for i in range(3)] + [ast.Lambda(args=None, body=None)]
  asts = []
  for i in range(n):
    r = rnd.random()
    # (names collide on purpose, among the nodes and with the pool: a later def of the same name must not
    #  remove an earlier function object from what reaches)
    asts.append(ast.Expr(ast.Constant(0)) if r < 0.4 else ast.FunctionDef(name='f%d' % rnd.randrange(3), args=None, body=[], decorator_list=[])
                if r < 0.8 else ast.Lambda(args=None, body=None))
  nodes = [cfg.Node(set(), set(), a) for a in asts]
  for a in range(n):
    for b in range(n):
      if rnd.random() < 0.4:
        nodes[a].next.add(nodes[b])
        nodes[b].prev.add(nodes[a])
  g = cfg.Graph(entry=nodes[0], exit=frozenset([nodes[-1]]), error=frozenset(),
                index={nd.ast_node: nd for nd in nodes}, stmt_prev={}, stmt_next={})
  ext = set(d for d in defs if rnd.random() < 0.4)
  an = rf.Analyzer(g, ext)
  pool = defs + asts

  def rs():
    return rf._NodeState(set(d for d in pool if rnd.random() < 0.35))
  for nd in nodes:
    an.in_[nd], an.out[nd] = rs(), rs()
  node = nodes[rnd.randrange(n)]
  old_out = {nd: set(an.out[nd].value) for nd in nodes}
  old_obj = {nd: an.out[nd] for nd in nodes}
  res = an.visit_node(node)
  lower = set()
  for p in node.prev:
    lower |= old_out[p]
  if node is g.entry:
    lower |= ext
  got_in, got_out = set(an.in_[node].value), set(an.out[node].value)
  if not lower <= got_in:
    return 'in-lower', 'in_[node] misses definitions that leave a predecessor / the external definitions at the entry'
  if not got_in <= lower | old_out[node]:
    return 'in-upper', 'in_[node] contains a definition that neither a predecessor, the entry nor the previous visit supplied'
  want_out = got_in | ({node.ast_node} if isinstance(node.ast_node, (ast.Lambda, ast.FunctionDef)) else set())
  if got_out != want_out:
    return 'out', 'out[node] != in_[node] (+ the definition made by the node itself)'
  if bool(res) != (got_out != old_out[node]):
    return 'revisit', 'visit_node returned %r but the out state %s' % (res, 'changed' if got_out != old_out[node] else 'did not change')
  for nd in nodes:
    if nd is not node and (an.out[nd] is not old_obj[nd] or set(an.out[nd].value) != old_out[nd]):
      return 'frame', 'the state of another node was touched'
  a, b = rs(), rs()
  va, vb = set(a.value), set(b.value)
  u = a | b
  if set(u.value) != va | vb or u is a or u.value is a.value or set(a.value) != va or set(b.value) != vb:
    return 'nodestate-or', '_NodeState.__or__ is not the union into a new state'
  x = rnd.choice(pool)
  s = a + x
  if set(s.value) != va | {x} or s is a or set(a.value) != va:
    return 'nodestate-add', '_NodeState.__add__ must add exactly one element, into a new state'
  if (a == b) != (va == vb) or (a != b) != (va != vb):
    return 'nodestate-eq', '_NodeState equality is not equality of contents'
  return None


def main():
  seed = int(sys.argv[1]) if len(sys.argv) > 1 else 0
  tier = sys.argv[2] if len(sys.argv) > 2 else 'quick'
  n = 4000 if tier == 'quick' else 80000
  rnd = random.Random(seed)
  failures, i = [], 0
  for i in range(n):
    try:
      r = one(rnd)
    except Exception as e:
      r = ('raised', '%s: %s' % (type(e).__name__, e))
    if r:
      failures.append(dict(kind='contract', sig=r[0], what=r[1], case=i, seed=seed))
      if len(failures) >= 3:
        break
  print(json.dumps(dict(evaluated=i + 1, distinct_nontrivial=i + 1, failures=failures,
                        rule='bounded: random graphs of <= 3 stub nodes (expression / def / lambda statements), random external '
                             'definitions and in/out states over 7 definitions, one visit_node call; every case also evaluates the '
                             '_NodeState |, +, ==, != contracts',
                        samples=['3 nodes; node 0 is the entry and a def; external = {f1}'])))


main()
