"""C14 bounded stand-in: the builtin overloads of `malt.operators.py_builtins` behave like the builtins on ordinary
Python values, and the context-sensitive builtins keep referring to the calling user function's frame and class.

usage: c14_builtins.py <seed> <tier> [--only abs,int,...] [--no-values] [--no-frames] [--serial] [--maxfail N]

Clause 1 (values).  For each of abs, all, any, enumerate, filter, float, int, len, map, print, range, sorted, zip: the
table of call shapes Python accepts (derived from inspect.signature where CPython provides one, hand-stated for
int / range / filter / map / zip; every optional parameter present / absent, positionally / by its documented keyword) x
value pools per parameter (ints, floats, bools, strings, bytes, lists, tuples, dicts, sets, iterators, generators, user
objects implementing the relevant dunder methods, and values the builtin rejects).  For every case the builtin, the
overload `py_builtins.overload_of(b)` and the call wrapper `api.converted_call(b, args, kwargs)` are run on fresh,
equal arguments and must agree on: the result (type and value; lazy results are consumed step by step and after
every step the number of items pulled from every source iterator must agree, so laziness is part of the comparison),
captured stdout / `file=` output, the sequence of dunder calls on user objects, and the exception type and the step at
which it is raised.  Shapes whose product of pools exceeds the cap are covered one-factor-at-a-time + a seeded sample.
`print_(..., foo=1)` (ValueError instead of TypeError) is a call-shape error and is not generated.
The recorded defect D9 (`enumerate(iterable=...)`) is kept out of the default space and replayed as a witness.

Clause 2 (frames).  Generated functions / methods / class methods call eval (1, 2 and 3 arguments), locals, globals
(read, identity, write) and zero-argument super inside every nest of if / while / for bodies of depth 0..3 (the call
sits in the innermost body and, for `if`, also in its else branch); each is converted with malt.to_graph with
BUILTIN_FUNCTIONS off and on and compared with the original on several inputs.  Two genuine defects found by the
unrestricted space are replayed as witnesses and excluded from the default space by construction (see WITNESSES):
inside a functionalised body eval / locals see only the variables that body's text mentions.
"""
import argparse
import contextlib
import fractions
import decimal
import hashlib
import inspect
import io
import itertools
import os
import random
import shutil
import sys
import time
import traceback
import warnings

sys.path.insert(0, os.path.dirname(os.path.abspath(__file__)))
import harness

import malt
from malt.impl import api
from malt.core import converter
from malt.operators import py_builtins

BUILTINS = [abs, all, any, enumerate, filter, float, int, len, map, print, range, sorted, zip]

# ----------------------------------------------------------------------------------------------- observable values

LOG = []        # dunder calls on user objects, in order
PROBES = []     # counting sources created for the current run


class Src(object):
  """An iterator over fixed items that counts how many items were pulled from it."""

  def __init__(self, items, fail_at=None):
    self.items = list(items)
    self.pulled = 0
    self.fail_at = fail_at
    PROBES.append(self)

  def __iter__(self):
    return self

  def __next__(self):
    if self.fail_at is not None and self.pulled == self.fail_at:
      self.pulled += 1
      raise RuntimeError('source failed')
    if self.pulled >= len(self.items):
      raise StopIteration
    v = self.items[self.pulled]
    self.pulled += 1
    return v


def gen_over(items):
  src = Src(items)
  return (x for x in src)


class UIter(object):
  def __init__(self, items):
    self.items = items

  def __iter__(self):
    LOG.append('UIter.__iter__')
    return Src(self.items)


class UGetItem(object):
  def __init__(self, items):
    self.items = items

  def __getitem__(self, i):
    LOG.append('UGetItem[%r]' % (i,))
    return self.items[i]


class UBadIter(object):
  def __iter__(self):
    LOG.append('UBadIter.__iter__')
    return 5


class URaisingIter(object):
  def __iter__(self):
    LOG.append('URaisingIter.__iter__')
    raise RuntimeError('no iteration')


class UDunder(object):
  """Implements exactly one numeric / size dunder, returning (or raising) a fixed value."""

  def __init__(self, name, value):
    self.name, self.value = name, value

  def _do(self):
    LOG.append(self.name)
    if isinstance(self.value, BaseException):
      raise self.value
    return self.value

  def __repr__(self):
    return 'UDunder(%s=%r)' % (self.name, self.value)


def dunder(name, value):
  cls = type('U' + name.strip('_'), (UDunder,), {name: lambda self: self._do()})
  return cls(name, value)


class UBool(object):
  def __init__(self, tag, value):
    self.tag, self.value = tag, value

  def __bool__(self):
    LOG.append('UBool(%s).__bool__' % self.tag)
    if isinstance(self.value, BaseException):
      raise self.value
    return self.value

  def __repr__(self):
    return 'UBool(%s)' % self.tag


class UOrd(object):
  def __init__(self, k):
    self.k = k

  def __lt__(self, other):
    LOG.append('UOrd(%r)<UOrd(%r)' % (self.k, getattr(other, 'k', other)))
    return self.k < other.k

  def __repr__(self):
    return 'UOrd(%r)' % self.k


class UStr(object):
  def __init__(self, s):
    self.s = s

  def __str__(self):
    LOG.append('UStr.__str__')
    if isinstance(self.s, BaseException):
      raise self.s
    return self.s


class UWriter(object):
  def __init__(self, has_flush=True):
    if has_flush:
      self.flush = self._flush

  def write(self, s):
    LOG.append('write(%r)' % (s,))

  def _flush(self):
    LOG.append('flush()')


class UNoWrite(object):
  pass


class Recorded(object):
  """A callable that records its calls; optionally raises at the n-th call."""

  def __init__(self, fn, tag, fail_at=None):
    self.fn, self.tag, self.fail_at, self.n = fn, tag, fail_at, 0

  def __call__(self, *a):
    LOG.append('%s%r' % (self.tag, tuple(norm(x) for x in a)))
    self.n += 1
    if self.fail_at == self.n:
      raise KeyError('callback failed')
    return self.fn(*a)


def closed_file():
  f = io.StringIO()
  f.close()
  return f


def norm(v, depth=0):
  if depth > 5:
    return '...'
  if isinstance(v, float):
    return ('float', repr(v))
  if isinstance(v, (list, tuple)):
    return (type(v).__name__, tuple(norm(x, depth + 1) for x in v))
  if isinstance(v, (set, frozenset)):
    return (type(v).__name__, tuple(sorted(repr(norm(x, depth + 1)) for x in v)))
  if isinstance(v, dict):
    return ('dict', tuple((norm(k, depth + 1), norm(x, depth + 1)) for k, x in v.items()))
  if isinstance(v, io.StringIO):
    return ('StringIO', 'closed' if v.closed else v.getvalue())
  if isinstance(v, (UOrd, UBool, UDunder)):
    return (type(v).__name__, repr(v))
  r = repr(v)
  if ' at 0x' in r:
    r = '<%s>' % type(v).__name__
  return (type(v).__name__, r)


LAZY = (enumerate, filter, map, zip)
MAXSTEPS = 12


def counts():
  return tuple(p.pulled for p in PROBES)


def observe(call, args, kwargs):
  """Everything observable about one call: result / steps / exception, output, dunder log, argument state."""
  tr = []
  out = io.StringIO()
  with warnings.catch_warnings():
    warnings.simplefilter('ignore')
    with contextlib.redirect_stdout(out):
      try:
        r = call(*args, **kwargs)
      except Exception as e:      # pylint:disable=broad-except
        tr.append(('raise@call', type(e).__name__, counts()))
        r = observe
      if r is observe:
        pass
      elif isinstance(r, LAZY):
        tr.append(('lazy', type(r).__name__, counts()))
        for _ in range(MAXSTEPS):
          try:
            v = next(r)
            tr.append(('item', norm(v), counts()))
          except StopIteration:
            tr.append(('stop', counts()))
            break
          except Exception as e:      # pylint:disable=broad-except
            tr.append(('raise@next', type(e).__name__, counts()))
            break
      elif isinstance(r, range):
        tr.append(('range', (norm(r.start), norm(r.stop), norm(r.step)), bool(r), tuple(itertools.islice(r, 8))))
      else:
        tr.append(('value', norm(r), counts()))
  return dict(trace=tr, out=out.getvalue(), log=list(LOG), args=norm((args, kwargs)))


# ----------------------------------------------------------------------------------------------- value pools

V = lambda label, fn: (label, fn)
C = lambda v: (repr(v), (lambda: v))        # immutable constant


def ITERABLES(kind):
  """kind: 'bool' (elements judged for truth), 'any' (plain), 'sort' (orderable), 'num' (numbers for map/pow)."""
  base = [
      V('[]', lambda: []), V('[0, 1, 2]', lambda: [0, 1, 2]), V('(3, 1, 2)', lambda: (3, 1, 2)), C('bca'), C(''),
      V('{2: 0, 1: 0}', lambda: {2: 0, 1: 0}), V('{2, 1}', lambda: {2, 1}), V('iter([1, 0, 3])', lambda: iter([1, 0, 3])),
      V('Src([1, 0, 3, 4])', lambda: Src([1, 0, 3, 4])), V('gen_over([2, 0, 1])', lambda: gen_over([2, 0, 1])),
      V('UIter([0, 2])', lambda: UIter([0, 2])), V('UGetItem([1, 2])', lambda: UGetItem([1, 2])),
      V('range(3)', lambda: range(3)), C(b'ab'),
      V('Src([1, 2, 3], fail_at=1)', lambda: Src([1, 2, 3], fail_at=1)),
      # rejected
      C(5), C(None), C(2.5), V('UBadIter()', UBadIter), V('URaisingIter()', URaisingIter),
  ]
  if kind == 'bool':
    base += [V('[UBool(a,1), UBool(b,0), UBool(c,1)]', lambda: [UBool('a', True), UBool('b', False), UBool('c', True)]),
             V('[UBool(a,0), UBool(b,raise)]', lambda: [UBool('a', False), UBool('b', ValueError('no truth'))]),
             V('[UBool(a,1), UBool(b,raise)]', lambda: [UBool('a', True), UBool('b', ValueError('no truth'))]),
             V('Src([0, 0, 1, 0])', lambda: Src([0, 0, 1, 0]))]
  if kind == 'sort':
    base += [V("[1, 'a']", lambda: [1, 'a']), V('[UOrd(2), UOrd(1), UOrd(3)]', lambda: [UOrd(2), UOrd(1), UOrd(3)]),
             V('[[2], [1, 1], []]', lambda: [[2], [1, 1], []]), V('[2.0, nan, 1.0]', lambda: [2.0, float('nan'), 1.0]),
             V('[-3, 1, -2]', lambda: [-3, 1, -2]), V('[True, 0, 2]', lambda: [True, 0, 2])]
  return base


P = {}
P['abs'] = [C(-3), C(2.5), C(-0.0), C(True), C(complex(3, 4)), C(fractions.Fraction(-1, 3)), C(decimal.Decimal('-1.5')),
            C(float('nan')), C(float('-inf')), C(-10 ** 30),
            V('U__abs__(7)', lambda: dunder('__abs__', 7)), V('U__abs__(raise)', lambda: dunder('__abs__', ValueError('x'))),
            C('str'), C(None), V('[1]', lambda: [1]), V('object()', object)]
P['boolit'] = ITERABLES('bool')
P['iter'] = ITERABLES('any')
P['sortit'] = ITERABLES('sort')
P['start'] = [C(0), C(1), C(-5), C(True), C(10 ** 30), V('U__index__(4)', lambda: dunder('__index__', 4)),
              C(1.5), C('a'), C(None)]
P['float'] = [C(3), C(-2.5), C(True), C('1.5'), C(' 12 '), C('nan'), C('-inf'), C('1e400'), C('1_000.5'), C('abc'), C(''),
              C(b'2.5'), V("bytearray(b'7')", lambda: bytearray(b'7')), C(10 ** 400),
              V('U__float__(1.25)', lambda: dunder('__float__', 1.25)), V('U__index__(4)', lambda: dunder('__index__', 4)),
              V("U__float__('s')", lambda: dunder('__float__', 's')), V('U__float__(raise)', lambda: dunder('__float__', KeyError('k'))),
              V('object()', object), C(None), V('[1]', lambda: [1]), C(complex(1, 0))]
P['intx'] = [C(3), C(-2.5), C(True), C('12'), C(' -7 '), C('0x1f'), C('abc'), C(''), C(b'12'), C(1e30), C(float('nan')),
             C(float('inf')), C('1_0'), C(u'١٢'),
             V('U__int__(9)', lambda: dunder('__int__', 9)), V('U__index__(4)', lambda: dunder('__index__', 4)),
             V('U__trunc__(6)', lambda: dunder('__trunc__', 6)), V("U__int__('s')", lambda: dunder('__int__', 's')),
             V('U__int__(raise)', lambda: dunder('__int__', KeyError('k'))), V('object()', object), C(None),
             V('[1]', lambda: [1]), C(fractions.Fraction(7, 2)), C(decimal.Decimal('8.9'))]
P['intstr'] = [C('12'), C('ff'), C('0x1f'), C('0b101'), C('101'), C(' z '), C(b'7f'), V("bytearray(b'10')", lambda: bytearray(b'10')),
               C('0o17'), C('-0'), C('abc'), C(''), C(12), C(1.5), C(None)]
P['base'] = [C(0), C(16), C(2), C(8), C(10), C(36), C(1), C(37), C(-1), C(True), V('U__index__(16)', lambda: dunder('__index__', 16)),
             C(2.0), C('10'), C(None), C(10 ** 20)]
P['len'] = [V('[1, 2]', lambda: [1, 2]), C(()), C('abc'), C(' a b '), C(''), C(u'\u00e9\U0001F600'), V('{1: 2}', lambda: {1: 2}), V('{1, 2}', lambda: {1, 2}),
            V('range(5)', lambda: range(5)), C(b'ab'), V('range(10**12)', lambda: range(10 ** 12)),
            V('U__len__(3)', lambda: dunder('__len__', 3)), V('U__len__(-1)', lambda: dunder('__len__', -1)),
            V("U__len__('x')", lambda: dunder('__len__', 'x')), V('U__len__(True)', lambda: dunder('__len__', True)),
            V('U__len__(2**70)', lambda: dunder('__len__', 2 ** 70)), V('U__len__(raise)', lambda: dunder('__len__', KeyError('k'))),
            V('U__len__(2.0)', lambda: dunder('__len__', 2.0)),
            C(5), C(None), V('iter([1])', lambda: iter([1])), V('gen_over([1])', lambda: gen_over([1])), V('object()', object)]
P['rng'] = [C(0), C(5), C(-3), C(True), C(10 ** 20), V('U__index__(3)', lambda: dunder('__index__', 3)), C(2.5), C('3'), C(None)]
P['step'] = [C(1), C(2), C(-1), C(0), C(True), C(-10 ** 20), V('U__index__(2)', lambda: dunder('__index__', 2)), C(1.0), C(None)]
P['key'] = [C(None), V('abs', lambda: abs), V('len', lambda: len), V('Recorded(neg)', lambda: Recorded(lambda x: -x, 'neg')),
            V('Recorded(str)', lambda: Recorded(str, 'str')), V('Recorded(neg, fail_at=2)', lambda: Recorded(lambda x: -x, 'neg', 2)),
            C(5), C('len')]
P['reverse'] = [C(True), C(False), C(0), C(1), C(2), C(None), C('x'), C(2.0),
                V('U__index__(1)', lambda: dunder('__index__', 1)), V('UBool(r,1)', lambda: UBool('r', True))]
P['pred'] = [C(None), V('bool', lambda: bool), V('Recorded(pos)', lambda: Recorded(lambda x: x > 0, 'pos')),
             V('Recorded(pos, fail_at=2)', lambda: Recorded(lambda x: x > 0, 'pos', 2)), C(5),
             V('Recorded(ubool)', lambda: Recorded(lambda x: UBool('p', bool(x)), 'ub'))]
P['mapfn'] = [V('Recorded(tuple)', lambda: Recorded(lambda *a: a, 'f')), V('Recorded(len)', lambda: Recorded(lambda *a: len(a), 'g')),
              V('Recorded(tuple, fail_at=2)', lambda: Recorded(lambda *a: a, 'f', 2)), V('str', lambda: str), V('pow', lambda: pow),
              C(None), C(5)]
P['strict'] = [C(True), C(False), C(0), C(1), C(None), C('x'), V('UBool(s,1)', lambda: UBool('s', True)),
               V('UBool(s,raise)', lambda: UBool('s', ValueError('no truth')))]
P['printobj'] = [C(1), C('a'), C(2.5), C(None), V("[1, 'b']", lambda: [1, 'b']), V("UStr('u')", lambda: UStr('u')),
                 V('UStr(raise)', lambda: UStr(ValueError('no str'))), V('UStr(5)', lambda: UStr(5))]
P['sep'] = [C(None), C(''), C('-'), C(', '), C(5), C(b'x')]
P['end'] = [C(None), C(''), C('!\n'), C(5)]
P['file'] = [C(None), V('StringIO()', io.StringIO), V('UWriter()', UWriter), V('UWriter(no flush)', lambda: UWriter(False)),
             V('UNoWrite()', UNoWrite), V('closed StringIO', closed_file), C(5)]
P['flush'] = [C(False), C(True), C(0), C(1), C(None), C('x'), V('UBool(f,raise)', lambda: UBool('f', ValueError('no truth')))]

ROLE = {
    ('abs', 'x'): 'abs', ('all', 'iterable'): 'boolit', ('any', 'iterable'): 'boolit',
    ('enumerate', 'iterable'): 'iter', ('enumerate', 'start'): 'start', ('float', 'x'): 'float', ('len', 'obj'): 'len',
    ('print', 'args'): 'printobj', ('print', 'sep'): 'sep', ('print', 'end'): 'end', ('print', 'file'): 'file',
    ('print', 'flush'): 'flush', ('sorted', 'iterable'): 'sortit', ('sorted', 'key'): 'key', ('sorted', 'reverse'): 'reverse',
}

# hand-stated shapes: (positional roles, {keyword: role})
HAND = {
    # int(base=b) without x is rejected by the builtin for every value ("missing string argument"): not a call shape
    'int': [([], {}), (['intx'], {}), (['intstr', 'base'], {}), (['intstr'], {'base': 'base'})],
    'range': [(['rng'], {}), (['rng', 'rng'], {}), (['rng', 'rng', 'step'], {})],
    'filter': [(['pred', 'iter'], {})],
    'map': [(['mapfn', 'iter'], {}), (['mapfn', 'iter', 'iter'], {}), (['mapfn', 'iter', 'iter', 'iter'], {})],
    'zip': [(['iter'] * n, kw) for n in range(0, 4) for kw in ({}, {'strict': 'strict'})],
}


def shapes_from_signature(b, max_var=3):
  """Every call shape the signature accepts: optional parameters present / absent, positional / keyword."""
  params = list(inspect.signature(b).parameters.values())
  out = []

  def role(p):
    return ROLE[(b.__name__, p.name)]

  def go(i, pos, kw, positional_open):
    if i == len(params):
      out.append((list(pos), dict(kw)))
      return
    p = params[i]
    optional = p.default is not inspect.Parameter.empty
    if p.kind == p.POSITIONAL_ONLY:
      if positional_open:
        go(i + 1, pos + [role(p)], kw, True)
      if optional:
        go(i + 1, pos, kw, False)
    elif p.kind == p.POSITIONAL_OR_KEYWORD:
      if positional_open:
        go(i + 1, pos + [role(p)], kw, True)
      go(i + 1, pos, dict(kw, **{p.name: role(p)}), False)
      if optional:
        go(i + 1, pos, kw, False)
    elif p.kind == p.VAR_POSITIONAL:
      for n in range(0, max_var + 1):
        if n == 0 or positional_open:
          go(i + 1, pos + [role(p)] * n, kw, False)
    elif p.kind == p.KEYWORD_ONLY:
      go(i + 1, pos, dict(kw, **{p.name: role(p)}), positional_open)
      if optional:
        go(i + 1, pos, kw, positional_open)
    else:
      raise ValueError(p.kind)
  go(0, [], {}, True)
  return out


def shape_table():
  table = {}
  derived = []
  for b in BUILTINS:
    n = b.__name__
    if n in HAND:
      table[n] = HAND[n]
    else:
      table[n] = shapes_from_signature(b)
      derived.append(n)
  return table, derived


def is_d9(name, shape):
  return name == 'enumerate' and 'iterable' in shape[1]


def shape_str(name, shape, labels):
  pos, kw = shape
  parts = list(labels[:len(pos)]) + ['%s=%s' % (k, l) for k, l in zip(kw, labels[len(pos):])]
  return '%s(%s)' % (name, ', '.join(parts))


def combos(shape, cap, rnd):
  pos, kw = shape
  roles = list(pos) + list(kw.values())
  pools = [P[r] for r in roles]
  total = 1
  for p in pools:
    total *= len(p)
  if total <= cap:
    for c in itertools.product(*[range(len(p)) for p in pools]):
      yield c
    return
  seen = set()
  # one factor at a time around a benign centre (index 1 of every pool is an accepted value)
  centre = tuple(min(1, len(p) - 1) for p in pools)
  for i, p in enumerate(pools):
    for j in range(len(p)):
      c = centre[:i] + (j,) + centre[i + 1:]
      if c not in seen:
        seen.add(c)
        yield c
  # all pairs would be next; a seeded sample fills the cap
  while len(seen) < cap:
    c = tuple(rnd.randrange(len(p)) for p in pools)
    if c not in seen:
      seen.add(c)
      yield c


OPTS = converter.ConversionOptions(recursive=True, optional_features=None)


def run_one(b, shape, choice):
  """Returns (observations of builtin, overload, wrapper), labels."""
  pos, kw = shape
  roles = list(pos) + list(kw.values())
  labels = [P[r][j][0] for r, j in zip(roles, choice)]
  obs_ = []
  for route in ('builtin', 'overload', 'wrapper'):
    del LOG[:]
    del PROBES[:]
    vals = [P[r][j][1]() for r, j in zip(roles, choice)]
    args = tuple(vals[:len(pos)])
    kwargs = dict(zip(kw, vals[len(pos):]))
    if route == 'builtin':
      o = observe(b, args, kwargs)
    elif route == 'overload':
      o = observe(py_builtins.overload_of(b), args, kwargs)
    else:
      o = observe(lambda *a, **k: api.converted_call(b, a, k if k else None, options=OPTS), args, kwargs)
    obs_.append(o)
  return obs_, labels


def diff(o1, o2):
  for k in ('trace', 'out', 'log', 'args'):
    if o1[k] != o2[k]:
      return k, o1[k], o2[k]
  return None


def values_item(item):
  """All cases of one call shape of one builtin."""
  name, si, cap, seed = item
  rnd = random.Random(seed)
  table, _ = shape_table()
  b = [x for x in BUILTINS if x.__name__ == name][0]
  shape = table[name][si]
  res = dict(name=name, evaluated=0, nontrivial=0, failures={}, samples=[])
  failures = res['failures']
  assert py_builtins.overload_of(b) is not b, name
  for choice in combos(shape, cap, rnd):
    try:
      (ob, oo, ow), labels = run_one(b, shape, choice)
    except Exception:      # pylint:disable=broad-except
      failures.setdefault(('harness-error', name), dict(kind='harness-error', sig=name, what=traceback.format_exc()[-400:],
                                                        program=repr((shape, choice)), count=0))['count'] += 1
      continue
    res['evaluated'] += 1
    first = ob['trace'][0][0] if ob['trace'] else ''
    optional_in_play = len(table[name]) > 1
    if optional_in_play or first in ('lazy', 'raise@call') or ob['log'] or ob['out']:
      res['nontrivial'] += 1
    for route, o in (('overload', oo), ('wrapper', ow)):
      d = diff(ob, o)
      if d:
        what, want, got = d
        cls = first if what == 'trace' else what
        key = ('value-difference', '%s:%s:%s' % (name, 'kw' if shape[1] else 'pos', cls))
        prog = shape_str(name, shape, labels)
        text = '%s: builtin and %s differ in %s: builtin %r, %s %r' % (prog, route, what, want, route, got)
        f = failures.get(key)
        if f is None:
          failures[key] = dict(kind=key[0], sig=key[1], route=route, program=prog, count=1, what=text,
                               replay='c14_builtins.py 0 quick --no-frames --only %s' % name)
        else:
          f['count'] += 1
          if len(prog) < len(f['program']):      # keep the shortest witness
            f.update(program=prog, route=route, what=text)
        break
    if len(res['samples']) < 1 and first == 'lazy' and len(ob['trace']) > 3 and shape[1] and PROBES:
      res['samples'].append('%s -> %r' % (shape_str(name, shape, labels), ob['trace'][:4]))
  return res


def values_part(only, tier, seed, maxfail, serial):
  table, derived = shape_table()
  cap = 400 if tier == 'quick' else 6000
  items = []
  for b in BUILTINS:
    name = b.__name__
    if only and name not in only:
      continue
    for si, shape in enumerate(table[name]):
      if not is_d9(name, shape):
        items.append((name, si, cap, seed * 1000003 + len(items)))
  evaluated = nontrivial = 0
  failures, samples, per_builtin = {}, [], {}
  it = (values_item(i) for i in items) if serial else harness.pool_map(values_item, items, chunksize=1)
  for r in it:
    evaluated += r['evaluated']
    nontrivial += r['nontrivial']
    per_builtin[r['name']] = per_builtin.get(r['name'], 0) + r['evaluated']
    for key, f in r['failures'].items():
      if key in failures:
        f['count'] += failures[key]['count']
        if len(failures[key]['program']) <= len(f['program']):
          f = dict(failures[key], count=f['count'])
      failures[key] = f
    for smp in r['samples']:
      if len(samples) < 2:
        samples.append(smp)
  fl = sorted(failures.values(), key=lambda f: (f['kind'], f['sig']))
  return dict(evaluated=evaluated, nontrivial=nontrivial, failures=fl[:maxfail], samples=samples, shapes=len(items),
              derived=derived, per_builtin=dict(sorted(per_builtin.items())))


def d9_witness():
  out = []
  table, _ = shape_table()
  bad = []
  for shape in table['enumerate']:
    if not is_d9('enumerate', shape):
      continue
    centre = tuple(1 for _ in shape[0]) + tuple(1 for _ in shape[1])
    (ob, oo, ow), labels = run_one(enumerate, shape, centre)
    for route, o in (('overload', oo), ('wrapper', ow)):
      if diff(ob, o):
        bad.append('%s via %s: builtin %r, got %r' % (shape_str('enumerate', shape, labels), route, ob['trace'][:2], o['trace'][:1]))
  if bad:
    out.append(dict(kind='known-D9', sig='enumerate-iterable-keyword',
                    what='D9: enumerate(iterable=...) is accepted by the builtin and rejected by enumerate_(s, start=0): ' + bad[0],
                    program="py_builtins.overload_of(enumerate)(iterable=['a', 'b'])   # TypeError; enumerate(iterable=['a', 'b']) works",
                    variants=bad, replay='c14_builtins.py 0 quick --no-frames --only enumerate'))
  return out


# ----------------------------------------------------------------------------------------------- clause 2: frames

HEADER = '''
G0 = 100
GW = None
_G = globals()


class Base(object):
  tag = 'base-tag'

  def base(self, v):
    return ('Base.base', type(self).__name__, v)

  @classmethod
  def cbase(cls, v):
    return ('Base.cbase', cls.__name__, v)

'''

# variant -> (expression template over {v} (innermost local), {a} (outer local), {m} (marker), statement prelude)
# `safe` variants only look at names the innermost body mentions textually.
VARIANTS = {
    'eval': ("eval('a + {v} + w + G0 + {m}')", 'w = a + {v}'),
    'eval-comprehension': ("eval('[x + G0 for x in (1, 2)]')[1] + {v} + {m}", None),
    'eval-globals-arg': ("eval('q + G0 + {m}', {{'q': {v}, 'G0': 7}})", None),
    'eval-globals-locals-arg': ("eval('a + q + {m}', {{'q': 5}}, {{'a': {v}}})", None),
    'eval-locals-call': ("eval('a + {v} + {m}', globals(), locals())", 'w = a + {v}'),
    'locals': ("(locals()['{v}'], locals()['a'], {m})", 'w = a + {v}'),
    'globals': ("(globals()['G0'] + {v} + {m}, globals() is _G)", None),
    'globals-write': ("globals().__setitem__('GW', ({v}, {m}))", None),
    'super': ("super().base(({v}, {m}))", None),
    'super-attr': ("(super().tag, {v}, {m})", None),
    'super-two-arg': ("super(Sub, {self}).base(({v}, {m}))", None),
    'super-classmethod': ("super().cbase(({v}, {m}))", None),
    # ---- unrestricted forms (genuine findings, replayed as witnesses only)
    'eval-globals-arg-shadowed': ("eval('a + G0 + {m}', {{'a': {v}, 'G0': 7}})", 'w = a + {v}'),
    'eval-unmentioned': ("eval('u + {v} + {m}')", None),
    'locals-unmentioned': ("(locals()['u'], {m})", None),
}
SAFE = ['eval', 'eval-comprehension', 'eval-globals-arg', 'eval-globals-locals-arg', 'eval-locals-call', 'locals', 'globals',
        'globals-write', 'super', 'super-attr', 'super-two-arg', 'super-classmethod']
INPUTS = [(1, 2), (0, 2), (1, 1), (1, 0)]


def gen_function(path, variant, idx, self_name='self'):
  """Source of one function / class whose innermost body (under `path`, a tuple of 'if' / 'while' / 'for') calls the
  context-sensitive builtin; returns (source, kind) with kind in 'function' / 'method' / 'classmethod'."""
  expr_t, prelude_t = VARIANTS[variant]
  kind = 'classmethod' if variant == 'super-classmethod' else ('method' if variant.startswith('super') else 'function')
  first = {'function': '', 'method': self_name + ', ', 'classmethod': 'cls, '}[kind]
  lines = ['def f%d(%st, n):' % (idx, first), '  a = 1', '  u = 50', '  r = ()', '  v0 = a + t']

  def call(marker, d):
    v = 'v%d' % d
    out = []
    if prelude_t:
      out.append(prelude_t.format(v=v))
    out.append('r = (r, %s)' % expr_t.format(v=v, a='a', m=marker, self=self_name))
    return out

  def emit(level_path, ind, d):
    if not level_path:
      return [ind + s for s in call(1, d)]
    k, rest, d1 = level_path[0], level_path[1:], d + 1
    if k == 'if':
      out = [ind + 'if t:', ind + '  v%d = v%d + 1' % (d1, d)] + emit(rest, ind + '  ', d1)
      if not rest:
        out += [ind + 'else:', ind + '  v%d = v%d - 1' % (d1, d)] + [ind + '  ' + s for s in call(2, d1)]
    elif k == 'while':
      out = [ind + 'i%d = 0' % d1, ind + 'while i%d < n:' % d1, ind + '  v%d = v%d + i%d' % (d1, d, d1)]
      out += emit(rest, ind + '  ', d1)
      out.append(ind + '  i%d += 1' % d1)
    else:
      out = [ind + 'for j%d in range(n):' % d1, ind + '  v%d = v%d + j%d * 3' % (d1, d, d1)] + emit(rest, ind + '  ', d1)
    return out

  lines += emit(tuple(path), '  ', 0)
  lines.append('  return r')
  if kind == 'function':
    return '\n'.join(lines) + '\n', kind
  body = '\n'.join('  ' + l for l in lines)
  deco = '  @classmethod\n' if kind == 'classmethod' else ''
  src = 'class Sub(Base):\n  tag = "sub-tag"\n\n  def base(self, v):\n    return ("Sub.base", v)\n\n' \
        '  @classmethod\n  def cbase(cls, v):\n    return ("Sub.cbase", v)\n\n%s%s\n' % (deco, body)
  return src, kind


USER_NAMES_DECL = "USER_NAMES = ('a', 'u', 'r', 't', 'n') + tuple('%s%d' % (p, i) for p in 'vij' for i in range(5))\n"


def frame_items(tier):
  items = []
  idx = 0
  paths = [()]
  for d in (1, 2, 3):
    paths += list(itertools.product(('if', 'while', 'for'), repeat=d))
  for path in paths:
    for variant in SAFE:
      for feats in ('none', 'builtins'):
        if tier == 'quick' and len(path) == 3 and (len(items) + (feats == 'none')) % 2:
          idx += 1
          continue                    # quick: the 27 deepest nests alternate between the two feature settings
        self_name = 'this' if (idx % 5 == 0 and variant.startswith('super') and variant != 'super-classmethod') else 'self'
        items.append((idx, path, variant, feats, self_name))
        idx += 1
  return items


def check_frame(item):
  idx, path, variant, feats, self_name = item
  src_f, kind = gen_function(path, variant, idx, self_name)
  src = HEADER + USER_NAMES_DECL + src_f
  name = 'vp_c14_%d_%d' % (os.getpid(), idx)
  res = dict(idx=idx, runs=0, nontrivial=False, failure=None, variant=variant, path=path, src=src)
  try:
    mod = harness.load_source(src, name)
  except SyntaxError as e:
    res['failure'] = dict(kind='generator-bug', sig='syntax', what=str(e), program=src)
    return res
  try:
    fn_name = 'f%d' % idx
    if kind == 'function':
      orig = getattr(mod, fn_name)
      target = orig
      mk = lambda f: (lambda t, n: f(t, n))
    elif kind == 'method':
      orig = getattr(mod.Sub, fn_name)
      target = orig
      mk = lambda f: (lambda t, n: f(mod.Sub(), t, n))
    else:
      orig = getattr(mod.Sub, fn_name).__func__
      target = getattr(mod.Sub, fn_name)
      mk = lambda f: (lambda t, n: f(mod.Sub, t, n))
    try:
      conv = malt.to_graph(target, experimental_optional_features=(
          None if feats == 'none' else converter.Feature.BUILTIN_FUNCTIONS))
    except Exception as e:      # pylint:disable=broad-except
      res['failure'] = dict(kind='conversion-error', sig=variant, what='%s: %s' % (type(e).__name__, str(e)[:300]), program=src)
      return res
    for t, n in INPUTS:
      outs = []
      for f in (orig, conv):
        mod.GW = None
        try:
          r = ('return', repr(mk(f)(t, n)), repr(mod.GW))
        except Exception as e:      # pylint:disable=broad-except
          r = ('raise', type(e).__name__, str(e)[:120])
        outs.append(r)
      res['runs'] += 1
      if outs[0][0] == 'return' and outs[0][1] != '()':
        res['nontrivial'] = True
      if outs[0] != outs[1] and res['failure'] is None:
        res['failure'] = dict(kind='frame-difference', sig='%s:depth%d' % (variant, len(path)),
                              what='%s at nesting %s (features %s), input t=%r n=%r: original %r, converted %r' % (
                                  variant, '/'.join(path) or 'top level', feats, t, n, outs[0], outs[1]),
                              program=src_f, features=feats, input=[t, n],
                              replay='load the program from a file, malt.to_graph(f, experimental_optional_features=%s), call with (t, n)' % (
                                  'None' if feats == 'none' else 'Feature.BUILTIN_FUNCTIONS'))
  finally:
    harness.unload(name)
  return res


WITNESSES = [
    dict(sig='eval-two-arguments-uses-frame-locals', variant='eval-globals-arg-shadowed', top_level_fails=True,
         what=('eval(expr, globals_dict) - locals omitted - must use globals_dict as locals too; eval_in_original_context '
               'passes the calling frame\'s f_locals as the third argument, so a local of the user function shadows the '
               "entry of the explicit dict: def f(): a = 1; return eval('a', {'a': 2}) gives 2, converted gives 1")),
    dict(sig='eval-in-functionalised-body-misses-unmentioned-locals', variant='eval-unmentioned',
         what=('eval inside a functionalised if / while / for body is evaluated in the frame of the generated body function '
               '(py_builtins._find_originating_frame, innermost=True), whose f_locals contain only the variables that the body '
               "mentions textually: a local of the user function that only the eval string refers to raises NameError "
               '(original: value)')),
    dict(sig='locals-in-functionalised-body-returns-body-frame', variant='locals-unmentioned',
         what=('locals() inside a functionalised if / while / for body returns the f_locals of the generated body function: '
               'user locals the body does not mention are missing (KeyError), generated names are present')),
]


def frame_witnesses():
  out = []
  for w in WITNESSES:
    fails = []
    paths = [(), ('if',), ('for',)] if w.get('top_level_fails') else [('if',), ('while',), ('for',), ('if', 'for')]
    for i, path in enumerate(paths):
      r = check_frame((9000 + i, path, w['variant'], 'none', 'self'))
      if r['failure']:
        fails.append(r['failure'])
    # the same call at the top level of the function must be fine (the defect is about functionalised bodies)
    top = check_frame((9100, (), w['variant'], 'none', 'self'))
    if fails:
      f0 = fails[0]
      out.append(dict(kind='witness', sig='C14-' + w['sig'], what=w['what'], observed=f0['what'], program=f0['program'],
                      nestings_failing=len(fails), top_level_ok=top['failure'] is None,
                      replay='c14_builtins.py 0 quick --no-values (witness part); program: malt.to_graph(f0)(1, 2) vs f0(1, 2)'))
  return out


# ----------------------------------------------------------------------------------------------- main

def main():
  ap = argparse.ArgumentParser()
  ap.add_argument('seed', type=int)
  ap.add_argument('tier')
  ap.add_argument('--only', default='')
  ap.add_argument('--no-values', action='store_true')
  ap.add_argument('--no-frames', action='store_true')
  ap.add_argument('--serial', action='store_true')
  ap.add_argument('--maxfail', type=int, default=10)
  a = ap.parse_args()
  t0 = time.time()
  rnd = random.Random(a.seed)
  only = set(x for x in a.only.split(',') if x)
  harness.scratch_dir()
  failures, samples = [], []
  vres = dict(evaluated=0, nontrivial=0, shapes=0, derived=[], per_builtin={})
  fr_eval = fr_programs = fr_nontrivial = 0
  try:
    if not a.no_values:
      vres = values_part(only, a.tier, a.seed, a.maxfail, a.serial)
      failures += vres['failures']
      samples += vres['samples']
      if not only or 'enumerate' in only:
        failures = d9_witness() + failures
    if not a.no_frames and not only:
      items = frame_items(a.tier)
      it = (check_frame(i) for i in items) if a.serial else harness.pool_map(check_frame, items, chunksize=4)
      seen = {}
      for r in it:
        fr_programs += 1
        fr_eval += r['runs']
        if r['nontrivial']:
          fr_nontrivial += 1
        if r['failure']:
          f = r['failure']
          key = (f['kind'], f['sig'])
          if key not in seen or len(f.get('program', '')) < len(seen[key].get('program', '')):
            f['count'] = seen[key]['count'] + 1 if key in seen else 1
            seen[key] = f
          else:
            seen[key]['count'] += 1
        elif len(samples) < 3 and len(r['path']) == 3 and r['variant'] == 'eval':
          samples.append(r['src'][-700:])
      failures += sorted(seen.values(), key=lambda f: (f['kind'], f['sig']))
      failures = frame_witnesses() + failures
  finally:
    shutil.rmtree(harness.scratch_dir(), ignore_errors=True)
  harness.emit(dict(
      evaluated=vres['evaluated'] + fr_eval, value_cases=vres['evaluated'], frame_runs=fr_eval, frame_programs=fr_programs,
      distinct_nontrivial=vres['nontrivial'] + fr_nontrivial, call_shapes=vres['shapes'],
      shapes_from_inspect_signature=vres['derived'], per_builtin=vres['per_builtin'],
      rule=('values: call-shape table (inspect.signature / hand-stated) x per-parameter value pools; full product up to the '
            'cap (quick 400, thorough 6000 per shape), else one-factor-at-a-time + seeded sample; each case run through the '
            'builtin, overload_of(builtin) and converted_call(builtin) on fresh equal arguments, comparing result, laziness '
            '(items pulled from every source after every step, up to %d steps), output, dunder-call log and exception type; '
            'non-trivial = optional parameters in play, lazy result, exception, output or dunder calls.  frames: eval (5 '
            'forms) / locals / globals (read, write) / zero-arg and two-arg super (method, class method, attribute) in the '
            'innermost body of every if/while/for nest of depth 0..3, BUILTIN_FUNCTIONS off/on, %d inputs each; non-trivial = '
            'the builtin was actually reached.' % (MAXSTEPS, len(INPUTS))),
      samples=samples, failures=failures[:max(a.maxfail, 3)], seconds=round(time.time() - t0, 1)))


if __name__ == '__main__':
  main()
