"""C04 bounded stand-in: every overloadable construct is routed through its operator.

For every program x option set:
  (a) static   NoNative(ast.parse(malt.to_code(f)))  -- the predicate of DESIGN.md section C04;
  (b) dynamic  per operator kind, the number of invocations coming from *user* call sites of the generated module
               equals the number of executions of the corresponding construct in an instrumented copy of the
               original, for every explored decision vector.  Call sites are identified exactly (code positions of
               the calling instruction matched against the parsed generated module); sites introduced by the
               break / continue / return lowering (`not <control var>` guards) are classified by explicit shape.

usage: c04_scan.py <seed> <tier> [--random N] [--k K] [--batch B] [--options a,b,...]
"""
import argparse
import ast
import hashlib
import inspect
import os
import random
import re
import sys
import time
import traceback

sys.path.insert(0, os.path.dirname(os.path.abspath(__file__)))
os.environ['PYTHONBREAKPOINT'] = '0'
import harness
import opspace
import progen

import malt

# ---------------------------------------------------------------------------------------- NoNative (static)

CTRL_VAR = re.compile(r'^(break_|continue_|do_return)(_\d+)?$')
DEBUGGERS = ('pdb.set_trace', 'ipdb.set_trace', 'breakpoint')
OPS = ('if_stmt', 'while_stmt', 'for_stmt', 'if_exp', 'and_', 'or_', 'not_', 'eq', 'not_eq', 'converted_call')


def ag_attr(node):
  """'x.y' when node is the attribute chain ag__.x.y, else None."""
  parts = []
  while isinstance(node, ast.Attribute):
    parts.append(node.attr)
    node = node.value
  if isinstance(node, ast.Name) and node.id == 'ag__' and parts:
    return '.'.join(reversed(parts))
  return None


def root_name(node):
  """Base name of a pure attribute chain (no calls, no subscripts in between), else None."""
  while isinstance(node, ast.Attribute):
    node = node.value
  return node.id if isinstance(node, ast.Name) else None


def strip_ld(node):
  """Source text of an expression with every ag__.ld(x) replaced by x."""
  class S(ast.NodeTransformer):
    def visit_Call(self, n):
      if ag_attr(n.func) == 'ld' and len(n.args) == 1 and not n.keywords:
        return self.visit(n.args[0])
      return self.generic_visit(n)
  import copy
  return ast.unparse(S().visit(copy.deepcopy(node)))


def is_function_scope_with(stmt):
  return (isinstance(stmt, ast.With) and len(stmt.items) == 1 and isinstance(stmt.items[0].context_expr, ast.Call)
          and ag_attr(stmt.items[0].context_expr.func) == 'FunctionScope'
          and isinstance(stmt.items[0].optional_vars, ast.Name))


def scope_names(tree):
  """Names bound to function scopes: `with ag__.FunctionScope(..) as N` and
  `ag__.with_function_scope(lambda N: .., 'N', opts)`."""
  out = set()
  for n in ast.walk(tree):
    if is_function_scope_with(n):
      out.add(n.items[0].optional_vars.id)
    if (isinstance(n, ast.Call) and ag_attr(n.func) == 'with_function_scope' and n.args
        and isinstance(n.args[0], ast.Lambda) and len(n.args[0].args.args) == 1):
      out.add(n.args[0].args.args[0].arg)
  return out


def allowed_returns(tree):
  ok = set()
  for n in ast.walk(tree):
    if isinstance(n, (ast.FunctionDef, ast.AsyncFunctionDef)) and n.body:
      last = n.body[-1]
      if isinstance(last, ast.Return):
        ok.add(id(last))
      elif is_function_scope_with(last) and last.body and isinstance(last.body[-1], ast.Return):
        ok.add(id(last.body[-1]))
  return ok


def packer_calls(tree):
  """The generated argument packers, by exact shape and position:
       ag__.converted_call(func, <args>, <kwargs>, scope)
         <args>   ::= Tuple | tuple(<expr>) | <args> + <args>        (call_trees._ArgTemplateBuilder)
         <kwargs> ::= None | dict(k=v, ..., **m)                     (call_trees._kwargs_to_dict)"""
  ok = set()

  def args_side(n):
    if isinstance(n, ast.BinOp) and isinstance(n.op, ast.Add):
      args_side(n.left)
      args_side(n.right)
    elif (isinstance(n, ast.Call) and isinstance(n.func, ast.Name) and n.func.id == 'tuple'
          and len(n.args) == 1 and not n.keywords):
      ok.add(id(n))
  for n in ast.walk(tree):
    if isinstance(n, ast.Call) and ag_attr(n.func) == 'converted_call' and len(n.args) == 4 and not n.keywords:
      args_side(n.args[1])
      k = n.args[2]
      if isinstance(k, ast.Call) and isinstance(k.func, ast.Name) and k.func.id == 'dict' and not k.args and k.keywords:
        ok.add(id(k))
  return ok


class NoNative(ast.NodeVisitor):
  def __init__(self, tree, optname):
    self.opt = optname
    self.scopes = scope_names(tree)
    self.ret_ok = allowed_returns(tree)
    self.packers = packer_calls(tree)
    self.exempt = 0            # > 0 inside with-item expressions / argument annotations
    self.violations = []       # (class, text)
    self.visit(tree)

  def bad(self, cls, node):
    self.violations.append((cls, ast.unparse(node)[:160]))

  def visit(self, node):
    if isinstance(node, (ast.If, ast.While, ast.For, ast.AsyncFor, ast.Break, ast.Continue, ast.IfExp, ast.BoolOp)):
      self.bad('native-' + type(node).__name__, node)
    elif isinstance(node, ast.UnaryOp) and isinstance(node.op, ast.Not):
      self.bad('native-Not', node)
    elif isinstance(node, ast.Compare) and opspace.uses_eq(self.opt) and any(
        isinstance(o, (ast.Eq, ast.NotEq)) for o in node.ops):
      self.bad('native-Eq', node)
    elif isinstance(node, ast.Return) and id(node) not in self.ret_ok:
      self.bad('native-Return', node)
    return super(NoNative, self).visit(node)

  def visit_With(self, node):
    for item in node.items:
      fs = is_function_scope_with(node)
      self.exempt += 0 if fs else 1
      self.visit(item)
      self.exempt -= 0 if fs else 1
    for s in node.body:
      self.visit(s)

  def visit_arg(self, node):
    if node.annotation is not None:
      self.exempt += 1
      self.visit(node.annotation)
      self.exempt -= 1

  def visit_Call(self, node):
    if not self.call_ok(node):
      self.bad('native-Call', node)
    self.generic_visit(node)

  def call_ok(self, node):
    if ag_attr(node.func) is not None:
      return True
    if isinstance(node.func, ast.Attribute) and root_name(node.func) in self.scopes:
      return True
    if id(node) in self.packers:
      return True
    if self.exempt:
      return True
    callee = strip_ld(node.func)
    if callee in DEBUGGERS:
      return True
    if callee == 'print' and not opspace.uses_builtins(self.opt):
      return True
    return False


# ---------------------------------------------------------------------------------------- call-site table

def is_ctrl_not(n):
  """ag__.not_(<control var>) or ag__.not_(ag__.ld(<control var>)): a lowering guard test."""
  if not (isinstance(n, ast.Call) and ag_attr(n.func) == 'not_' and len(n.args) == 1):
    return False
  a = n.args[0]
  if isinstance(a, ast.Call) and ag_attr(a.func) == 'ld' and len(a.args) == 1:
    a = a.args[0]
  return isinstance(a, ast.Name) and bool(CTRL_VAR.match(a.id))


def site_class(n):
  op = ag_attr(n.func)
  if op == 'not_' and is_ctrl_not(n):
    return 'lowering'
  if op == 'if_stmt' and n.args and is_ctrl_not(n.args[0]):
    return 'lowering'
  if op == 'and_' and n.args and isinstance(n.args[0], ast.Lambda) and is_ctrl_not(n.args[0].body):
    return 'lowering'
  return 'user'


def site_table(module_tree):
  sites = {}
  for n in ast.walk(module_tree):
    if isinstance(n, ast.Call):
      op = ag_attr(n.func)
      if op in OPS:
        sites[(n.lineno, n.end_lineno, n.col_offset, n.end_col_offset)] = (op, site_class(n))
  return sites


_POS_CACHE = {}


def caller_position(fr):
  code = fr.f_code
  tab = _POS_CACHE.get(code)
  if tab is None:
    tab = _POS_CACHE[code] = list(code.co_positions())
  return tab[fr.f_lasti // 2]


class OpCounter(object):
  """Counting wrappers on the ag__ module object; only invocations issued from `filename` are counted."""

  def __init__(self, filename, sites):
    self.file = filename
    self.sites = sites
    self.ag = opspace.ag_module()
    self.saved = {}
    self.reset()

  def reset(self):
    self.counts = {}
    self.lowering = 0
    self.problems = []

  def hit(self, op):
    fr = sys._getframe(2)
    if fr.f_code.co_filename != self.file:
      return False
    site = self.sites.get(caller_position(fr))
    if site is None or site[0] != op:
      self.problems.append('invocation of %s from an unmapped site %r' % (op, caller_position(fr)))
      return False
    if site[1] == 'user':
      self.counts[op] = self.counts.get(op, 0) + 1
      return True
    self.lowering += 1
    return False

  def bump(self, kind):
    self.counts[kind] = self.counts.get(kind, 0) + 1

  def install(self):
    ag, me = self.ag, self
    for op in OPS:
      self.saved[op] = getattr(ag, op)
    o = dict(self.saved)

    def if_stmt(*a, **k):
      me.hit('if_stmt')
      return o['if_stmt'](*a, **k)

    def while_stmt(test, body, *rest):
      if me.hit('while_stmt'):
        inner = body

        def body():
          me.bump('while_body')
          return inner()
      return o['while_stmt'](test, body, *rest)

    def for_stmt(iter_, extra_test, body, *rest):
      if me.hit('for_stmt'):
        inner = body

        def body(itr):
          me.bump('for_body')
          return inner(itr)
      return o['for_stmt'](iter_, extra_test, body, *rest)

    def simple(op):
      def w(*a, **k):
        me.hit(op)
        return o[op](*a, **k)
      return w
    ag.if_stmt, ag.while_stmt, ag.for_stmt = if_stmt, while_stmt, for_stmt
    for op in ('if_exp', 'and_', 'or_', 'not_', 'eq', 'not_eq', 'converted_call'):
      setattr(ag, op, simple(op))

  def restore(self):
    for op, fn in self.saved.items():
      setattr(self.ag, op, fn)
    self.saved = {}


# ---------------------------------------------------------------------------------------- instrumented original

PRELUDE = '''
_KC = {}
def _k(kind, n=1):
  _KC[kind] = _KC.get(kind, 0) + n
def _k1(kind, v):
  _KC[kind] = _KC.get(kind, 0) + 1
  return v
def _kw(kind, fn):
  def call(*a, **k):
    _KC[kind] = _KC.get(kind, 0) + 1
    return fn(*a, **k)
  return call
'''


def _call(fn, *args):
  return ast.Call(func=ast.Name(id=fn, ctx=ast.Load()), args=list(args), keywords=[])


def _pre(kind, expr, n=1):
  """(_k(kind, n), expr)[1]: count, then evaluate expr."""
  return ast.Subscript(value=ast.Tuple(elts=[_call('_k', ast.Constant(kind), ast.Constant(n)), expr], ctx=ast.Load()),
                       slice=ast.Constant(1), ctx=ast.Load())


class Instrument(ast.NodeTransformer):
  """Counts, in the original, the executions of each overloadable construct at the moment the corresponding
  operator would be invoked (if_stmt after its test, and_ before its first operand, a call after its arguments)."""

  def __init__(self):
    self.no_calls = 0
    self.eq_in_chain = False

  def visit_If(self, node):
    self.generic_visit(node)
    node.test = _call('_k1', ast.Constant('if_stmt'), node.test)
    return node

  def visit_While(self, node):
    self.generic_visit(node)
    node.body.insert(0, ast.Expr(_call('_k', ast.Constant('while_body'))))
    return [ast.Expr(_call('_k', ast.Constant('while_stmt'))), node]

  def visit_For(self, node):
    self.generic_visit(node)
    node.iter = _call('_k1', ast.Constant('for_stmt'), node.iter)
    node.body.insert(0, ast.Expr(_call('_k', ast.Constant('for_body'))))
    return node

  def visit_IfExp(self, node):
    self.generic_visit(node)
    node.test = _call('_k1', ast.Constant('if_exp'), node.test)
    return node

  def visit_BoolOp(self, node):
    self.generic_visit(node)
    kind = 'and_' if isinstance(node.op, ast.And) else 'or_'
    node.values = [_pre(kind, v) for v in node.values[:-1]] + [node.values[-1]]
    return node

  def visit_UnaryOp(self, node):
    self.generic_visit(node)
    if isinstance(node.op, ast.Not):
      node.operand = _call('_k1', ast.Constant('not_'), node.operand)
    return node

  def visit_Compare(self, node):
    self.generic_visit(node)
    eqs = [o for o in node.ops if isinstance(o, (ast.Eq, ast.NotEq))]
    if len(node.ops) > 1:
      if eqs:
        self.eq_in_chain = True
      return _pre('and_', node, len(node.ops) - 1)
    if eqs:
      return _call('_k1', ast.Constant('eq' if isinstance(eqs[0], ast.Eq) else 'not_eq'), node)
    return node

  def visit_With(self, node):
    self.no_calls += 1
    node.items = [self.visit(i) for i in node.items]
    self.no_calls -= 1
    node.body = self._block(node.body)
    return node

  def _block(self, stmts):
    out = []
    for s in stmts:
      r = self.visit(s)
      out.extend(r if isinstance(r, list) else [r])
    return out

  def visit_arg(self, node):
    self.no_calls += 1
    self.generic_visit(node)
    self.no_calls -= 1
    return node

  def visit_Call(self, node):
    self.generic_visit(node)
    if self.no_calls:
      return node
    kind = 'converted_call'
    if isinstance(node.func, ast.Name) and node.func.id == 'print':
      kind = 'call_print'
    elif ast.unparse(node.func) in DEBUGGERS:
      return node
    node.func = _call('_kw', ast.Constant(kind), node.func)
    return node


def instrumented_source(src):
  tree = ast.parse(src)
  ins = Instrument()
  for i, n in enumerate(tree.body):
    if isinstance(n, ast.FunctionDef) and n.name == 'f':
      tree.body[i] = ins.visit(n)
  ast.fix_missing_locations(tree)
  return PRELUDE + ast.unparse(tree) + '\n', ins.eq_in_chain


# ---------------------------------------------------------------------------------------- one program

_N = [0]


def check_source(src, optname, maxlen=5, cap=10, static_only=False):
  """-> dict(violations=[(kind, sig, what, decisions)], runs, nontrivial, ops)"""
  _N[0] += 1
  name = 'vp_c04_%d_%d' % (os.getpid(), _N[0])
  res = dict(violations=[], runs=0, nontrivial=False, ops=0, converted=False)
  try:
    mod = harness.load_source(src, name)
  except SyntaxError as e:
    res['violations'].append(('generator-bug', 'syntax', str(e), None))
    return res
  imod = None
  counter = None
  try:
    try:
      code = opspace.to_code(mod.f, optname)
      g = opspace.to_graph(mod.f, optname)
    except Exception as e:
      res['violations'].append(('conversion-error', type(e).__name__, '%s: %s' % (type(e).__name__, str(e)[:300]), None))
      return res
    res['converted'] = True
    tree = ast.parse(code)
    scan = NoNative(tree, optname)
    seen = set()
    for cls, text in scan.violations:
      if cls not in seen:
        seen.add(cls)
        res['violations'].append(('native-construct', cls, '%s survives in the generated code: %s' % (cls, text), None))
    res['ops'] = sum(1 for n in ast.walk(tree) if isinstance(n, ast.Call) and ag_attr(n.func) in OPS)
    if static_only:
      res['nontrivial'] = res['ops'] > 0
      return res
    # ---- dynamic count
    gfile = g.__code__.co_filename
    with open(gfile) as fh:
      gsrc = fh.read()
    sites = site_table(ast.parse(gsrc))
    isrc, eq_in_chain = instrumented_source(src)
    imod = harness.load_source(isrc, name + '_i')
    counter = OpCounter(gfile, sites)
    counter.install()
    kinds = ['if_stmt', 'while_stmt', 'while_body', 'for_stmt', 'for_body', 'if_exp', 'and_', 'or_', 'not_', 'converted_call']
    if opspace.uses_eq(optname) and not eq_in_chain:
      kinds += ['eq', 'not_eq']

    def run(bits):
      imod._KC.clear()
      o1 = harness.observe(imod.f, imod, bits)
      want = dict(imod._KC)
      if opspace.uses_builtins(optname):
        want['converted_call'] = want.get('converted_call', 0) + want.get('call_print', 0)
      counter.reset()
      o2 = harness.observe(g, mod, bits)
      got = dict(counter.counts)
      res['runs'] += 1
      if sum(got.values()) > 0:
        res['nontrivial'] = True
      for p in counter.problems[:1]:
        res['violations'].append(('count', 'unmapped-site', p, list(bits)))
      implicit = o1['outcome'][0] == 'raise' and o1['outcome'][1] != 'ValueError'
      if o1['outcome'] != o2['outcome'] and not implicit:
        res['violations'].append(('count', 'outcome', 'instrumented original %r vs converted %r' % (o1['outcome'], o2['outcome']), list(bits)))
      elif not implicit:
        diff = [(k, want.get(k, 0), got.get(k, 0)) for k in kinds if want.get(k, 0) != got.get(k, 0)]
        if diff and not any(v[0] == 'count' and v[1].startswith('mismatch') for v in res['violations']):
          res['violations'].append(('count', 'mismatch-' + diff[0][0],
                                    'executions in the original vs operator invocations from user sites differ: '
                                    + ', '.join('%s %d vs %d' % d for d in diff), list(bits)))
      return o1['used']
    harness.adaptive_vectors(run, max_len=maxlen, cap=cap)
  except Exception:
    res['violations'].append(('harness', 'crash', traceback.format_exc()[-600:], None))
  finally:
    if counter is not None:
      counter.restore()
    harness.unload(name)
    if imod is not None:
      harness.unload(name + '_i')
  return res


def real(violations):
  return [v for v in violations if v[0] in ('native-construct', 'count', 'harness', 'generator-bug')]


def check_item(item):
  """item = (idx, kind, optname, payload).  kind 'planted': payload = [(label, block)], checked together and, on a
  violation, one planting at a time (the witness is then a single planting)."""
  idx, kind, optname, payload = item
  out = dict(idx=idx, cases=0, runs=0, nontrivial=0, failures=[], conv_errors=0, sample=None, conv_samples=[])
  try:
    if kind == 'planted':
      src = opspace.program_of([b for _, b in payload])
      r = check_source(src, optname)
      out['runs'] += r['runs']
      bad = real(r['violations']) or not r['converted']
      if not bad:
        out['cases'] = len(payload)
        out['nontrivial'] = len(payload) if r['nontrivial'] else 0
        out['sample'] = (payload[0][0], '\n'.join(payload[0][1]))
        return out
      located = False
      for label, block in payload:
        s1 = opspace.program_of([block])
        r1 = check_source(s1, optname)
        out['cases'] += 1
        out['runs'] += r1['runs']
        out['nontrivial'] += 1 if r1['nontrivial'] else 0
        out['conv_errors'] += 0 if r1['converted'] else 1
        for v in r1['violations']:
          if v[0] == 'conversion-error':     # outside C04's quantifier ("in a converted function"): counted, not a failure
            located = True
            out['conv_samples'].append('%s [%s]: %s' % (label, optname, v[2][:200]))
        for v in real(r1['violations']):
          located = True
          out['failures'].append(dict(kind=v[0], sig='%s:%s' % (v[1], label), what=v[2], program=s1,
                                      decisions=v[3], options=optname, planted=label))
      if not located:
        for v in real(r['violations']):
          out['failures'].append(dict(kind=v[0], sig='%s:batch' % v[1], what=v[2], program=src, decisions=v[3],
                                      options=optname, planted=[l for l, _ in payload]))
      return out
    src = payload
    r = check_source(src, optname, static_only=(kind == 'static'))
    out['cases'] = 1
    out['runs'] = r['runs']
    out['nontrivial'] = 1 if r['nontrivial'] else 0
    out['conv_errors'] = 0 if r['converted'] else 1
    out['conv_samples'] += ['program %d [%s]: %s' % (idx, optname, v[2][:200]) for v in r['violations'] if v[0] == 'conversion-error']
    for v in real(r['violations']):
      k, sig = v[0], v[1]
      if kind == 'd3' and (sig.startswith('native-IfExp') or sig.startswith('mismatch-if_exp')):
        k, sig = 'known-D3', 'nested-ifexp-survives'
      out['failures'].append(dict(kind=k, sig=sig, what=v[2], program=src, decisions=v[3], options=optname))
    if kind == 'd3':      # one finding, however many oracles see it
      d3 = [f for f in out['failures'] if f['kind'] == 'known-D3']
      out['failures'] = d3[:1] + [f for f in out['failures'] if f['kind'] != 'known-D3']
  except Exception:
    out['failures'].append(dict(kind='harness', sig='crash', what=traceback.format_exc()[-600:], program=str(payload)[:2000],
                                options=optname))
  return out


STATIC_ONLY = [
    opspace.HEADER + '\nimport pdb\n\ndef f(t, c, a):\n  y = 1\n  if c():\n    pdb.set_trace()\n  return h1(y)\n',
    opspace.HEADER + '\ndef f(t, c, a):\n  y = 1\n  while c():\n    breakpoint()\n    y = h1(y)\n  return y\n',
    opspace.HEADER + '\nimport pdb as ipdb\n\ndef f(t, c, a):\n  y = [ipdb.set_trace() for q in a if q and c()]\n  return y\n',
]


def main():
  ap = argparse.ArgumentParser()
  ap.add_argument('seed', type=int)
  ap.add_argument('tier')
  ap.add_argument('--random', type=int, default=None)
  ap.add_argument('--k', type=int, default=None)
  ap.add_argument('--batch', type=int, default=6)
  ap.add_argument('--options', default=','.join(opspace.OPTION_SETS))
  ap.add_argument('--maxfail', type=int, default=10)
  ap.add_argument('--budget', type=float, default=None, help='wall-clock seconds after which no further results are awaited')
  ap.add_argument('--d3', default='auto', choices=['auto', 'exclude', 'include'],
                  help='nested conditional expressions in the default space: auto = only when the D3 witness passes')
  a = ap.parse_args()
  thorough = a.tier == 'thorough'
  opts = a.options.split(',')
  nrand = a.random if a.random is not None else (4000 if thorough else 200)
  K = a.k if a.k is not None else (3 if thorough else 2)
  budget = a.budget if a.budget is not None else (840.0 if thorough else 45.0)
  t0 = time.time()
  opspace.private_tmp('c04')
  try:
    items = []
    # D3 (nested conditional expression stays native): probe the witness once; while it fails the trigger stays out
    # of the default space and is reported through the routed witness only
    d3_open = a.d3 == 'exclude'
    if a.d3 == 'auto':
      probe = check_source(opspace.D3_WITNESS, 'plain', static_only=True)
      d3_open = any(v[1] == 'native-IfExp' for v in probe['violations']) or not probe['converted']
    all_planted = list(opspace.planted_cases(a.seed, a.tier, include_d3=False if d3_open else 'all'))
    planted = [p for p in all_planted if 'exempt_args' not in p[1]]
    exempt_args = [p for p in all_planted if 'exempt_args' in p[1]]
    reps = len(opts) if thorough else 2     # quick: every batch under two option sets, rotating through all of them
    j = 0
    for s in range(0, len(planted), a.batch):
      batch = [(lab, blk) for lab, _, blk in planted[s:s + a.batch]]
      for r in range(reps):
        items.append((len(items), 'planted', opts[j % len(opts)], batch))
        j += 1
    # plantings inside the arguments of exempted calls: run first; in quick under three option sets that cover
    # print exempt / print converted, == native / == overloaded, recursive on / off
    first = set()
    ea_opts = opts if thorough else [o for o in ('plain', 'eq_norec', 'both') if o in opts] or opts[:1]
    for s in range(0, len(exempt_args), a.batch):
      batch = [(lab, blk) for lab, _, blk in exempt_args[s:s + a.batch]]
      for o in ea_opts:
        first.add(len(items))
        items.append((len(items), 'planted', o, batch))
    nskel = 0
    for tree in progen.skeletons(K):
      src = progen.skeleton_program(tree)
      if d3_open and opspace.has_nested_ifexp(src):
        continue
      items.append((len(items), 'program', opts[j % len(opts)], src))
      j += 1
      nskel += 1
    skipped_d3 = 0
    for i in range(nrand):
      src = progen.random_program(a.seed * 1000003 + i, size=2 + (i % 5))
      if d3_open and opspace.has_nested_ifexp(src):
        skipped_d3 += 1
        continue
      items.append((len(items), 'program', opts[j % len(opts)], src))
      j += 1
    for src in STATIC_ONLY:
      for o in opts[:4]:
        items.append((len(items), 'static', o, src))
    # D3 witnesses (kept out of the default space): the minimal one, plus the planted field variants
    items.append((len(items), 'd3', 'plain', opspace.D3_WITNESS))
    d3_planted = list(opspace.planted_cases(a.seed, 'quick', include_d3=True)) if d3_open else []
    evaluated = runs = nontrivial = conv_errors = 0
    failures, samples, seen, conv_samples = [], [], set(), []
    # a run cut short by the budget still samples the whole space; witnesses and the static-only cases go first
    random.Random(a.seed).shuffle(items)
    items.sort(key=lambda it: 0 if it[1] in ('d3', 'static') else 1 if it[0] in first else 2)
    done = 0
    for r in harness.pool_map(check_item, items, chunksize=1):
      done += 1
      if time.time() - t0 > budget:
        break
      evaluated += r['cases']
      runs += r['runs']
      nontrivial += r['nontrivial']
      conv_errors += r['conv_errors']
      conv_samples += r['conv_samples'][:max(0, 5 - len(conv_samples))]
      for f in r['failures']:
        key = (f['kind'], f['sig'])
        if key not in seen and len(failures) < a.maxfail:
          seen.add(key)
          failures.append(f)
      if r['sample'] and len(samples) < 2:
        samples.append('%s :: %s' % r['sample'])
    harness.emit(dict(
        evaluated=evaluated, distinct_nontrivial=nontrivial, items_done=done, items_total=len(items),
        truncated_by_budget=done < len(items), wall_seconds=round(time.time() - t0, 1), dynamic_runs=runs, conversion_errors=conv_errors, conversion_error_samples=conv_samples,
        planted_cases=len(all_planted), planted_in_exempt_call_arguments=len(exempt_args),
        d3_witness_fails=d3_open, d3_plantings_excluded=len(d3_planted), skeleton_programs=nskel,
        random_programs=nrand - skipped_d3, random_skipped_nested_ifexp=skipped_d3, options=opts,
        rule='each of %d expression constructs planted in each of %d expression contexts and each of %d statement '
             'constructs under statement-context chains of depth <= 2 (%d contexts), %d plantings per program, plus progen '
             'skeletons K<=%d and seeded random programs (avoid D1,D2,D6; nested IfExp excluded while the D3 witness fails); '
             'plantings inside arguments of exempted calls (print, pdb/ipdb.set_trace, breakpoint, with-items) run first under 3 option sets; per program one '
             'option set (rotating over %d); static NoNative scan of to_code + per-decision-vector equality of operator '
             'invocations from user call sites with construct executions of an instrumented original; non-trivial = at '
             'least one operator invocation from a user site was counted' % (
                 len(opspace.EXPR_CONSTRUCTS), len(opspace.EXPR_CONTEXTS), len(opspace.STMT_CONSTRUCTS),
                 len(opspace.STMT_CONTEXTS), a.batch, K, len(opts)),
        samples=samples, failures=failures))
  finally:
    opspace.finish()


if __name__ == '__main__':
  main()
