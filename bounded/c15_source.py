"""C15 bounded stand-in: `malt.pyct.parser.parse_entity(fn, ())` returns exactly the code of `fn`.

usage: c15_source.py <seed> <tier> [--n MODULES] [--maxfail K] [--no-witnesses]

Layout grammar (written here).  A module is a sequence of SITES, each rendered inside a stack of nesting
contexts (module / class / def / for / while / with / try / finally / if / else, depth <= 3) with one indentation
unit per module (1, 2, 4, 8 spaces or a tab).  A def site = decorators x signature x body statements x tail,
drawn from pools that contain: end-of-line / own-line / column-0 / over-indented comments, comments containing
quotes and backslashes, docstrings and triple-quoted strings with under-indented, blank and backslash-terminated
lines, raw / byte / f-strings (nested quotes, format specs, multi-line replacement fields), backslash
continuations (in expressions, conditions, signatures, with under-indented continuation lines), parenthesised
multi-line expressions, semicolons, nested defs / classes / lambdas, decorators (bare, with arguments, spanning
lines, `functools.wraps` wrappers), multi-line signatures with comments, annotations, one-line defs.  A lambda
site places one or more lambdas in a statement: alone, several per line with different or identical signatures,
nested, spanning lines, in calls / displays / defaults / comprehensions.  Every function object is registered in
`REG` and recovered.

Oracle: position-free dump of the FunctionDef / Lambda located in `ast.parse(<module source>)` by
`fn.__code__.co_firstlineno` (defs; the first decorator's line) or `co_positions()` (lambdas: the smallest Lambda
whose body spans every instruction).  For lambdas `UnsupportedLanguageElementError` is an allowed outcome.

Kept out of the default space and run as explicit witnesses: D10 (positional-only lambda parameters are ignored
when candidates are told apart) -> kind known-D10; D11 (`_unfold_continuations` is textual: a comment ending in a
backslash, a raw string containing backslash-newline, an escaped backslash before a newline in a string) ->
kind known-D11 (a fourth manifestation found here is routed the same way: `x = a or\\<newline>b` with the next line
in column 0 is glued into `orb`).
"""
import argparse
import ast
import hashlib
import os
import random
import shutil
import sys
import tempfile
import time
import traceback

sys.path.insert(0, os.path.dirname(os.path.abspath(__file__)))
import harness

from malt.pyct import errors
from malt.pyct import parser

HEADER = '''import functools
REG = []

def deco(fn):
  return fn

def deco_args(*args, **kw):
  def apply(fn):
    return fn
  return apply

def wrapping(fn):
  @functools.wraps(fn)
  def wrapper(*args, **kw):
    return fn(*args, **kw)
  REG.append(('wrapped:' + fn.__name__, fn))
  return wrapper

class CM(object):
  def __enter__(self):
    return self
  def __exit__(self, *exc):
    return False

def keep(*fns):
  return fns

def regl(tag, fn):
  REG.append((tag, fn))
  return fn
'''

UNITS = [' ', '  ', '    ', '        ', '\t']
CONTEXTS = ['class', 'def', 'for', 'while', 'with', 'try', 'finally', 'if', 'else', 'except']

# ------------------------------------------------------------------------------------ rendering
# A site is a list of items:  ('L', level, text)  a code line at nesting `level` relative to the site
#                             ('R', text)         a raw line, emitted verbatim (string content, free continuation)


def L(level, text):
  return ('L', level, text)


def R(text):
  return ('R', text)


def render(items, base, unit):
  out = []
  for it in items:
    if it[0] == 'L':
      out.append(base + unit * it[1] + it[2])
    else:
      out.append(it[1])
  return out


def wrap(kind, inner, base, unit, n):
  """Lines of context `kind` (at indentation `base`) around `inner` (already rendered one level deeper)."""
  b, b1 = base, base + unit
  if kind == 'class':
    return [b + 'class K%d(object):' % n, b1 + 'attr = %d' % n] + inner
  if kind == 'def':
    return [b + 'def outer%d():' % n, b1 + 'local = %d' % n] + inner + [b + 'outer%d()' % n]
  if kind == 'for':
    return [b + 'for _i%d in range(1):' % n] + inner
  if kind == 'while':
    return [b + 'while True:'] + inner + [b1 + 'break']
  if kind == 'with':
    return [b + 'with CM() as _w%d:' % n] + inner
  if kind == 'try':
    return [b + 'try:'] + inner + [b + 'finally:', b1 + 'pass']
  if kind == 'finally':
    return [b + 'try:', b1 + 'pass', b + 'finally:'] + inner
  if kind == 'except':
    return [b + 'try:', b1 + 'raise KeyError(%d)' % n, b + 'except KeyError:'] + inner
  if kind == 'if':
    return [b + 'if REG is not None:'] + inner + [b + 'else:', b1 + 'pass']
  if kind == 'else':
    return [b + 'if REG is None:', b1 + 'pass', b + 'else:'] + inner
  raise AssertionError(kind)


def render_site(items, contexts, unit, n):
  """The site inside its contexts (outermost first); returns module-level lines."""
  depth = len(contexts)
  lines = render(items, unit * depth, unit)
  for d in range(depth - 1, -1, -1):
    lines = wrap(contexts[d], lines, unit * d, unit, n * 10 + d)
  return lines


# ------------------------------------------------------------------------------------ def sites

def deco_pool(name):
  return {
      'none': [],
      'bare': [L(0, '@deco')],
      'args': [L(0, "@deco_args(1, 'a#b')")],
      'two': [L(0, '@deco'), L(0, '@deco_args(k=2)  # decorated')],
      'multiline': [L(0, '@deco_args(1,'), L(2, '2,  # inside'), L(0, ')')],
      'multiline-under': [L(0, '@deco_args(1,'), R('2,'), R("  'x')")],
      'comment-between': [L(0, '@deco'), L(0, '# between decorator and def'), L(0, '@deco_args()')],
      'wraps': [L(0, '@wrapping')],
      'blank-between': [L(0, '@deco'), R(''), L(0, '@deco')],
  }


def sig_pool(name):
  """signature lines; the last one ends with ':' (body follows) unless the key starts with 'oneline'."""
  return {
      'simple': [L(0, 'def %s(a, b=1):' % name)],
      'noargs': [L(0, 'def %s():' % name)],
      'spaces': [L(0, 'def   %s ( a ,b = 1 ) :' % name)],
      'annotated': [L(0, "def %s(a: int = 3, *rest: 'str', k: 'K#' = None, **kw) -> 'r:t':" % name)],
      'multiline': [L(0, 'def %s(a,' % name), L(3, 'b=2,  # second'), L(3, '*args, **kw):')],
      'multiline-under': [L(0, 'def %s(a,' % name), R('b=2,'), R(' c=3'), R('):')],
      'multiline-hanging': [L(0, 'def %s(' % name), L(2, 'a,'), L(2, "b='(',"), L(0, '):')],
      'backslash': [L(0, 'def %s(a, \\' % name), L(2, 'b=2):')],
      'backslash-under': [L(0, 'def %s(a, \\' % name), R('b=2):')],
      'backslash-before-paren': [L(0, 'def %s \\' % name), L(1, '(a, b=2):')],
      'string-default': [L(0, 'def %s(a, b="""x' % name), R('  y # z'), R('""", c=r"\\d"):')],
      'comment-after': [L(0, 'def %s(a, b=1):  # trailing: comment' % name)],
      'async': [L(0, 'async def %s(a, b=1):' % name)],
      'oneline': [L(0, 'def %s(a, b=1): return a + b' % name)],
      'oneline-semi': [L(0, 'def %s(a, b=1): c = a; return c  # done' % name)],
      'oneline-continued': [L(0, 'def %s(a, b=1): \\' % name), L(1, 'return a + b')],
  }


def body_pool():
  """name -> (items at body level 1, d11 flag)."""
  P = {}
  P['assign'] = [L(1, 'x = a  # comment with "quotes" and \\ backslash inside')]
  P['comment-own'] = [L(1, '# own-line comment'), L(1, 'x = 1')]
  P['comment-col0'] = [L(1, 'x = 1'), R('# comment in column 0'), L(1, 'y = 2')]
  P['comment-col0-first'] = [R('# first thing in the body, column 0'), L(1, 'x = 1')]
  P['comment-over'] = [L(1, 'x = 1'), L(3, "# over-indented comment: it's fine"), L(1, 'y = 2')]
  P['comment-last'] = [L(1, 'x = 1'), L(1, '# the body ends in a comment')]
  P['docstring'] = [L(1, '"""Docstring.'), R(''), R('under-indented line'), R('  # not a comment'), L(1, '"""'), L(1, 'x = 1')]
  P['docstring-single'] = [L(1, "'one-line docstring'"), L(1, 'x = 1')]
  P['triple'] = [L(1, "s = '''text"), R('under'), R('\t tab-led'), R("   end''' + 'z'")]
  P['triple-backslash'] = [L(1, 's = """abc\\'), R('def\\'), R('  ghi"""')]
  P['single-backslash'] = [L(1, "s = 'abc\\"), R("def'")]
  P['raw'] = [L(1, "r = r'\\d+\\n' + R'\\\\'"), L(1, 'rb = rb"\\x00\\w" + Rb\'q\'')]
  P['raw-triple'] = [L(1, 'r = r"""raw'), R('  \\d under'), R('"""')]
  P['bytes'] = [L(1, "b = b'by\\ntes' + b'''multi"), R("line'''")]
  P['fstring'] = [L(1, 'x = 5'), L(1, 'f = f"{x!r:>{x}} {x + 1} {{literal}} {\'q\'}"')]
  P['fstring-nested'] = [L(1, "d = {'k': 1}"), L(1, 'f = f"{d["k"]} {f"{d}"}"')]
  P['fstring-triple'] = [L(1, 'x = 5'), L(1, "f = f'''multi"), R('{x}'), R("  line {x:>4}'''")]
  P['fstring-multiline-field'] = [L(1, 'x = 5'), L(1, 'f = f"""{'), R('x'), R('   + 1}"""')]
  P['fstring-backslash'] = [L(1, 'x = 5'), L(1, 'f = f"""a{x}\\'), R('b"""')]
  P['rfstring'] = [L(1, 'x = 5'), L(1, "f = rf'\\d{x}' + fr'\\w'")]
  P['continuation'] = [L(1, 'x = 1 + \\'), L(3, '2')]
  P['continuation-under'] = [L(1, 'x = 1 + \\'), R('2')]
  P['continuation-cond'] = [L(1, 'if a and \\'), L(2, 'a:'), L(2, 'x = 1')]
  P['continuation-chain'] = [L(1, 'x = a \\'), L(2, '+ 1 \\'), R(' + 2')]
  P['continuation-keyword'] = [L(1, 'assert \\'), L(2, 'a is not None, \\'), L(2, "'m'")]
  P['string-hash'] = [L(1, "s = '# not a comment \\' \" ' + \"it's # neither\"")]
  P['semicolon'] = [L(1, 'x = 1; y = 2;'), L(1, 'z = x; del z')]
  P['paren-multiline'] = [L(1, 'x = (1 +'), R('2 +  # under-indented'), L(5, '3)')]
  P['list-multiline'] = [L(1, 'x = ['), L(2, '1,  # one'), R('2,'), L(1, ']')]
  P['call-multiline'] = [L(1, 'x = dict(k=1,'), L(4, 'j="""'), R('s""")'), L(1, 'y = 0')]
  P['if-else'] = [L(1, 'if a:'), L(2, 'y = 1'), L(1, 'elif b:'), L(2, 'y = 3'), L(1, 'else:'), L(2, 'y = 2')]
  P['loop'] = [L(1, 'for i in range(2):'), L(2, 'while i:'), L(3, 'i -= 1'), L(2, 'else:'), L(3, 'pass')]
  P['try'] = [L(1, 'try:'), L(2, 'y = 1'), L(1, 'except (KeyError, ValueError) as e:'), L(2, 'raise'), L(1, 'finally:'), L(2, 'y = 2')]
  P['with'] = [L(1, 'with CM() as w, CM():'), L(2, 'y = w')]
  P['nested-def'] = [L(1, 'def inner(q, *r):'), L(2, '"""inner doc'), R('under'), L(2, '"""'), L(2, 'return q'), L(1, 'y = inner(1)')]
  P['nested-decorated'] = [L(1, '@deco'), L(1, 'def inner(q):'), L(2, 'return q')]
  P['nested-class'] = [L(1, 'class Inner(object):'), L(2, 'z = 1'), L(2, 'def m(self):'), L(3, 'return self.z')]
  P['nested-lambda'] = [L(1, 'g = lambda q, r=2: (q,'), R('r)'), L(1, 'h = (lambda: 0), (lambda: 1)')]
  P['blank-lines'] = [L(1, 'x = 1'), R(''), R('   '), R('\t'), L(1, 'y = 2')]
  P['global'] = [L(1, 'global REG'), L(1, 'x = REG')]
  P['match'] = [L(1, 'match a:'), L(2, 'case 1 | 2:'), L(3, 'x = 1'), L(2, 'case [p, *q] if p:'), L(3, 'x = 2'), L(2, 'case _:'), L(3, 'x = 3')]
  P['walrus'] = [L(1, 'if (n := a) is not None:'), L(2, 'x = n')]
  P['unicode'] = [L(1, "s = 'héllo ✓'  # ümläut"), L(1, "t = s + '\\u00e9'")]
  P['return-multiline'] = [L(1, 'return (a,'), R(' 1)')]
  P['ellipsis'] = [L(1, '...')]
  P['pass'] = [L(1, 'pass')]
  P['lambda-default'] = [L(1, 'def inner(q, f=lambda v: v + 1):'), L(2, 'return f(q)')]
  P['comprehension'] = [L(1, 'x = [i for i in range(3)'), L(3, 'if i  # filter'), R(']')]
  P['star-expr'] = [L(1, 'x, *y = 1, 2, 3'), L(1, 'z = {**{}, "k": [*y]}')]
  P['annotated-assign'] = [L(1, "x: 'int' = 1"), L(1, 'y: int')]
  P['string-concat-lines'] = [L(1, "s = ('a'  # first"), L(3, "'b' \"c\""), R(')')]
  out = {}
  for k, v in P.items():
    out[k] = (v, False)
  # D11 triggers: textual unfolding is wrong here
  out['d11-comment-backslash'] = ([L(1, 'x = 1  # comment ending in a backslash \\'), L(1, 'y = 2'), L(1, 'return y')], True)
  out['d11-comment-backslash-own'] = ([L(1, '# own-line comment ending in a backslash \\'), L(1, 'y = 2')], True)
  out['d11-raw-backslash-newline'] = ([L(1, 'r = r"""a\\'), R('b"""'), L(1, 'return r')], True)
  out['d11-escaped-backslash-newline'] = ([L(1, 's = """a\\\\'), R('b"""'), L(1, 'return s')], True)
  out['d11-continuation-glues-tokens'] = ([L(1, 'x = a or\\'), R('b'), L(1, 'return x')], True)
  return out


BODY = body_pool()
TAILS = {
    'next': [L(0, 'after_%d = 1')],
    'blank': [R(''), R('')],
    'comment-lower': [R('# comment at column 0 after the function')],
    'comment-same': [L(0, '# comment at the def level'), L(0, 'after_%d = 2')],
    'none': [],
}
ONELINE_SIGS = ('oneline', 'oneline-semi', 'oneline-continued')


def def_site(spec):
  """spec: dict(name, deco, sig, body=[names], tail) -> (items, registrations)"""
  name = spec['name']
  items = list(deco_pool(name)[spec['deco']]) + list(sig_pool(name)[spec['sig']])
  if spec['sig'] not in ONELINE_SIGS:
    for b in spec['body']:
      items += BODY[b][0]
  items.append(L(0, "REG.append(('%s', %s))" % (spec['tag'], name)))
  for it in TAILS[spec['tail']]:
    items.append((it[0], it[1], it[2] % spec['n']) if it[0] == 'L' and '%d' in it[2] else it)
  return items


# ------------------------------------------------------------------------------------ lambda sites

def lambda_pool(v, k, tag='t'):
  """name -> (items, [accessor expressions], d10 flag); `v` is the site's variable, constants k+i are unique."""
  P = {}
  P['single'] = ([L(0, '%s = lambda x: x + %d' % (v, k))], [v])
  P['single-noargs'] = ([L(0, '%s = lambda: %d' % (v, k))], [v])
  P['single-paren-comment'] = ([L(0, '%s = (lambda x, *y, k=1, **z: (x, y, k, z, %d))  # lambda a: a' % (v, k))], [v])
  P['string-lambda'] = ([L(0, "%s = lambda s: s + 'lambda t: %d' + \"(lambda: 0)\"" % (v, k))], [v])
  P['two-different'] = ([L(0, '%s = (lambda x: x + %d, lambda y: y + %d)' % (v, k, k + 1))], [v + '[0]', v + '[1]'])
  P['three-different'] = ([L(0, '%s = (lambda x: x + %d), (lambda x, y: x + %d), (lambda *x: %d)' % (v, k, k + 1, k + 2))],
                          [v + '[0]', v + '[1]', v + '[2]'])
  P['two-same'] = ([L(0, '%s = (lambda x: x + %d, lambda x: x + %d)' % (v, k, k + 1))], [v + '[0]', v + '[1]'])
  P['two-identical'] = ([L(0, '%s = (lambda x: x + %d, lambda x: x + %d)' % (v, k, k))], [v + '[0]', v + '[1]'])
  P['two-defaults'] = ([L(0, '%s = (lambda x=1: x + %d, lambda x=2: x + %d)' % (v, k, k + 1))], [v + '[0]', v + '[1]'])
  P['two-kwonly'] = ([L(0, '%s = (lambda x, y: %d, lambda x, *, y: %d)' % (v, k, k + 1))], [v + '[0]', v + '[1]'])
  P['two-vararg'] = ([L(0, '%s = (lambda *x: %d, lambda x: %d, lambda **x: %d)' % (v, k, k + 1, k + 2))], [v + '[0]', v + '[1]', v + '[2]'])
  P['nested'] = ([L(0, '%s = lambda x: (lambda y: x + y + %d)' % (v, k))], [v, v + '(0)'])
  P['nested-same'] = ([L(0, '%s = lambda x: lambda x: x + %d' % (v, k))], [v, v + '(0)'])
  P['nested-three'] = ([L(0, '%s = lambda x: lambda y: lambda z: x + y + z + %d' % (v, k))], [v, v + '(0)', v + '(0)(0)'])
  P['nested-default'] = ([L(0, '%s = lambda x, f=lambda y: y + %d: f(x) + %d' % (v, k, k + 1))], [v, v + '.__defaults__[0]'])
  P['multiline'] = ([L(0, '%s = (lambda x:' % v), L(3, 'x + %d)' % k)], [v])
  P['multiline-under'] = ([L(0, '%s = (lambda x:' % v), R('x + %d)' % k)], [v])
  P['multiline-args'] = ([L(0, '%s = (lambda a,' % v), L(4, 'b=2: a +'), L(2, 'b + %d)' % k)], [v])
  P['multiline-backslash'] = ([L(0, '%s = lambda x: x + \\' % v), L(2, '%d' % k)], [v])
  P['multiline-two'] = ([L(0, '%s = (lambda x: x +' % v), L(2, '%d, lambda y: y + %d)' % (k, k + 1))], [v + '[0]', v + '[1]'])
  P['multiline-two-same'] = ([L(0, '%s = (lambda x: x +' % v), L(2, '%d, lambda x: x + %d)' % (k, k + 1))], [v + '[0]', v + '[1]'])
  P['multiline-each'] = ([L(0, '%s = (lambda x:' % v), L(2, 'x + %d,' % k), L(1, 'lambda x:'), L(2, 'x + %d)' % (k + 1))], [v + '[0]', v + '[1]'])
  P['call-args'] = ([L(0, '%s = keep(lambda x: x + %d,' % (v, k)), L(3, 'lambda x: x + %d)  # second line' % (k + 1))], [v + '[0]', v + '[1]'])
  P['dict'] = ([L(0, "%s = {'a': lambda x: %d, 'b': lambda y: %d}" % (v, k, k + 1))], [v + "['a']", v + "['b']"])
  P['comprehension'] = ([L(0, '%s = [lambda x, i=i: x + i + %d for i in range(2)]' % (v, k))], [v + '[0]', v + '[1]'])
  P['def-default'] = ([L(0, 'def %s(a, f=lambda q: q + %d): return f' % (v, k))], [v + '.__defaults__[0]'])
  P['def-default-multiline'] = ([L(0, 'def %s(a,' % v), L(3, 'f=lambda q: q + %d,' % k), L(3, 'g=lambda q: q + %d):' % (k + 1)), L(1, 'return f')],
                                [v + '.__defaults__[0]', v + '.__defaults__[1]'])
  P['after-semicolon'] = ([L(0, '%s_0 = lambda x: %d; %s = lambda y: %d' % (v, k, v, k + 1))], [v + '_0', v])
  P['decorator-arg'] = ([L(0, "@deco_args(f=regl('%s#9', lambda q: q + %d))" % (tag, k)), L(0, 'def %s(): return %s' % (v, k + 1))], [])
  P['in-def-body'] = ([L(0, 'def %s(a):' % v), L(1, '# comment'), L(1, 'return keep(lambda x: x + a + %d, lambda: a)' % k)], [v + '(0)[0]', v + '(0)[1]'])
  P['conditional'] = ([L(0, '%s = (lambda x: x + %d) if REG is not None else (lambda x: x + %d)' % (v, k, k + 1))], [v])
  P['lambda-tabs'] = ([L(0, '%s = lambda\tx ,\ty = 1 :\t( x ,y , %d )' % (v, k))], [v])
  out = {}
  for key, (items, acc) in P.items():
    out[key] = (items, acc, False)
  # D10 triggers: positional-only parameters
  out['d10-posonly-vs-plain'] = ([L(0, '%s = (lambda x, /: x + %d), (lambda x: x + %d)' % (v, k, k + 1))], [v + '[0]', v + '[1]'], True)
  out['d10-posonly-mixed'] = ([L(0, '%s = (lambda x, /, y: %d), (lambda x, y: %d)' % (v, k, k + 1))], [v + '[0]', v + '[1]'], True)
  return out


LAMBDA_KEYS = sorted(k for k in lambda_pool('V', 0) if not k.startswith('d10-'))
D10_KEYS = sorted(k for k in lambda_pool('V', 0) if k.startswith('d10-'))
BODY_KEYS = sorted(k for k, v in BODY.items() if not v[1])
D11_KEYS = sorted(k for k, v in BODY.items() if v[1])
DECO_KEYS = sorted(deco_pool('x'))
SIG_KEYS = sorted(sig_pool('x'))
TAIL_KEYS = sorted(TAILS)


def lambda_site(spec):
  items, acc, _ = lambda_pool(spec['name'], spec['k'], spec['tag'])[spec['lam']]
  items = list(items)
  for i, a in enumerate(acc):
    items.append(L(0, "REG.append(('%s#%d', %s))" % (spec['tag'], i, a)))
  return items


# ------------------------------------------------------------------------------------ modules

def site_items(spec):
  return def_site(spec) if spec['type'] == 'def' else lambda_site(spec)


def module_source(specs, unit, final_newline=True):
  lines = HEADER.split('\n')
  for spec in specs:
    lines += render_site(site_items(spec), spec['ctx'], unit, spec['n'])
  src = '\n'.join(lines)
  return src + ('\n' if final_newline else '')


def random_specs(rnd, count, start=0):
  specs = []
  for i in range(count):
    n = start + i
    depth = rnd.choice([0, 0, 1, 1, 2, 3])
    if rnd.random() < 0.6:
      body = rnd.sample(BODY_KEYS, rnd.randint(1, 3))
      spec = dict(type='def', name='fn_%d' % n, deco=rnd.choice(DECO_KEYS if rnd.random() < 0.5 else ['none']),
                  sig=rnd.choice(SIG_KEYS), body=body, tail=rnd.choice(TAIL_KEYS))
    else:
      spec = dict(type='lambda', name='V_%d' % n, lam=rnd.choice(LAMBDA_KEYS), k=1000 + 10 * n)
    spec['n'] = n
    spec['tag'] = 's%d' % n
    spec['ctx'] = [rnd.choice(CONTEXTS) for _ in range(depth)]
    specs.append(spec)
  return specs


def exhaustive_specs():
  """Every pool entry once at module level and once nested (class > def), in isolation-friendly small modules."""
  specs = []
  n = 0
  for ctx in ([], ['class'], ['def', 'for'], ['with', 'class', 'try']):
    for b in BODY_KEYS:
      specs.append(dict(type='def', name='fn_%d' % n, deco='none', sig='simple', body=[b], tail='next', n=n, tag='s%d' % n, ctx=list(ctx)))
      n += 1
    for s in SIG_KEYS:
      specs.append(dict(type='def', name='fn_%d' % n, deco='none', sig=s, body=['assign'], tail='blank', n=n, tag='s%d' % n, ctx=list(ctx)))
      n += 1
    for d in DECO_KEYS:
      specs.append(dict(type='def', name='fn_%d' % n, deco=d, sig='simple', body=['docstring'], tail='comment-lower', n=n, tag='s%d' % n, ctx=list(ctx)))
      n += 1
    for lam in LAMBDA_KEYS:
      specs.append(dict(type='lambda', name='V_%d' % n, lam=lam, k=1000 + 10 * n, n=n, tag='s%d' % n, ctx=list(ctx)))
      n += 1
  return specs


# ------------------------------------------------------------------------------------ oracle

def dump(node):
  """ast.dump(node, include_attributes=False) restricted to grammar fields (malt annotations are skipped)."""
  if isinstance(node, ast.AST):
    fields = [(f, dump(getattr(node, f))) for f in node._fields if not f.startswith('__') and hasattr(node, f)]
    return '%s(%s)' % (type(node).__name__, ', '.join('%s=%s' % fv for fv in fields))
  if isinstance(node, list):
    return '[%s]' % ', '.join(dump(x) for x in node)
  return repr(node)


def locate_def(tree, fn):
  line = fn.__code__.co_firstlineno
  found = []
  for node in ast.walk(tree):
    if isinstance(node, (ast.FunctionDef, ast.AsyncFunctionDef)):
      first = min([node.lineno] + [d.lineno for d in node.decorator_list])
      if first == line and node.name == fn.__code__.co_name:
        found.append(node)
  return found[0] if len(found) == 1 else None


def locate_lambda(tree, fn):
  pos = [p for p in fn.__code__.co_positions() if p[0] is not None and p[2] is not None and (p[0], p[2]) != (p[1], p[3])]
  if not pos:
    return _locate_constant_lambda(tree, fn.__code__)
  lo = min((p[0], p[2]) for p in pos)
  hi = max((p[1], p[3]) for p in pos)
  best = None
  for node in ast.walk(tree):
    if isinstance(node, ast.Lambda):
      b = node.body
      if (b.lineno, b.col_offset) <= lo and hi <= (b.end_lineno, b.end_col_offset):
        if best is None or _inside(node, best):       # candidates are nested in one another: keep the innermost
          best = node
  return best


def _code_params(code):
  n, k, names = code.co_argcount, code.co_kwonlyargcount, code.co_varnames
  i = n + k
  var = names[i] if code.co_flags & 0x04 else None
  i += 1 if var else 0
  varkw = names[i] if code.co_flags & 0x08 else None
  return (list(names[:code.co_posonlyargcount]), list(names[code.co_posonlyargcount:n]), var, list(names[n:n + k]), varkw)


def _node_params(node):
  a = node.args
  return ([x.arg for x in a.posonlyargs], [x.arg for x in a.args], a.vararg.arg if a.vararg else None,
          [x.arg for x in a.kwonlyargs], a.kwarg.arg if a.kwarg else None)


def _locate_constant_lambda(tree, code):
  """CPython 3.12 records no column for `lambda ...: <constant>` (a lone RETURN_CONST): fall back to the Lambda
  starting on co_firstlineno with exactly the code object's parameters (all kinds) whose body is the returned
  constant; several such nodes are acceptable only if they are structurally identical."""
  found = []
  for node in ast.walk(tree):
    if (isinstance(node, ast.Lambda) and node.lineno == code.co_firstlineno and isinstance(node.body, ast.Constant)
        and any(type(c) is type(node.body.value) and c == node.body.value for c in code.co_consts)
        and _node_params(node) == _code_params(code)):
      found.append(node)
  if found and all(dump(n) == dump(found[0]) for n in found):
    return found[0]
  return None


def _inside(a, b):
  return ((b.lineno, b.col_offset) <= (a.lineno, a.col_offset) and (a.end_lineno, a.end_col_offset) <= (b.end_lineno, b.end_col_offset))


def judge_function(tree, fn):
  """-> (status, detail); status in ok | unsupported | mismatch | wrong-lambda | error | oracle-gap"""
  is_lambda = fn.__code__.co_name == '<lambda>'
  want = locate_lambda(tree, fn) if is_lambda else locate_def(tree, fn)
  if want is None:
    return 'oracle-gap', 'could not locate the definition in the module AST'
  try:
    node, _ = parser.parse_entity(fn, future_features=())
  except errors.UnsupportedLanguageElementError as e:
    if is_lambda:
      return 'unsupported', str(e)[:100]
    return 'error', 'UnsupportedLanguageElementError: %s' % str(e)[:200]
  except Exception as e:      # pylint:disable=broad-except
    return 'error', '%s: %s' % (type(e).__name__, str(e)[:200])
  got, exp = dump(node), dump(want)
  if got == exp:
    return 'ok', ''
  if is_lambda:
    return 'wrong-lambda', 'recovered %s, the object was created by %s' % (_unparse(node), _unparse(want))
  # first difference, for the report
  i = 0
  while i < min(len(got), len(exp)) and got[i] == exp[i]:
    i += 1
  return 'mismatch', 'trees differ at ...%s... (recovered) vs ...%s... (module)' % (got[max(0, i - 40):i + 60], exp[max(0, i - 40):i + 60])


def _unparse(node):
  try:
    return ast.unparse(node)
  except Exception:      # pylint:disable=broad-except
    return '<%s>' % type(node).__name__


_SEQ = [0]


def run_module(specs, unit, final_newline=True):
  """-> list of (tag, status, detail) for every registered function; or a single ('<module>', 'gen-error', ...)"""
  _SEQ[0] += 1
  name = 'vp_c15_%d_%d' % (os.getpid(), _SEQ[0])
  src = module_source(specs, unit, final_newline)
  try:
    mod = harness.load_source(src, name)
  except Exception as e:      # pylint:disable=broad-except
    harness.unload(name)
    return src, [('<module>', 'gen-error', '%s: %s' % (type(e).__name__, str(e)[:200]))]
  try:
    tree = ast.parse(src)
    out = []
    for tag, fn in mod.REG:
      if not hasattr(fn, '__code__'):
        continue
      status, detail = judge_function(tree, fn)
      out.append((tag, status, detail))
    return src, out
  finally:
    harness.unload(name)


def spec_of(specs, tag):
  base = tag.split('#')[0]
  if base.startswith('wrapped:'):
    nm = base[len('wrapped:'):]
    for s in specs:
      if s['name'] == nm:
        return s
    return None
  for s in specs:
    if s['tag'] == base:
      return s
  return None


def minimise(spec, unit, tag, status):
  """Smallest single-site module showing the same status for the same object: drop contexts, decorators,
  signature layout, tail, body statements one at a time."""
  def fails(sp, u=unit):
    _, res = run_module([sp], u)
    return any(t == tag and st == status for t, st, _ in res)
  cur = dict(spec)
  if not fails(cur):
    return spec, unit, False
  if fails(cur, '  '):
    unit = '  '
  changed = True
  while changed:
    changed = False
    cands = []
    if cur['ctx']:
      cands.append(dict(cur, ctx=[]))
      cands += [dict(cur, ctx=cur['ctx'][:i] + cur['ctx'][i + 1:]) for i in range(len(cur['ctx']))]
    if cur['type'] == 'def':
      if cur['deco'] != 'none' and not tag.startswith('wrapped:'):
        cands.append(dict(cur, deco='none'))
      if cur['sig'] != 'simple':
        cands.append(dict(cur, sig='simple'))
      if cur['tail'] != 'none':
        cands.append(dict(cur, tail='none'))
      if len(cur['body']) > 1:
        cands += [dict(cur, body=cur['body'][:i] + cur['body'][i + 1:]) for i in range(len(cur['body']))]
    for c in cands:
      if fails(c, unit):
        cur = c
        changed = True
        break
  return cur, unit, True


def describe(spec):
  if spec['type'] == 'def':
    return 'def[deco=%s sig=%s body=%s tail=%s ctx=%s]' % (spec['deco'], spec['sig'], '+'.join(spec['body']), spec['tail'], '>'.join(spec['ctx']) or 'module')
  return 'lambda[%s ctx=%s]' % (spec['lam'], '>'.join(spec['ctx']) or 'module')


def sig_of(spec, status):
  if spec['type'] == 'def':
    parts = []
    if spec['deco'] != 'none':
      parts.append('deco:' + spec['deco'])
    if spec['sig'] != 'simple':
      parts.append('sig:' + spec['sig'])
    parts += ['body:' + b for b in spec['body']] if spec['sig'] not in ONELINE_SIGS else []
    if spec['tail'] != 'none':
      parts.append('tail:' + spec['tail'])
    if spec['ctx']:
      parts.append('in:' + '>'.join(spec['ctx']))
    return '|'.join(parts) or 'plain-def'
  return 'lambda:' + spec['lam'] + ('|in:' + '>'.join(spec['ctx']) if spec['ctx'] else '')


KIND = {'mismatch': 'source-mismatch', 'wrong-lambda': 'wrong-lambda', 'error': 'recovery-error', 'gen-error': 'generator-bug',
        'oracle-gap': 'oracle-gap'}


def check_module(item):
  """One generated module -> counters + raw failures (spec, unit, tag, status, detail)."""
  mode, seed, idx = item
  rnd = random.Random(seed * 1000003 + idx)
  if mode == 'exhaustive':
    allspecs = exhaustive_specs()
    per = 12
    specs = allspecs[idx * per:(idx + 1) * per]
    unit = UNITS[idx % len(UNITS)]
    final_newline = True
  else:
    specs = random_specs(rnd, rnd.randint(3, 8), start=0)
    unit = rnd.choice(UNITS)
    final_newline = rnd.random() < 0.8
  src, res = run_module(specs, unit, final_newline)
  out = dict(idx=idx, mode=mode, cases=[], failures=[], sample=None)
  for tag, status, detail in res:
    sp = spec_of(specs, tag)
    h = hashlib.sha1(('%s|%r|%s' % (describe(sp) if sp else tag, unit, tag.split('#')[-1] if '#' in tag else '')).encode()).hexdigest()
    out['cases'].append((h, status, sp['type'] if sp else '?', sp['lam'] if sp and sp['type'] == 'lambda' else None))
    if status in KIND:
      out['failures'].append(dict(spec=sp, unit=unit, tag=tag, status=status, detail=detail, src=src if sp is None else None))
  if mode == 'random' and idx % 97 == 5:
    out['sample'] = src[len(HEADER):][:1200]
  return out


# ------------------------------------------------------------------------------------ known witnesses

def witness_cases():
  w = []
  n = 0
  for key in D11_KEYS:
    for ctx in ([], ['class']):
      w.append(('known-D11', dict(type='def', name='fn_%d' % n, deco='none', sig='simple', body=[key], tail='none', n=n, tag='s%d' % n, ctx=list(ctx))))
      n += 1
  for key in D10_KEYS:
    w.append(('known-D10', dict(type='lambda', name='V_%d' % n, lam=key, k=1000 + 10 * n, n=n, tag='s%d' % n, ctx=[])))
    n += 1
  return w


def run_witnesses(_):
  out = []
  evaluated = 0
  for kind, spec in witness_cases():
    src, res = run_module([spec], '  ')
    for tag, status, detail in res:
      evaluated += 1
      if status in ('mismatch', 'wrong-lambda', 'error'):
        out.append(dict(kind=kind, sig=sig_of(spec, status) + ('#' + tag.split('#')[1] if '#' in tag else ''),
                        what='%s: %s' % (KIND[status], detail), program=src[len(HEADER):]))
  # one report per (kind, trigger)
  seen, uniq = set(), []
  for f in out:
    k = (f['kind'], f['sig'].split('|in:')[0])
    if k not in seen:
      seen.add(k)
      uniq.append(f)
  return evaluated, uniq


def main():
  ap = argparse.ArgumentParser()
  ap.add_argument('seed', type=int)
  ap.add_argument('tier')
  ap.add_argument('--n', type=int, default=None, help='number of random modules')
  ap.add_argument('--maxfail', type=int, default=10)
  ap.add_argument('--no-witnesses', action='store_true')
  a = ap.parse_args()
  n = a.n if a.n is not None else (120000 if a.tier == 'thorough' else 8000)
  root = tempfile.mkdtemp(prefix='verif_c15_')
  tempfile.tempdir = root
  os.environ['TMPDIR'] = root
  t0 = time.time()
  try:
    nex = (len(exhaustive_specs()) + 11) // 12
    items = [('exhaustive', a.seed, i) for i in range(nex)] + [('random', a.seed, i) for i in range(n)]
    evaluated = 0
    seen = set()
    counts = {}
    raw = []
    samples = []
    lam_table = {}
    for r in harness.pool_map(check_module, items, chunksize=8):
      for h, status, tp, lam in r['cases']:
        evaluated += 1
        if lam:
          lam_table.setdefault(lam, {}).setdefault(status, 0)
          lam_table[lam][status] += 1
        counts[tp + ':' + status] = counts.get(tp + ':' + status, 0) + 1
        if status in ('ok', 'mismatch', 'wrong-lambda'):
          seen.add(h)
      raw += r['failures']
      if r['sample'] and len(samples) < 2:
        samples.append(r['sample'])
    # group raw failures, minimise one representative per group in this process
    failures = []
    groups = {}
    for f in raw:
      key = (f['status'], describe(f['spec']).split(' ctx=')[0] if f['spec'] else f['detail'][:60])
      groups.setdefault(key, []).append(f)
    done = set()
    deadline = time.time() + (15 if a.tier == 'quick' else 120)
    for key in sorted(groups, key=lambda k: (k[0], len(k[1]))):
      f = groups[key][0]
      if f['spec'] is None:
        failures.append(dict(kind=KIND[f['status']], sig=f['tag'], what=f['detail'], program=(f['src'] or '')[len(HEADER):][:3000]))
        continue
      spec, unit = f['spec'], f['unit']
      if time.time() < deadline:
        spec, unit, _ = minimise(f['spec'], f['unit'], f['tag'], f['status'])
      sig = sig_of(spec, f['status']) + ('#' + f['tag'].split('#')[1] if '#' in f['tag'] else '')
      if (f['status'], sig) in done:
        continue
      done.add((f['status'], sig))
      src, res = run_module([spec], unit)
      detail = [d for t, st, d in res if t == f['tag'] and st == f['status']]
      failures.append(dict(kind=KIND[f['status']], sig=sig, what=(detail[0] if detail else f['detail']),
                           program=src[len(HEADER):], indentation_unit=repr(unit), occurrences=len(groups[key]),
                           original=describe(f['spec'])))
    failures.sort(key=lambda f: len(f['program']))
    total_groups = len(failures)
    failures = failures[:a.maxfail]
    if not a.no_witnesses:
      for wev, wf in harness.pool_map(run_witnesses, [0], procs=1):
        evaluated += wev
        failures += wf
    harness.emit(dict(
        evaluated=evaluated, distinct_nontrivial=len(seen), modules=len(items), outcome_counts=counts,
        distinct_failure_groups=total_groups, lambda_outcomes=lam_table, seconds=round(time.time() - t0, 1),
        rule=('every pool entry of the layout grammar (%d body statements, %d signatures, %d decorator layouts, %d lambda '
              'statements) in 4 nesting stacks, plus seeded random modules of 3-8 sites with nesting depth <= 3 in '
              'class/def/for/while/with/try/finally/except/if/else, indentation unit 1/2/4/8 spaces or tab, with or without a '
              'final newline; every registered function object is recovered with parse_entity and compared with the module AST '
              'node found by co_firstlineno / co_positions; non-trivial = a node was recovered and compared (lambdas answered by '
              'the explicit UnsupportedLanguageElementError are counted as lambda:unsupported and are allowed)'
              % (len(BODY_KEYS), len(SIG_KEYS), len(DECO_KEYS), len(LAMBDA_KEYS))),
        samples=samples, failures=failures))
  finally:
    shutil.rmtree(root, ignore_errors=True)


if __name__ == '__main__':
  main()
