"""C12 bounded stand-in: an exception raised in converted code reaches the caller of the
`malt.convert` wrapper with the original type (when that type takes a plain message and has no
initialiser of its own), the original message and the original source location; every source-map
entry of every conversion sends a generated line to the original line it was generated from.

usage: c12_errors.py <seed> <tier> [--n N] [--maxfail K] [--no-minimise]

Program space (generated here, the C01/progen class restricted to one statement per source line):
a module with `f(a)` and a callee chain `k1..kn` (n <= 4).  Every unit is a random block structure
(if / elif / else, while, for, try-finally, try-except, try-else, with, nested def, guarded
return / break / continue, simple statements, calls of converted and unconverted helpers) with exactly
ONE statement that fails, sitting on a directed path: unit i reaches a call of unit i+1 (plain call,
keyword call, nested in an argument, `functools.partial`, or through a builtin that calls back: map /
sorted / max / filter), the last unit reaches the failing statement.  Units are plain functions
(converted recursively), functions decorated with `malt.experimental.do_not_convert`, or plain
functions called back by a builtin (both of the latter run unconverted, and so does everything below).
`c(k)` is a decision table keyed by the literal k, `t(k)` returns k; every literal >= 100 is unique
to its source line and serves as the statement's fingerprint in the generated code.

Oracle = the unconverted run of the same function object (traceback.extract_tb).
"""
import argparse
import ast
import hashlib
import os
import random
import re
import shutil
import signal
import sys
import tempfile
import time
import traceback

sys.path.insert(0, os.path.dirname(os.path.abspath(__file__)))
import harness

import malt
from malt.impl import api

# the reading of "takes a plain message and defines no initialiser of its own" that the statement is
# checked against (stated here, NOT imported from the code under test)
KNOWN_STRING_CONSTRUCTOR_ERRORS = (AssertionError, AttributeError, NameError, NotImplementedError, RuntimeError,
                                   StopIteration, TypeError, UnboundLocalError, ValueError)

PRELUDE = '''import functools
import malt

G = [0]
t = None
c = None

class E1(Exception):
  pass

class E2(Exception):
  def __init__(self, a, b):
    super().__init__('%s|%s' % (a, b))
    self.a = a

class E3(Exception):
  def __init__(self, msg):
    Exception.__init__(self, msg)
    self.extra = 1

class E4(ValueError):
  pass

class E5(E1):
  pass

class CM(object):
  def __init__(self, k):
    self.k = k
  def __enter__(self):
    return self.k
  def __exit__(self, *exc):
    return False

def h1(x):
  '__UNIQ__'
  return x + 1

@malt.experimental.do_not_convert
def u0(x):
  return x + 2
'''
# '__UNIQ__' is replaced by a fresh token at every load: the conversion cache is keyed by code-object EQUALITY,
# which ignores co_filename, so an identical function at the same line of another file would silently reuse
# the other file's conversion and source map (see the explicit witness `cross_file_cache_witness`).

# ------------------------------------------------------------------------------- failing statements
# simple (one line) kinds; %(m)d is the line's marker
SIMPLE_FAILS = {
    'raise-ValueError': "raise ValueError('bad %%d' %% t(%(m)d))",
    'raise-multiline': "raise ValueError('first %%d\\nsecond line\\n  third' %% t(%(m)d))",
    'raise-RuntimeError': "raise RuntimeError('rt %%d' %% t(%(m)d))",
    'raise-KeyError': "raise KeyError('k%%d' %% t(%(m)d))",
    'raise-IndexError': "raise IndexError('ix %%d' %% t(%(m)d))",
    'raise-OSError': "raise OSError('os %%d' %% t(%(m)d))",
    'raise-E1': "raise E1('e1 %%d' %% t(%(m)d))",
    'raise-E1-noarg': "raise E1(*[][t(%(m)d):])",
    'raise-E2-ctor': "raise E2(t(%(m)d), 'two')",
    'raise-E3-ctor': "raise E3('e3 %%d' %% t(%(m)d))",
    'raise-E4-sub': "raise E4('e4 %%d' %% t(%(m)d))",
    'raise-E5-sub': "raise E5('e5 %%d' %% t(%(m)d))",
    'int': "x = int('q%%d' %% t(%(m)d))",
    'exprstmt': "int('q%%d' %% t(%(m)d))",
    'augassign': "x += int('q%%d' %% t(%(m)d))",
    'return': "return int('q%%d' %% t(%(m)d))",
    'callarg': "x = h1(int('q%%d' %% t(%(m)d)))",
    'comp': "x = [int(q) for q in ['q%%d' %% t(%(m)d)]]",
    'key': "x = {}[t(%(m)d)]",
    'del-key': "del {}[t(%(m)d)]",
    'index': "x = [0][t(%(m)d)]",
    'store-index': "[0][t(%(m)d)] = 1",
    'zerodiv': "x = t(%(m)d) // 0",
    'type': "x = t(%(m)d) + 'a'",
    'noncallable': "x = t(%(m)d)()",
    'attr': "x = t(%(m)d).nope",
    'len': "x = len(t(%(m)d))",
    'name': "x = t(%(m)d) + undefined_name_q",
    'assert': "assert t(%(m)d) < 0, 'assert %%d' %% t(%(m)d)",
    'stopiter': "x = next(iter([]), *[][t(%(m)d):])",
    'method': "x = [1].index(t(%(m)d))",
    'unpack': "x, y = [t(%(m)d)]",
}
# header kinds: the failing expression sits in the header line of a compound statement
HEADER_FAILS = {
    'if-test': "if int('q%%d' %% t(%(m)d)):",
    'while-test': "while int('q%%d' %% t(%(m)d)):",
    'for-iter': "for i_%(u)d in t(%(m)d):",
    'for-iter-call': "for i_%(u)d in range(int('q%%d' %% t(%(m)d))):",
    'with-ctx': "with CM(int('q%%d' %% t(%(m)d))):",
    'with-noctx': "with t(%(m)d):",
}
FAIL_KINDS = sorted(SIMPLE_FAILS) + sorted(HEADER_FAILS)

CALL_STYLES = {
    'conv': ["x = k%(n)d(x + t(%(m)d))", "k%(n)d(t(%(m)d))", "return k%(n)d(t(%(m)d))", "x = h1(k%(n)d(t(%(m)d)))",
             "y = k%(n)d(p=t(%(m)d))", "x = functools.partial(k%(n)d)(t(%(m)d))"],
    'dnc': ["x = k%(n)d(x + t(%(m)d))", "k%(n)d(t(%(m)d))", "return k%(n)d(t(%(m)d))", "y = k%(n)d(p=t(%(m)d))"],
    'cb': ["x = list(map(k%(n)d, [t(%(m)d)]))[0]", "x = sorted([t(%(m)d), 2], key=k%(n)d)[0]",
           "x = max([t(%(m)d), 2], key=k%(n)d)", "x = list(filter(k%(n)d, [t(%(m)d)]))",
           "return any(map(k%(n)d, [t(%(m)d)]))"],
}

VARS = ['x', 'y', 'z']
PATH_KINDS = ['if-then', 'if-else', 'elif', 'while', 'for', 'try-finally-body', 'try-finally-final',
              'try-except-body', 'try-else', 'with', 'def']


class Gen(object):
  """One module: f + callee chain, exactly one failing statement, a directed path to it."""

  def __init__(self, rnd, max_path_depth=3):
    self.rnd = rnd
    self.n = 100
    self.u = 0
    self.true = set()       # markers whose decision c(k) is True
    self.max_path_depth = max_path_depth
    self.ctx = []           # constructs around the failing statement (for the signature)
    self.nested_owner = {}  # nested def name -> unit name

  def mk(self):
    self.n += 1
    return self.n

  def uid(self):
    self.u += 1
    return self.u

  def cdec(self, value=None):
    m = self.mk()
    if value is None:
      value = self.rnd.random() < 0.5
    if value:
      self.true.add(m)
    return 'c(%d)' % m

  # ---------------------------------------------------------------- expressions (never fail)
  def atom(self):
    r = self.rnd.random()
    if r < 0.5:
      return self.rnd.choice(VARS)
    return str(self.rnd.randint(0, 3))

  def expr(self, d=0):
    r = self.rnd.random()
    if d > 1 or r < 0.35:
      return self.atom()
    if r < 0.55:
      return '(%s %s %s)' % (self.expr(d + 1), self.rnd.choice(['+', '-', '*']), self.expr(d + 1))
    if r < 0.65:
      return 'h1(%s)' % self.expr(d + 1)
    if r < 0.72:
      return 'u0(%s)' % self.expr(d + 1)
    if r < 0.80:
      return '(%s if %s else %s)' % (self.expr(d + 1), self.cdec(), self.expr(d + 1))
    if r < 0.86:
      return 'abs(%s)' % self.expr(d + 1)
    if r < 0.90:
      return '(lambda q: q + 1)(%s)' % self.atom()
    if r < 0.94:
      return 'sum([q + 1 for q in range(%d)])' % self.rnd.randint(0, 3)
    return self.atom()

  # ---------------------------------------------------------------- filler statements (never fail)
  def leaf(self, ind):
    r = self.rnd.random()
    v = self.rnd.choice(VARS)
    if r < 0.35:
      return ['%s%s = %s + t(%d)' % (ind, v, self.expr(), self.mk())]
    if r < 0.5:
      return ['%s%s %s= t(%d)' % (ind, v, self.rnd.choice(['+', '-']), self.mk())]
    if r < 0.58:
      return ['%sx, y = y, x + t(%d)' % (ind, self.mk())]
    if r < 0.66:
      return ['%st(%d)' % (ind, self.mk())]
    if r < 0.74:
      return ['%sG.append(t(%d))' % (ind, self.mk())]
    if r < 0.8:
      return ['%sG[0] = G[0] + t(%d)' % (ind, self.mk())]
    if r < 0.87:
      return ['%s%s = list(map(h1, [t(%d)]))[0]' % (ind, v, self.mk())]
    if r < 0.93:
      return ['%s%s = sorted([t(%d), 1], key=h1)[0]' % (ind, v, self.mk())]
    return ['%spass' % ind]

  def filler_block(self, ind, depth, loop, budget):
    """loop: None (not in a loop), 'rand' (jumps decided at random), 'off' (jumps never taken)."""
    lines = []
    for _ in range(self.rnd.randint(1, 2)):
      if budget[0] > 0 and depth < 3 and self.rnd.random() < 0.5:
        budget[0] -= 1
        lines += self.filler_compound(ind, depth, loop, budget)
      else:
        lines += self.leaf(ind)
    return lines

  def filler_compound(self, ind, depth, loop, budget):
    ind2 = ind + '  '
    kinds = ['if', 'ifelse', 'while', 'for', 'try_finally', 'try_except', 'with', 'def', 'return']
    if loop:
      kinds += ['break', 'continue', 'break', 'continue']
    k = self.rnd.choice(kinds)
    sub = lambda lp=loop, b=budget: self.filler_block(ind2, depth + 1, lp, b)
    if k == 'if':
      return ['%sif %s:' % (ind, self.cdec())] + sub()
    if k == 'ifelse':
      out = ['%sif %s:' % (ind, self.cdec())] + sub()
      if self.rnd.random() < 0.3:
        out += ['%selif %s:' % (ind, self.cdec())] + sub()
      return out + ['%selse:' % ind] + sub()
    if k == 'while':
      fu = 'fuel_%d' % self.uid()
      return (['%s%s = 0' % (ind, fu), '%swhile %s < %d and %s:' % (ind, fu, self.rnd.randint(1, 2), self.cdec()),
               '%s%s += 1' % (ind2, fu)] + sub('rand'))
    if k == 'for':
      return ['%sfor i_%d in range(t(%d) %% 3):' % (ind, self.uid(), self.mk())] + sub('rand')
    if k == 'try_finally':
      return ['%stry:' % ind] + sub() + ['%sfinally:' % ind] + sub(None, [0])
    if k == 'try_except':
      body = sub()
      raiser = ['%sif %s:' % (ind2, self.cdec(False)), "%s  raise ValueError('caught %%d' %% t(%d))" % (ind2, self.mk())]
      return ['%stry:' % ind] + body + raiser + ['%sexcept ValueError:' % ind] + sub(None, [0])
    if k == 'with':
      if self.rnd.random() < 0.5:
        return ['%swith CM(t(%d)) as w:' % (ind, self.mk())] + sub()
      return ['%swith CM(t(%d)):' % (ind, self.mk())] + sub()
    if k == 'def':
      name = 'g_%d' % self.uid()
      return (['%sdef %s(q):' % (ind, name), '%sx = q' % ind2, '%sy = 1' % ind2, '%sz = t(%d)' % (ind2, self.mk())]
              + sub(None) + ['%sreturn x + t(%d)' % (ind2, self.mk()), '%s%s = %s(t(%d))' % (ind, self.rnd.choice(VARS), name, self.mk())])
    if k == 'return':
      return ['%sif %s:' % (ind, self.cdec(False)), '%sreturn x + t(%d)' % (ind2, self.mk())]
    if k in ('break', 'continue'):
      return ['%sif %s:' % (ind, self.cdec(False if loop == 'off' else None)), '%s%s' % (ind2, k)]
    raise AssertionError(k)

  # ---------------------------------------------------------------- the path
  def payload_lines(self, ind, payload):
    if payload[0] == 'call':
      _, n, kind = payload
      m = self.mk()
      self.target_markers.append(m)
      return [ind + self.rnd.choice(CALL_STYLES[kind]) % dict(n=n, m=m)]
    kind = payload[1]
    m = self.mk()
    self.fail_marker = m
    if kind in SIMPLE_FAILS:
      return [ind + SIMPLE_FAILS[kind] % dict(m=m)]
    head = ind + HEADER_FAILS[kind] % dict(m=m, u=self.uid())
    return [head] + self.filler_block(ind + '  ', 3, None, [0])

  def path_block(self, ind, depth, loop_on_path, in_loop, payload, budget):
    """A block that reaches `payload`; statements before it complete normally and never jump away."""
    pre_loop = 'off' if loop_on_path else ('rand' if in_loop else None)
    post_loop = 'rand' if in_loop else None
    lines = []
    for _ in range(self.rnd.randint(0, 2)):
      lines += self.filler_block(ind, depth, pre_loop, budget)
    lines += self.path_stmt(ind, depth, loop_on_path, in_loop, payload, budget)
    for _ in range(self.rnd.randint(0, 1)):
      lines += self.filler_block(ind, depth, post_loop, budget)
    return lines

  def path_stmt(self, ind, depth, loop_on_path, in_loop, payload, budget):
    ind2 = ind + '  '
    if depth >= self.path_depth:
      return self.payload_lines(ind, payload)
    k = self.rnd.choice(PATH_KINDS)
    self.ctx.append(k)
    inner = lambda lop=loop_on_path, il=in_loop: self.path_block(ind2, depth + 1, lop, il, payload, budget)
    fill = lambda lp: self.filler_block(ind2, depth + 1, lp, budget)
    cur = 'off' if loop_on_path else ('rand' if in_loop else None)
    if k == 'if-then':
      out = ['%sif %s:' % (ind, self.cdec(True))] + inner()
      if self.rnd.random() < 0.5:
        out += ['%selse:' % ind] + fill(cur)
      return out
    if k == 'if-else':
      return ['%sif %s:' % (ind, self.cdec(False))] + fill(cur) + ['%selse:' % ind] + inner()
    if k == 'elif':
      out = ['%sif %s:' % (ind, self.cdec(False))] + fill(cur) + ['%selif %s:' % (ind, self.cdec(True))] + inner()
      if self.rnd.random() < 0.5:
        out += ['%selse:' % ind] + fill(cur)
      return out
    if k == 'while':
      fu = 'fuel_%d' % self.uid()
      return (['%s%s = 0' % (ind, fu), '%swhile %s < 2 and %s:' % (ind, fu, self.cdec(True)), '%s%s += 1' % (ind2, fu)]
              + inner(True, True))
    if k == 'for':
      it = self.rnd.choice(['range(t(%d) %% 3 + 1)', '[t(%d) %% 3, 4]', '[(1, 2), (t(%d) %% 3, 4)]'])
      u = self.uid()
      tgt = 'i_%d, j_%d' % (u, u) if it.startswith('[(') else 'i_%d' % u
      return ['%sfor %s in %s:' % (ind, tgt, it % self.mk())] + inner(True, True)
    if k == 'try-finally-body':
      return ['%stry:' % ind] + inner() + ['%sfinally:' % ind] + self.filler_block(ind2, depth + 1, None, [0])
    if k == 'try-finally-final':
      return ['%stry:' % ind] + fill(cur) + ['%sfinally:' % ind] + inner(False, False)
    if k == 'try-except-body':
      out = ['%stry:' % ind] + inner() + ['%sexcept %s:' % (ind, self.rnd.choice(['GeneratorExit', '(SystemExit, GeneratorExit)']))]
      out += self.filler_block(ind2, depth + 1, None, [0])
      if self.rnd.random() < 0.3:
        out += ['%sfinally:' % ind] + self.filler_block(ind2, depth + 1, None, [0])
      return out
    if k == 'try-else':
      return (['%stry:' % ind] + fill(cur) + ['%sexcept GeneratorExit:' % ind] + self.filler_block(ind2, depth + 1, None, [0])
              + ['%selse:' % ind, '%sz = z + t(%d)' % (ind2, self.mk())] + inner())
      # (the leading simple statement keeps clear of a cfg.build crash: `try/except/else` whose else block STARTS
      #  with an `if` trips `assert section_id not in self.cond_entry` in cfg.visit_Try - a conversion defect, not C12)
    if k == 'with':
      head = '%swith CM(t(%d))%s:' % (ind, self.mk(), self.rnd.choice(['', ' as w']))
      return [head] + inner()
    if k == 'def':
      name = 'g_%d' % self.uid()
      self.nested_owner[name] = self.unit_name
      out = ['%sdef %s(q):' % (ind, name), '%sx = q' % ind2, '%sy = 1' % ind2, '%sz = t(%d)' % (ind2, self.mk())]
      out += inner(False, False) + ['%sreturn x + t(%d)' % (ind2, self.mk())]
      m = self.mk()
      self.target_markers.append(m)      # the call of the nested def is a frame of the path too
      return out + ['%s%s = %s(t(%d))' % (ind, self.rnd.choice(VARS), name, m)]
    raise AssertionError(k)

  def unit(self, name, kind, payload):
    self.unit_name = name
    self.path_depth = self.rnd.randint(0, self.max_path_depth)
    budget = [self.rnd.randint(0, 3)]
    lines = []
    if kind == 'dnc':
      lines.append('@malt.experimental.do_not_convert')
    if name == 'f':
      lines += ['def f(a):', "  '__UNIQ__'", '  x = a[0]']
    else:
      lines += ['def %s(p):' % name, "  '__UNIQ__'", '  x = p']
    lines += ['  y = 1 + t(%d)' % self.mk(), '  z = 0']
    lines += self.path_block('  ', 0, False, False, payload, budget)
    lines += ['  return x + y + z + t(%d)' % self.mk()]
    return lines

  def program(self, chain, failkind):
    """chain: kinds of the callees k1..kn ('conv' | 'dnc' | 'cb')."""
    self.target_markers = []
    units = [('f', 'conv')] + [('k%d' % (i + 1), kd) for i, kd in enumerate(chain)]
    texts = []
    for i, (name, kind) in enumerate(units):
      if i + 1 < len(units):
        payload = ('call', i + 1, units[i + 1][1])
      else:
        payload = ('fail', failkind)
      before = len(self.ctx)
      texts.append(self.unit(name, kind, payload))
      if i + 1 < len(units):
        del self.ctx[before:]          # the signature context = constructs around the failing statement
    # callees first (definition order does not matter for calls, only for readability)
    src = PRELUDE
    for t in reversed(texts):
      src += '\n' + '\n'.join(t) + '\n'
    return src, units


def make_case(seed, idx):
  rnd = random.Random(seed * 1000003 + idx)
  failkind = FAIL_KINDS[idx % len(FAIL_KINDS)]
  n = rnd.choice([0, 0, 1, 1, 2, 2, 3, 4])
  chain = [rnd.choice(['conv', 'conv', 'conv', 'dnc', 'cb']) for _ in range(n)]
  if failkind == 'stopiter':      # a StopIteration crossing map/filter is absorbed by the iterator protocol
    chain = ['dnc' if k == 'cb' else k for k in chain]
  g = Gen(rnd)
  src, units = g.program(chain, failkind)
  return dict(idx=idx, src=src, units=units, true=sorted(g.true), failkind=failkind, ctx='>'.join(g.ctx) or 'top',
              nested_owner=g.nested_owner, target=g.fail_marker)


# ------------------------------------------------------------------------------- running and judging

class _T(object):
  def __call__(self, k):
    return k


class _C(object):
  def __init__(self, true):
    self.true = frozenset(true)

  def __call__(self, k):
    return k in self.true


_MARK = re.compile(r'(?<![\w.\'"])([1-9]\d{2,})(?![\w.])')
_FRAME = re.compile(r'^    File "(.+)", line (\d+), in (.+?)(  \*\*|  \*)?$')

_RECORD = []
_orig_convert_actual = api._convert_actual


def _recording_convert_actual(entity, program_ctx):
  transformed = _orig_convert_actual(entity, program_ctx)
  _RECORD.append((entity, transformed))
  return transformed


api._convert_actual = _recording_convert_actual     # observation only: every conversion's source map


def markers(text):
  return set(int(m) for m in _MARK.findall(text))


def plain_message_type(tp):
  return tp.__init__ is Exception.__init__ or tp in KNOWN_STRING_CONSTRUCTOR_ERRORS


class Fail(Exception):
  def __init__(self, kind, what, **extra):
    Exception.__init__(self, what)
    self.kind, self.what, self.extra = kind, what, extra


def run_plain(mod, true):
  mod.t, mod.c = _T(), _C(true)
  mod.G[:] = [0]
  try:
    mod.f([5, 7])
  except Exception as e:      # pylint:disable=broad-except
    return e
  return None


def run_converted(mod, true):
  mod.t, mod.c = _T(), _C(true)
  mod.G[:] = [0]
  try:
    malt.convert(recursive=True)(mod.f)([5, 7])
  except Exception as e:      # pylint:disable=broad-except
    return e
  return None


def user_frames(exc, path):
  return [(fr.filename, fr.lineno, fr.name) for fr in traceback.extract_tb(exc.__traceback__) if fr.filename == path]


def judge(case, mod, stats):
  """Raises Fail on a violation of C12; returns normally otherwise."""
  path = mod.__file__
  with open(path) as fh:
    src = fh.read()
  src_lines = src.split('\n')
  units = [tuple(u) for u in case['units']]
  unit_of = dict(case['nested_owner'])
  for name, _ in units:
    unit_of[name] = name
  target_line = [i + 1 for i, l in enumerate(src_lines) if case['target'] in markers(l)]
  e0 = run_plain(mod, case['true'])
  if e0 is None:
    raise Fail('generator-bug', 'the unconverted run did not raise')
  orig = user_frames(e0, path)
  if not orig or [orig[-1][1]] != target_line:
    raise Fail('generator-bug', 'the unconverted run raised %s at %r, planned line %r' % (type(e0).__name__, orig[-1:], target_line))
  del _RECORD[:]
  e1 = run_converted(mod, case['true'])
  record = list(_RECORD)
  if e1 is None:
    raise Fail('no-exception', 'the converted function returned normally, the original raised %s' % type(e0).__name__)
  t0 = type(e0)
  # the exception the generated code itself raised (the wrapper re-creates it inside its `except` clause, so it
  # is the re-created exception's __context__).  If THAT already differs from the original run, the converted code
  # behaved differently (a C01 matter, e.g. a `finally` block reading a variable the interrupted `try` body
  # assigns): C12 speaks about how a given exception is reported, so such cases are set aside, not judged.
  source = e1.__context__ if getattr(e1, 'ag_error_metadata', None) is not None else e1
  if source is not None and (type(source) is not t0 or str(source) != str(e0)):
    raise Fail('divergence-C01', 'the converted code itself raised %s(%r), the original %s(%r)'
               % (type(source).__name__, str(source)[:80], t0.__name__, str(e0)[:80]))
  stats['raised'] = True
  meta = getattr(e1, 'ag_error_metadata', None)
  # -- which functions were converted (the frame-count clause is stated in terms of them)
  converted_units = []
  for name, kind in units:
    if kind != 'conv':
      break
    converted_units.append(name)
  rec_names = set(ent.__name__ for ent, _ in record if getattr(ent, '__code__', None) is not None and ent.__code__.co_filename == path)
  missing = [u for u in converted_units if u not in rec_names]
  extra = [name for name, kind in units if name not in converted_units and name in rec_names]
  if missing or extra:
    raise Fail('conversion-set', 'functions converted on the call path differ from the plan: not converted %r, unexpectedly converted %r' % (missing, extra))
  # -- type
  if plain_message_type(t0):
    if type(e1) is not t0:
      raise Fail('wrong-type', '%s takes a plain message and has no initialiser of its own, the caller got %s' % (t0.__name__, type(e1).__name__))
    stats['same_type'] = True
  else:
    if not (isinstance(e1, api.StagingError) or isinstance(e1, t0)):
      raise Fail('wrong-type', '%s has its own initialiser: expected StagingError (or a subclass of the original), the caller got %s' % (t0.__name__, type(e1).__name__))
  if meta is None:
    raise Fail('no-location', 'the exception reaching the caller carries no error metadata (message %r)' % str(e1)[:120])
  text = str(e1)
  lines = text.split('\n')
  # -- message
  msg0 = str(e0).split('\n')
  want = ['    %s: %s' % (t0.__name__, msg0[0])] + ['    ' + l for l in msg0[1:]]
  found = any(lines[i:i + len(want)] == want for i in range(len(lines)))
  if not found:
    raise Fail('message-lost', 'the original message %r is not carried by the re-raised exception' % str(e0)[:120], got=text[-300:])
  # -- frames named by the message
  listed = []
  for l in lines:
    mt = _FRAME.match(l)
    if mt:
      listed.append((mt.group(1), int(mt.group(2)), mt.group(3), (mt.group(4) or '').strip()))
  stack = [(fi.filename, fi.lineno, fi.function_name, '*' if fi.is_converted else ('**' if fi.is_allowlisted else ''))
           for fi in reversed(meta.translated_stack)]
  if stack != listed:
    raise Fail('message-metadata-mismatch', 'frames in the message differ from ag_error_metadata.translated_stack',
               message_frames=listed, metadata_frames=stack)
  ulisted = [fr for fr in listed if fr[0] == path]
  gen_listed = [fr for fr in listed if '__autograph_generated_file' in fr[0]]
  if gen_listed:
    raise Fail('wrong-location', 'the message names generated code %r' % (gen_listed[0][:3],), listed=ulisted, original=orig)
  if not ulisted:
    raise Fail('no-location', 'the message names no frame of the original file', got=text[-300:])
  if ulisted[-1][:3] != orig[-1]:
    raise Fail('wrong-location', 'failing statement reported at %s:%d in %s, the original traceback ends at line %d in %s (%r)'
               % (os.path.basename(ulisted[-1][0]), ulisted[-1][1], ulisted[-1][2], orig[-1][1], orig[-1][2],
                  src_lines[orig[-1][1] - 1].strip()), listed=ulisted, original=orig)
  pos = 0
  for fr in ulisted:
    while pos < len(orig) and orig[pos] != fr[:3]:
      pos += 1
    if pos == len(orig):
      raise Fail('foreign-frame', 'listed frame line %d in %s is not a frame of the original traceback (in this order)' % (fr[1], fr[2]),
                 listed=ulisted, original=orig)
    pos += 1
  starred = [fr for fr in ulisted if fr[3] == '*']
  star_units = [unit_of.get(fr[2]) for fr in starred]
  if star_units != converted_units:
    raise Fail('frame-count', 'one entry per separately converted function expected %r, entries marked converted belong to %r'
               % (converted_units, star_units), listed=ulisted, original=orig)
  # everything below the innermost converted function ran unconverted: its frames are real frames
  for fr in ulisted:
    if fr[3] != '*' and unit_of.get(fr[2]) in converted_units:
      raise Fail('frame-count', 'frame of converted function %s listed as unconverted' % fr[2], listed=ulisted, original=orig)
  stats['frames'] = len(ulisted)
  stats['chain'] = len(units) - 1
  # -- source maps of every conversion of a function of this module
  judged = with_marker = 0
  for ent, transformed in record:
    code = getattr(ent, '__code__', None)
    if code is None or code.co_filename != path:
      continue
    genfile = transformed.ag_module.__file__
    with open(genfile) as fh:
      glines = fh.read().split('\n')
    first, last = _span(src, ent)
    for key, origin in transformed.ag_source_map.items():
      if key.filename != genfile:
        continue          # stale annotations on the shared ast.Load() singleton: identity entries, not judged
      judged += 1
      gl = glines[key.lineno - 1] if 0 < key.lineno <= len(glines) else ''
      ol = origin.loc.lineno
      if origin.loc.filename != path:
        raise Fail('sourcemap-file', 'entry of %s maps generated line %d to file %r' % (ent.__name__, key.lineno, origin.loc.filename))
      if not first <= ol <= last:
        raise Fail('sourcemap-line', 'entry of %s maps generated line %d (%r) to line %d outside the function (%d..%d)'
                   % (ent.__name__, key.lineno, gl.strip()[:80], ol, first, last))
      if (origin.source_code_line or '').strip() != src_lines[ol - 1].strip():
        raise Fail('sourcemap-text', 'entry of %s: origin line %d is %r in the file, the entry quotes %r'
                   % (ent.__name__, ol, src_lines[ol - 1].strip(), (origin.source_code_line or '').strip()))
      gm = markers(gl)
      if gm:
        with_marker += 1
        if not gm <= markers(src_lines[ol - 1]):
          real = [i + 1 for i, l in enumerate(src_lines) if gm & markers(l)]
          raise Fail('sourcemap-line', 'entry of %s maps generated line %d (%r) to original line %d (%r); it was generated from line %r'
                     % (ent.__name__, key.lineno, gl.strip()[:90], ol, src_lines[ol - 1].strip(), real))
  stats['map_entries'] = judged
  stats['map_entries_fingerprinted'] = with_marker


def _span(src, fn):
  tree = ast.parse(src)
  for node in ast.walk(tree):
    if isinstance(node, ast.FunctionDef) and node.name == fn.__name__:
      lo = min([node.lineno] + [d.lineno for d in node.decorator_list])
      if lo == fn.__code__.co_firstlineno:
        return lo, node.end_lineno
  return 1, len(src.split('\n'))


_SEQ = [0]


class _Hang(BaseException):
  pass


def _on_alarm(signum, frame):
  raise _Hang()


def run_case(case):
  """Load the module, judge it; returns (failure-or-None, stats)."""
  _SEQ[0] += 1
  name = 'vp_c12_%d_%d' % (os.getpid(), _SEQ[0])
  stats = {}
  try:
    mod = harness.load_source(case['src'].replace('__UNIQ__', name), name)
  except SyntaxError as e:
    return dict(kind='generator-bug', what='SyntaxError: %s' % e), stats
  signal.signal(signal.SIGALRM, _on_alarm)
  signal.alarm(20)
  try:
    judge(case, mod, stats)
    return None, stats
  except _Hang:
    return dict(kind='hang', what='the program did not finish within 20 s'), stats
  except Fail as f:
    d = dict(kind=f.kind, what=f.what)
    d.update(f.extra)
    return d, stats
  except Exception as e:      # pylint:disable=broad-except
    return dict(kind='harness-error', what='%s: %s' % (type(e).__name__, str(e)[:300]), tb=traceback.format_exc()[-600:]), stats
  finally:
    signal.alarm(0)
    harness.unload(name)


def check_item(item):
  seed, idx = item
  case = make_case(seed, idx)
  failure, stats = run_case(case)
  res = dict(idx=idx, failure=failure, stats=stats, failkind=case['failkind'], ctx=case['ctx'],
             chain=[k for _, k in case['units'][1:]], h=hashlib.sha1(case['src'].encode()).hexdigest())
  if failure:
    res['case'] = case
  return res


# ------------------------------------------------------------------------------- minimisation

def _block_end(lines, i):
  ind = len(lines[i]) - len(lines[i].lstrip())
  j = i + 1
  while j < len(lines) and (not lines[j].strip() or len(lines[j]) - len(lines[j].lstrip()) > ind):
    j += 1
  return j


def _norm(what):
  return re.sub(r'\d+', 'N', re.sub(r"'[^']*'", 'S', what))


def minimise(case, kind, what, deadline):
  """Greedy statement deletion (a statement goes with its block) keeping the same failure (kind and wording
  up to numbers and quoted text); decorators, fuel counters and the failing statement are never deleted."""
  start = PRELUDE.count('\n') if case['src'].startswith(PRELUDE) else 0
  lines = case['src'].split('\n')
  changed = True
  while changed and time.time() < deadline:
    changed = False
    i = len(lines) - 1
    while i >= start and time.time() < deadline:
      s = lines[i].strip()
      if (not s or s.startswith('def f(') or s.startswith('fuel_') or s.startswith('@') or s == "'__UNIQ__'"
          or case['target'] in markers(lines[i])):
        i -= 1
        continue
      cand = lines[:i] + lines[_block_end(lines, i):]
      src = '\n'.join(cand)
      try:
        compile(src, '<cand>', 'exec')
      except SyntaxError:
        i -= 1
        continue
      c2 = dict(case, src=src)
      failure, _ = run_case(c2)
      if failure and failure['kind'] == kind and _norm(failure['what']) == _norm(what):
        lines = cand
        case = c2
        changed = True
      i -= 1
  failure, _ = run_case(case)
  return case, failure


def strip_prelude(src):
  return src.replace(PRELUDE, '# <PRELUDE of c12_errors.py>\n')


WITNESS_SRC = 'def f(x):\n  return int(x)\n'


def cross_file_cache_witness(_):
  """Two files with the same function text at the same line: the conversion cache is keyed by code-object
  equality (which ignores co_filename), so the second file's function reuses the first file's conversion and
  source map, and its error is reported in the FIRST file.  Genuine defect of the pinned tree; kept out of the
  random space by the per-load '__UNIQ__' docstrings."""
  names = ['vp_c12_wa_%d' % os.getpid(), 'vp_c12_wb_%d' % os.getpid()]
  mods = [harness.load_source(WITNESS_SRC, n) for n in names]
  try:
    got = []
    for m in mods:
      try:
        malt.convert(recursive=True)(m.f)('q')
        got.append(None)
      except Exception as e:      # pylint:disable=broad-except
        got.append([mt.group(1) for mt in map(_FRAME.match, str(e).split('\n')) if mt and mt.group(4) == '  *'])
    if got[0] != [mods[0].__file__]:
      return dict(kind='harness-error', sig='cross-file-witness', what='first conversion reported %r' % (got[0],), program=WITNESS_SRC)
    if got[1] != [mods[1].__file__]:
      return dict(kind='cross-file-cache', sig='identical-function-same-line',
                  what=('the same function text at the same line of two files: the error raised by the second file\'s function '
                        'is reported in the first file (%s instead of %s); the conversion cache key is the code object, whose '
                        'equality ignores co_filename' % tuple(os.path.basename(x) for x in (got[1] or ['<nothing>'])[:1] + [mods[1].__file__])),
                  program='# file A and file B, identical:\n' + WITNESS_SRC + "# malt.convert(recursive=True)(A.f)('q'); malt.convert(recursive=True)(B.f)('q')")
    return None
  finally:
    for n in names:
      harness.unload(n)


def _batched(items, batch, deadline):
  """pool_map in batches; no new batch is started after the deadline (the quick tier stays within its wall
  budget on a loaded machine; `evaluated` reports what was actually run)."""
  for start in range(0, len(items), batch):
    if start and time.time() > deadline:
      return
    for r in harness.pool_map(check_item, items[start:start + batch], chunksize=2):
      yield r


def main():
  ap = argparse.ArgumentParser()
  ap.add_argument('seed', type=int)
  ap.add_argument('tier')
  ap.add_argument('--n', type=int, default=None)
  ap.add_argument('--maxfail', type=int, default=10)
  ap.add_argument('--budget', type=float, default=None, help='seconds after which no new batch is started')
  ap.add_argument('--no-minimise', action='store_true')
  ap.add_argument('--no-witnesses', action='store_true', help='skip the explicit witness of the cross-file cache defect')
  a = ap.parse_args()
  n = a.n if a.n is not None else (16000 if a.tier == 'thorough' else 1600)
  root = tempfile.mkdtemp(prefix='verif_c12_')
  tempfile.tempdir = root
  os.environ['TMPDIR'] = root
  t_start = time.time()
  try:
    items = [(a.seed, i) for i in range(n)]
    evaluated = nontrivial = failing = divergent = 0
    set_aside = None
    seen = set()
    by_sig = {}
    agg = dict(same_type=0, staging_or_subclass=0, frames=0, map_entries=0, map_entries_fingerprinted=0, chains={}, failkinds={}, contexts={})
    samples = []
    budget = a.budget if a.budget is not None else (40 if a.tier == 'quick' else 780)
    for r in _batched(items, 320, t_start + budget):
      evaluated += 1
      st = r['stats']
      if st.get('raised') and r['h'] not in seen and not (r['failure'] and r['failure']['kind'] in ('generator-bug', 'harness-error')):
        seen.add(r['h'])
        nontrivial += 1
        agg['same_type' if st.get('same_type') else 'staging_or_subclass'] += 1
        agg['frames'] += st.get('frames', 0)
        agg['map_entries'] += st.get('map_entries', 0)
        agg['map_entries_fingerprinted'] += st.get('map_entries_fingerprinted', 0)
        key = ','.join(r['chain']) or '-'
        agg['chains'][key] = agg['chains'].get(key, 0) + 1
        agg['failkinds'][r['failkind']] = agg['failkinds'].get(r['failkind'], 0) + 1
        for cx in r['ctx'].split('>'):
          agg['contexts'][cx] = agg['contexts'].get(cx, 0) + 1
      if r['failure'] and r['failure']['kind'] == 'divergence-C01':
        divergent += 1
        if set_aside is None or len(r['case']['src']) < len(set_aside['case']['src']):
          set_aside = r
      elif r['failure']:
        failing += 1
        sig = '%s@%s' % (r['failkind'], r['ctx'].split('>')[-1])
        k = (r['failure']['kind'], sig)
        cur = by_sig.get(k)
        if cur is None or len(r['case']['src']) < len(cur['case']['src']):
          by_sig[k] = r
      elif len(samples) < 2 and len(r['chain']) >= 2 and r['idx'] % 7 == 3:
        samples.append(strip_prelude(make_case(a.seed, r['idx'])['src'])[:1500])
    failures = []
    # one representative per (kind, failing statement kind), smallest programs first, minimised in this process
    reps = {}
    for (kind, sig), r in sorted(by_sig.items(), key=lambda kv: len(kv[1]['case']['src'])):
      reps.setdefault((kind, sig.split('@')[0]), (sig, r))
    deadline = time.time() + (8 if a.tier == 'quick' else 120)
    for (kind, _), (sig, r) in sorted(reps.items(), key=lambda kv: (kv[0][0], len(kv[1][1]['case']['src'])))[:a.maxfail]:
      case, failure = r['case'], r['failure']
      if not a.no_minimise and kind not in ('generator-bug', 'harness-error'):
        c2, f2 = minimise(case, kind, failure['what'], min(deadline, time.time() + 4))
        if f2 and f2['kind'] == kind:
          case, failure = c2, f2
      f = dict(failure)
      f['sig'] = sig
      f['program'] = strip_prelude(case['src'])
      f['decisions_true'] = case['true']
      f['chain'] = [list(u) for u in case['units']]
      f['replay'] = 'make_case(seed=%d, idx=%d)' % (a.seed, r['idx'])
      failures.append(f)
    aside = None
    if set_aside is not None:
      case, failure = set_aside['case'], set_aside['failure']
      if not a.no_minimise:
        c2, f2 = minimise(case, 'divergence-C01', failure['what'], time.time() + 5)
        if f2 and f2['kind'] == 'divergence-C01':
          case, failure = c2, f2
      aside = dict(what=failure['what'], program=strip_prelude(case['src']), decisions_true=case['true'])
    if not a.no_witnesses:
      for w in harness.pool_map(cross_file_cache_witness, [0], procs=1):
        evaluated += 1
        if w:
          failures.append(w)
    harness.emit(dict(
        evaluated=evaluated, planned=n, set_aside_divergent=divergent, set_aside_sample=aside, distinct_nontrivial=nontrivial,
        rule=('seeded random modules f + callee chain k1..kn (n<=4, each callee converted / do_not_convert / called back by '
              'map|sorted|max|filter), exactly one failing statement (%d kinds: explicit raise of builtin and user classes with '
              'and without own constructors, failing builtins, Key/Index/ZeroDivision/Type/Attribute/Name/Assertion/StopIteration '
              'errors, failing if/while/for/with headers) on a directed path through if/elif/else/while/for/try/with/nested def, '
              'path nesting <= 3 per function, one statement per line; a case is non-trivial when both runs raised and the type, '
              'message, frame list and every source-map entry of every conversion were judged' % len(FAIL_KINDS)),
        seconds=round(time.time() - t_start, 1), failing_programs=failing, distinct_failure_sigs=len(by_sig),
        coverage=agg, samples=samples, failures=failures))
  finally:
    shutil.rmtree(root, ignore_errors=True)


if __name__ == '__main__':
  main()
