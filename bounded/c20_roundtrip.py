"""Exhaustive enumeration of the ConversionOptions domain on the real code (C20).

Default: to_ast round trip + STD spelling.  --contracts: run-time evaluation of the same
contracts Engine A proves (used to concretise a refuted obligation into a failing input).
"""
import ast
import itertools
import json
import sys

from malt.core import converter
from malt.impl import api

F = converter.Feature
CO = converter.ConversionOptions
ag = api._TRANSPILER.get_extra_locals()['ag__']


def spellings(subset):
  subset = tuple(subset)
  yield 'tuple', subset
  yield 'set', set(subset)
  yield 'frozenset', frozenset(subset)
  yield 'list', list(subset)
  if len(subset) == 0:
    yield 'None', None
  if len(subset) == 1:
    yield 'single', subset[0]


def domain():
  feats = list(F)
  for r, u, i in itertools.product([False, True], repeat=3):
    for k in range(len(feats) + 1):
      for subset in itertools.combinations(feats, k):
        for how, spelled in spellings(subset):
          yield (r, u, i, frozenset(subset), how, spelled)


def main():
  contracts = '--contracts' in sys.argv
  failures, evaluated, values, samples = [], 0, set(), []
  allvals = []
  for r, u, i, fs, how, spelled in domain():
    evaluated += 1
    desc = dict(recursive=r, user_requested=u, internal_convert_user_code=i,
                optional_features=sorted(f.name for f in fs), spelled_as=how)
    try:
      o = CO(recursive=r, user_requested=u, internal_convert_user_code=i, optional_features=spelled)
    except Exception as e:
      failures.append(dict(kind='init-raises', what='constructor raised %r' % e, input=desc))
      continue
    values.add((r, u, i, fs))
    ok_init = (o.recursive is r and o.user_requested is u and o.internal_convert_user_code is i
               and o.optional_features == fs and isinstance(o.optional_features, frozenset))
    if not ok_init:
      failures.append(dict(kind='init', what='__init__ postcondition fails', input=desc))
    if o.as_tuple() != (r, u, i, fs):
      failures.append(dict(kind='as_tuple', what='as_tuple != field tuple', input=desc))
    if how == 'frozenset':
      allvals.append(o)
    c = o.call_options()
    if not (c.recursive == r and c.user_requested is False and c.internal_convert_user_code == r
            and c.optional_features == fs):
      failures.append(dict(kind='call_options', what='call_options policy violated', input=desc))
    for f in F:
      if o.uses(f) != (F.ALL in fs or f in fs):
        failures.append(dict(kind='uses', what='uses(%s) wrong' % f.name, input=desc))
    if contracts:
      continue
    try:
      src = ast.unparse(o.to_ast())
      back = eval(src, {'ag__': ag})
    except Exception as e:
      failures.append(dict(kind='to_ast-eval', what='embedded form does not evaluate: %r' % e, input=desc))
      continue
    if not (back == o and hash(back) == hash(o) and back.as_tuple() == (r, u, i, fs)):
      failures.append(dict(kind='roundtrip', what='eval(unparse(to_ast())) != options: %s' % src, input=desc))
    is_std = (r, u, i, fs) == (True, False, True, frozenset())
    if (src == 'ag__.STD') != is_std:
      failures.append(dict(kind='std', what='ag__.STD spelling used for the wrong value: %s' % src, input=desc))
    if len(samples) < 4 and evaluated % 701 == 1:
      samples.append(dict(input=desc, embedded=src))
  # eq/hash over all pairs of distinct values (1024^2 is cheap)
  for a in allvals:
    for b in allvals:
      same = a.as_tuple() == b.as_tuple()
      if (a == b) != same or (same and hash(a) != hash(b)):
        failures.append(dict(kind='eq-hash', what='eq/hash inconsistent', input=[list(map(str, a.as_tuple())), list(map(str, b.as_tuple()))]))
        break
  evaluated += len(allvals) ** 2 if allvals else 0
  if ag.STD != converter.STANDARD_OPTIONS:
    failures.append(dict(kind='std-object', what='ag__.STD is not STANDARD_OPTIONS', input={}))
  print(json.dumps(dict(evaluated=evaluated, distinct_values=len(values), failures=failures[:20], samples=samples)))


main()
