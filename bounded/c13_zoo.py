"""C13 bounded stand-in: the call wrapper `malt.impl.api.converted_call` is transparent, obeys the
documented conversion policy and falls back safely.

usage: c13_zoo.py <seed> <tier> [--entry NAME[,NAME]] [--config SUBSTR] [--stage SUBSTR] [--no-zoo] [--no-inject]
                                [--serial] [--maxfail N]

Part 1 (zoo): a callable zoo (plain functions, lambdas, bound / unbound / class / static methods, callable
objects incl. exotic `__call__` definitions, classes, metaclass-callable classes, nested functools.partial chains
with overlapping keywords, builtins and their overloads, C functions, exec/eval/compile-defined functions,
generator functions, functools.wraps / lru_cache / class-based decorators, namedtuple classes and their methods,
functions / methods / callable objects of (fake and real) allow-listed modules, already-converted artifacts,
do_not_convert / convert wrappers) x argument shapes (args, kwargs None / {} / non-empty, star-args style tuples,
mis-bound argument lists) x options (recursive, user_requested, options passed directly / as call_options() /
through a caller FunctionScope, optional features) x context (ENABLED / DISABLED / UNSPECIFIED) x strict mode.
Oracle: same outcome (value or exception type), same invocation records (invoked exactly once, same binding of
self / cls / positional / keyword arguments), arguments / partial keywords not mutated, and the set of functions
handed to `_convert_actual` (successfully) during the call equals what the policy table says.

Part 2 (injection): every stage of the conversion pipeline is made to fail in turn (source lookup, parse_entity,
origin resolution, unsupported-feature check, each analysis, each converter named in PyToPy.transform_ast, code
loading, instantiation) with several exception types; outside strict mode the target must run unconverted exactly
once, with exactly one warning, the failure must be remembered (allow-list cache, no second conversion attempt and
no second warning, also after the fault is removed), and an exception of the target's own execution must pass
through; in strict mode the injected exception must surface and the target must not run.

A fresh copy of the zoo module (real file: inspect.getsource) is loaded for every configuration, so that the
conversion caches of one configuration cannot mask another.
"""
import argparse
import contextlib
import functools
import inspect
import io
import itertools
import linecache
import os
import random
import shutil
import sys
import textwrap
import time
import traceback
import types

sys.path.insert(0, os.path.dirname(os.path.abspath(__file__)))
import harness

from malt.impl import api, conversion
from malt.core import ag_ctx, converter
from malt.operators import py_builtins
from malt.pyct import errors as pyct_errors
from malt.utils import ag_logging

Feature = converter.Feature
FEATS = tuple(sorted(Feature.all_but([Feature.NAME_SCOPES, Feature.AUTO_CONTROL_DEPS]), key=lambda f: f.value))

# ----------------------------------------------------------------------------------------------- zoo source

FN_T = '''
def {name}({selfarg}a, b=2, *rest, k=5, **kw):
  _rec(('{name}', {selftag}a, b, rest, k, sorted(kw.items())))
  if a:
    b = b + 1
  return ('{name}', a, b, rest, k, sorted(kw.items()))
'''


def fn_src(name, selfarg='', selftag='', indent=0, deco=None):
  s = FN_T.format(name=name, selfarg=selfarg, selftag=selftag)
  if deco:
    s = '\n' + deco + s
  return textwrap.indent(s, ' ' * indent)


def method(name, indent=2, deco=None):
  return fn_src(name, 'self, ', 'type(self).__name__, ', indent, deco)


def clsmethod(name, indent=2):
  return fn_src(name, 'cls, ', "getattr(cls, '__name__', repr(type(cls))), ", indent, '@classmethod')


ALLOW_SRC = '''
"""Stand-in for a module matched (or not) by config.CONVERSION_RULES, depending on the name it is loaded under."""
REC = []
_rec = REC.append      # re-pointed by the zoo module
''' + fn_src('al_fn') + '''
class AlBase(object):
''' + method('al_bm') + method('al_over') + '''
class AlCallable(object):
''' + method('__call__') + '''
AL_OBJ = AlBase()
AL_CALLABLE = AlCallable()
'''

ZOO_SRC = '''
import collections, functools, math, operator, sys, typing
from malt.impl import api as _api

REC = []
AL = dict((k, sys.modules[v]) for k, v in __AL_NAMES__.items())
_rec = REC.append      # not spelled `REC.append(...)` in the targets: the optional LISTS converter rewrites that form
for _m in AL.values():
  _m.REC = REC
  _m._rec = _rec

# ---- plain functions, lambdas
''' + fn_src('plain') + fn_src('plain_b') + fn_src('plain_c') + '''
lam = lambda a, b=2, *rest, k=5, **kw: (_rec(('lam', a, b, rest, k, sorted(kw.items()))), ('lam', a, b if not a else b + 1, rest, k, sorted(kw.items())))[1]
lam_p = lambda a_p, b_p=2, *rest_p, k=5, **kw_p: (_rec(('lam_p', a_p, b_p, rest_p, k, sorted(kw_p.items()))), ('lam_p', a_p, b_p, rest_p, k))[1]

def mutator(a, b=2, *rest, k=5, **kw):
  _rec(('mutator', list(a), b, rest, k, sorted(kw.items())))
  i = 0
  while i < 2:
    a.append(i + b)
    i += 1
  for v in kw.values():
    v.append(k)
  return len(a)

# ---- classes, methods, callable objects
class K(object):
''' + method('__init__').replace("return ('__init__', a, b, rest, k, sorted(kw.items()))", "self.state = (a, b, rest, k, sorted(kw.items()))") + method('m') + clsmethod('cm') + fn_src('sm', indent=2, deco='@staticmethod') + method('__call__') + '''
  def _vp_state(self):
    return self.state

class KS(K):
''' + method('m_sub') + '''
K_OBJ = K(0)
KS_OBJ = KS(0)
del REC[:]

class Meta(type):
  def __call__(cls, *args, **kwargs):
    _rec(('Meta.__call__', cls.__name__, args, sorted(kwargs.items())))
    if args:
      args = args[:1]
    return type.__call__(cls, *args, **kwargs)

class MK(metaclass=Meta):
  def __init__(self, a=0, **kw):
    _rec(('MK.__init__', a, sorted(kw.items())))
    self.state = (a, sorted(kw.items()))
  def _vp_state(self):
    return self.state

class CallStatic(object):
''' + fn_src('__call__', indent=2, deco='@staticmethod') + '''
class CallClassm(object):
''' + clsmethod('__call__') + '''
def _assigned(self, a, b=2, *rest, k=5, **kw):
  _rec(('_assigned', type(self).__name__, a, b, rest, k, sorted(kw.items())))
  if a:
    b = b + 1
  return ('_assigned', a, b, rest, k, sorted(kw.items()))

class CallAssigned(object):
  __call__ = _assigned

class CallPartialMethod(object):
''' + method('pm_target') + '''
  __call__ = functools.partialmethod(pm_target, 7)

class CallInherited(K):
  pass

class CallForeign(object):
  __call__ = K(0).m          # a bound method of another object: Python does not rebind it

class CallSlots(object):
  __slots__ = ('v',)
''' + method('__call__') + '''
class CallUnhashable(object):
  __hash__ = None
  def __eq__(self, other):
    return self is other
''' + method('__call__') + '''
class CallGetattr(object):
  def __getattr__(self, name):
    if name.startswith('__'):
      raise AttributeError(name)
    return 42
''' + method('__call__') + '''
class CallGen(object):
  def __call__(self, a, b=2, *rest, k=5, **kw):
    _rec(('CallGen', a, b, rest, k, sorted(kw.items())))
    yield a
    yield b

CALL_INHERITED = CallInherited(0)
del REC[:]

# ---- exec / eval / compile defined
_ns = {'REC': REC, '_rec': _rec}
exec(""" ''' + fn_src('execfn').replace('\n', '\\n') + ''' """.strip(), _ns)
execfn = _ns['execfn']
evallam = eval("lambda a, b=2, *rest, k=5, **kw: (_rec(('evallam', a, b, rest, k, sorted(kw.items()))), ('evallam', a, b, rest, k))[1]", _ns)
_ns2 = {'REC': REC, '_rec': _rec}
exec(compile(""" ''' + fn_src('nosrcfn').replace('\n', '\\n') + ''' """.strip(), '<vp-nosource>', 'exec'), _ns2)
nosrcfn = _ns2['nosrcfn']

# ---- generator functions
def gen(a, b=2, *rest, k=5, **kw):
  _rec(('gen', a, b, rest, k, sorted(kw.items())))
  i = 0
  while i < 2:
    yield (a, b, i, rest, k)
    i += 1

# ---- target raising by itself
class ZooError(Exception):
  def __init__(self, code, detail):
    Exception.__init__(self, code, detail)
    self.code = code

def raiser(a, b=2, *rest, k=5, **kw):
  _rec(('raiser', a, b, rest, k, sorted(kw.items())))
  if a == 1:
    raise ValueError('boom', b)
  if a == 2:
    raise ZooError(7, 'x')
  if a == 3:
    return dict()['missing']
  if a == 4:
    return 1 // (a - 4)
  if a == 5:
    raise AssertionError('target assertion')
  if a == 6:
    raise NotImplementedError('target nie')
  return a

class RaiserObj(object):
  def __call__(self, a, b=2, *rest, k=5, **kw):
    _rec(('RaiserObj', a, b, rest, k, sorted(kw.items())))
    if a:
      raise ZooError(a, 'obj')
    return a
  def m(self, a, b=2, *rest, k=5, **kw):
    _rec(('RaiserObj.m', a, b, rest, k, sorted(kw.items())))
    if a:
      raise KeyError(a)
    return a

# ---- decorated
def deco(fn):
  @functools.wraps(fn)
  def wrapper(*args, **kwargs):
    _rec(('wrapper', args, sorted(kwargs.items())))
    if args:
      kwargs = dict(kwargs)
    return fn(*args, **kwargs)
  return wrapper
''' + fn_src('deco_inner', deco='@deco') + fn_src('lru_inner') + fn_src('cc_inner') + '''
class CountCalls(object):
  def __init__(self, fn):
    self.fn = fn
    self.n = 0
  def __call__(self, *args, **kwargs):
    _rec(('CountCalls', args, sorted(kwargs.items())))
    self.n += 1
    if self.n:
      pass
    return self.fn(*args, **kwargs)

# ---- namedtuples
NT = collections.namedtuple('NT', 'x y')
NTD = collections.namedtuple('NTD', 'x y', defaults=(5,))
class P(NT):
''' + method('norm') + '''
class TN(typing.NamedTuple):
  x: int
  y: int = 3
''' + method('tm') + '''
# ---- user subclass of an allow-listed class
class UserSub(AL['deny'].AlBase):
''' + method('al_over') + method('own') + '''
USER_SUB = UserSub()

# ---- artifacts
''' + ''.join(fn_src(n) for n in ('tg_fn', 'art_fn', 'dnc_fn', 'cv_fn', 'cwu_fn', 'tg_conv_child', 'tg_dnc_child_fn',
                                  'dnc_outer_child')) + '''
tg = _api.to_graph(tg_fn)
art = _api.autograph_artifact(art_fn)
dnc = _api.do_not_convert(dnc_fn)
cv = _api.convert(recursive=True)(cv_fn)
cwu = _api.call_with_unspecified_conversion_status(cwu_fn)
tg_dnc_child = _api.do_not_convert(tg_dnc_child_fn)
def tg_outer_fn(a, b=2, *rest, k=5, **kw):
  _rec(('tg_outer_fn', a, b, rest, k, sorted(kw.items())))
  x = tg_conv_child(a, b, *rest, k=k, **kw)
  y = tg_dnc_child(a, b, *rest, k=k, **kw)
  return (x, y)
tg_outer = _api.to_graph(tg_outer_fn)
def dnc_outer_fn(a, b=2, *rest, k=5, **kw):
  _rec(('dnc_outer_fn', a, b, rest, k, sorted(kw.items())))
  return dnc_outer_child(a, b, *rest, k=k, **kw)
dnc_outer = _api.do_not_convert(dnc_outer_fn)
dnc_method = _api.do_not_convert(K_OBJ.m)

# ---- nested call (fault injection into the callee only)
''' + fn_src('nest_inner') + '''
def nest_outer(a, b=2, *rest, k=5, **kw):
  _rec(('nest_outer', a, b, rest, k, sorted(kw.items())))
  if a:
    b = b + 10
  return ('nest_outer', nest_inner(a, b, *rest, k=k, **kw))
'''

AL_VARIANTS = [
    # key, module name pattern, matched by a DoNotConvert rule first?
    ('deny', 'keras.vpz_%s', True),
    ('near', 'kerasx_vpz_%s', False),
    ('conv', 'tensorflow.python.training.experimental.vpz_%s', False),   # Convert rule precedes DoNotConvert('tensorflow')
    ('tf', 'tensorflow.python.vpz_%s', True),
    ('absl_l', 'absl.logging.vpz_%s', True),
    ('absl', 'absl.vpz_%s', False),
    ('malt', 'malt.vpz_%s', True),
    ('maltese', 'maltese_vpz_%s', False),
]

_uid = itertools.count()


def load_zoo():
  """Fresh allow-list stand-in modules + a fresh zoo module."""
  tag = '%d_%d' % (os.getpid(), next(_uid))
  names = {}
  loaded = []
  for key, pat, _ in AL_VARIANTS:
    n = pat % tag
    harness.load_source(ALLOW_SRC, n)
    names[key] = n
    loaded.append(n)
  zname = 'vp_c13_zoo_%s' % tag
  mod = harness.load_source(ZOO_SRC.replace('__AL_NAMES__', repr(names)), zname)
  loaded.append(zname)
  return mod, loaded


def unload_zoo(loaded):
  for n in loaded:
    harness.unload(n)


# ----------------------------------------------------------------------------------------------- entries

class Entry(object):
  """policy: 'convert' | 'allow' (converted only when user_requested) | 'allow-real' (same, real stdlib code:
  a conversion failure with one warning is accepted) | 'never' | 'nosource' (never, one warning) |
  'own-convert' (artifact that converts by itself unless the context is DISABLED) | 'any' (transparency only)."""

  def __init__(self, name, make, policy, top=(), child=(), always=(), shapes='generic', prefix=None, core=None,
               kind='', prescoped=False, hashable_args=False, witness=None):
    self.name, self.make, self.policy = name, make, policy
    self.top, self.child, self.always = set(top), set(child), set(always)
    self.shapes, self.prefix, self.core = shapes, prefix, core
    self.kind = kind or name
    self.prescoped = prescoped          # runs converted code regardless (to_graph output)
    self.hashable_args = hashable_args
    self.witness = witness              # (sig, what): genuine finding kept out of the default space, replayed explicitly


def P_(f, *a, **k):
  return functools.partial(f, *a, **k)


def build_entries():
  E = []
  add = lambda *a, **k: E.append(Entry(*a, **k))
  # plain / lambda
  add('plain', lambda m: m.plain, 'convert', top=['plain'], kind='function')
  add('lam', lambda m: m.lam, 'convert', top=['<lambda>'], kind='lambda')
  add('lam_p', lambda m: m.lam_p, 'convert', top=['<lambda>'], kind='lambda')
  add('mutator', lambda m: m.mutator, 'convert', top=['mutator'], shapes='mutable', kind='function')
  # methods
  add('bound', lambda m: m.K_OBJ.m, 'convert', top=['m'], kind='bound-method')
  add('bound-inherited', lambda m: m.KS_OBJ.m, 'convert', top=['m'], kind='bound-method')
  add('bound-sub', lambda m: m.KS_OBJ.m_sub, 'convert', top=['m_sub'], kind='bound-method')
  add('unbound', lambda m: m.K.m, 'convert', top=['m'], prefix=lambda m: (m.K_OBJ,), kind='unbound-method')
  add('classm', lambda m: m.K.cm, 'convert', top=['cm'], kind='class-method')
  add('classm-via-obj', lambda m: m.K_OBJ.cm, 'convert', top=['cm'], kind='class-method')
  add('classm-sub', lambda m: m.KS.cm, 'convert', top=['cm'], kind='class-method')
  add('static', lambda m: m.K.sm, 'convert', top=['sm'], kind='static-method')
  add('static-via-obj', lambda m: m.K_OBJ.sm, 'convert', top=['sm'], kind='static-method')
  # callable objects
  add('callobj', lambda m: m.K_OBJ, 'convert', top=['__call__'], kind='callable-object')
  add('callobj-inherited', lambda m: m.CALL_INHERITED, 'convert', top=['__call__'], kind='callable-object')
  # (transparency and policy hold for these two; only the fault-injection part treats them as witnesses)
  add('callobj-slots', lambda m: m.CallSlots(), 'convert', top=['__call__'], kind='callable-object')
  add('callobj-unhashable', lambda m: m.CallUnhashable(), 'convert', top=['__call__'], kind='callable-object')
  add('callobj-assigned', lambda m: m.CallAssigned(), 'convert', top=['_assigned'], kind='callable-object')
  add('callobj-getattr', lambda m: m.CallGetattr(), 'any', kind='callable-object')
  add('callobj-gen', lambda m: m.CallGen(), 'never', kind='callable-object')
  W = 'callable-object-call-descriptor-rebound'
  add('callobj-static', lambda m: m.CallStatic(), 'any', kind='callable-object-exotic', witness=W)
  add('callobj-classm', lambda m: m.CallClassm(), 'any', kind='callable-object-exotic', witness=W)
  add('callobj-foreign-bound', lambda m: m.CallForeign(), 'any', kind='callable-object-exotic', witness=W)
  add('callobj-partialmethod', lambda m: m.CallPartialMethod(), 'any', kind='callable-object-exotic')
  # classes
  add('class', lambda m: m.K, 'never', kind='class')
  add('class-sub', lambda m: m.KS, 'never', kind='class')
  add('class-meta', lambda m: m.MK, 'convert', top=['__call__'], shapes='meta', kind='class-callable-metaclass')
  # partials
  add('partial-1', lambda m: P_(m.plain_b, 1), 'convert', top=['plain_b'], shapes='partial', core=lambda m, f: m.plain_b,
      kind='partial')
  add('partial-nokw', lambda m: P_(m.plain_b), 'convert', top=['plain_b'], core=lambda m, f: m.plain_b, kind='partial')
  add('partial-kw', lambda m: P_(m.plain_b, 1, k=7, z=1), 'convert', top=['plain_b'], shapes='partial',
      core=lambda m, f: m.plain_b, kind='partial')
  add('partial-nested', lambda m: P_(P_(P_(m.plain_b, 1, k=7, z=1), 3, k=8, y=2), 4, z=3, w=0), 'convert',
      top=['plain_b'], shapes='partial', core=lambda m, f: m.plain_b, kind='partial-nested')
  add('partial-lambda', lambda m: P_(P_(m.lam, k=1), 0, k=2), 'convert', top=['<lambda>'], shapes='partial',
      kind='partial-nested')
  add('partial-bound', lambda m: P_(P_(m.K_OBJ.m, 1, k=7), k=9, q=1), 'convert', top=['m'], shapes='partial',
      kind='partial-nested')
  add('partial-classm', lambda m: P_(m.K.cm, 1, k=7), 'convert', top=['cm'], shapes='partial', kind='partial')
  add('partial-callobj', lambda m: P_(m.K_OBJ, 1, k=7), 'convert', top=['__call__'], shapes='partial', kind='partial')
  add('partial-class', lambda m: P_(P_(m.K, 1, k=7), k=8), 'never', shapes='partial', kind='partial-nested')
  add('partial-gen', lambda m: P_(m.gen, 1, k=7), 'never', shapes='partial', kind='partial')
  add('partial-artifact', lambda m: P_(m.dnc, 1, k=7), 'never', shapes='partial', kind='partial')
  add('partial-tg', lambda m: P_(m.tg, 1, k=7), 'never', shapes='partial', kind='partial', prescoped=True)
  add('partial-int', lambda m: P_(int, base=16), 'never', shapes=[(('ff',), None), (('7',), {'base': 8}), (('zz',), {})],
      kind='partial-builtin')
  add('partial-sorted', lambda m: P_(P_(sorted, reverse=True), key=abs), 'never',
      shapes=[(([3, -5, 1],), None), (([3, -5, 1],), {'reverse': False}), ((3,), {})], kind='partial-builtin')
  add('partial-max', lambda m: P_(max, 3), 'never', shapes=[((1, 7), None), ((1,), {'key': abs})], kind='partial-builtin')
  add('partial-cfn', lambda m: P_(__import__('operator').add, 1), 'never', shapes=[((2,), None), ((2, 3), {})],
      kind='partial-cfunction')
  add('partial-allow', lambda m: P_(P_(m.AL['deny'].AL_OBJ.al_bm, 1), k=3), 'allow', top=['al_bm'], shapes='partial',
      kind='partial-of-allowlisted-method')
  # exec / eval / compile
  add('exec', lambda m: m.execfn, 'never', kind='exec-defined')
  add('eval-lambda', lambda m: m.evallam, 'never', kind='exec-defined')
  add('nosource', lambda m: m.nosrcfn, 'nosource', kind='source-less')
  # generators
  add('gen', lambda m: m.gen, 'never', kind='generator-function')
  # raising targets
  add('raiser', lambda m: m.raiser, 'convert', top=['raiser'], shapes='raiser', kind='raising-target')
  add('raiser-obj', lambda m: m.RaiserObj(), 'convert', top=['__call__'], shapes='raiser2', kind='raising-target')
  add('raiser-method', lambda m: m.RaiserObj().m, 'convert', top=['m'], shapes='raiser2', kind='raising-target')
  add('raiser-partial', lambda m: P_(m.raiser, k=1), 'convert', top=['raiser'], shapes='raiser', kind='raising-target')
  # decorated
  add('wraps', lambda m: m.deco_inner, 'convert', top=['wrapper'], child=['deco_inner'], kind='decorated')
  add('lru_cache', lambda m: functools.lru_cache(maxsize=None)(m.lru_inner), 'never', kind='decorated',
      hashable_args=True)
  add('class-decorator', lambda m: m.CountCalls(m.cc_inner), 'convert', top=['__call__'], child=['cc_inner'],
      kind='decorated')
  # namedtuples
  nt_shapes = [((1, 2), None), ((1,), {'y': 2}), ((), {'x': 1, 'y': 2}), ((1,), None), ((1, 2), {'y': 3})]
  add('namedtuple', lambda m: m.NT, 'never', shapes=nt_shapes, kind='namedtuple-class')
  add('namedtuple-defaults', lambda m: m.NTD, 'never', shapes=nt_shapes, kind='namedtuple-class')
  add('namedtuple-sub', lambda m: m.P, 'never', shapes=nt_shapes, kind='namedtuple-class')
  add('typing-namedtuple', lambda m: m.TN, 'never', shapes=nt_shapes, kind='namedtuple-class')
  add('namedtuple-_make', lambda m: m.NT._make, 'allow-real', top=['_make'], shapes=[(([1, 2],), None), (([1],), {})],
      kind='namedtuple-method')
  add('namedtuple-_replace', lambda m: m.NT(1, 2)._replace, 'allow-real', top=['_replace'],
      shapes=[((), {'x': 5}), ((), None), ((), {'q': 1})], kind='namedtuple-method')
  add('namedtuple-sub-method', lambda m: m.P(1, 2).norm, 'convert', top=['norm'], kind='namedtuple-method')
  add('typing-namedtuple-method', lambda m: m.TN(1).tm, 'convert', top=['tm'], kind='namedtuple-method',
      witness='typing-namedtuple-method-not-converted')
  # allow-listed modules (stand-ins under rule-matching names) and neighbours
  for key, _, denied in AL_VARIANTS:
    pol = 'allow' if denied else 'convert'
    add('al-fn-' + key, (lambda key: lambda m: m.AL[key].al_fn)(key), pol, top=['al_fn'], kind='allowlist-module-function')
    add('al-method-' + key, (lambda key: lambda m: m.AL[key].AL_OBJ.al_bm)(key), pol, top=['al_bm'],
        kind='allowlist-module-method')
    add('al-callobj-' + key, (lambda key: lambda m: m.AL[key].AL_CALLABLE)(key), pol, top=['__call__'],
        kind='allowlist-module-callable-object')
    add('al-class-' + key, (lambda key: lambda m: m.AL[key].AlBase)(key), 'never', shapes=[((), None), ((), {})],
        kind='allowlist-module-class')
  add('al-sub-inherited', lambda m: m.USER_SUB.al_bm, 'allow', top=['al_bm'], kind='allowlist-subclass-method')
  add('al-sub-overridden', lambda m: m.USER_SUB.al_over, 'convert', top=['al_over'], kind='allowlist-subclass-method')
  add('al-sub-own', lambda m: m.USER_SUB.own, 'convert', top=['own'], kind='allowlist-subclass-method')
  # real allow-listed modules
  import copy, posixpath, re, collections, pathlib, urllib.parse, threading
  add('posixpath.join', lambda m: posixpath.join, 'allow-real', top=['join'], shapes=[(('/a', 'b'), None), (('a',), {})],
      kind='allowlist-real')
  add('posixpath.basename', lambda m: posixpath.basename, 'allow-real', top=['basename'], shapes=[(('/a/b',), None)],
      kind='allowlist-real')
  add('urllib.parse.quote', lambda m: urllib.parse.quote, 'allow-real', top=['quote'],
      shapes=[(('a b',), None), (('a/b',), {'safe': ''})], kind='allowlist-real')
  add('pathlib-method', lambda m: pathlib.PurePosixPath('/a').joinpath, 'allow-real', top=['joinpath'],
      shapes=[(('b',), None)], kind='allowlist-real')
  add('threading.current_thread', lambda m: threading.current_thread, 'allow-real', top=['current_thread'],
      shapes=[((), None)], kind='allowlist-real')
  add('copy.copy', lambda m: copy.copy, 'never', shapes=[(([1, 2],), None)], kind='builtin-module')
  add('re.escape', lambda m: re.escape, 'never', shapes=[(('a.b',), None), ((5,), {})], kind='builtin-module')
  add('inspect.isfunction', lambda m: inspect.isfunction, 'never', shapes=[((len,), None)], kind='builtin-module')
  add('collections.OrderedDict', lambda m: collections.OrderedDict, 'never', shapes=[((), {'a': 1}), (([('a', 1)],), None)],
      kind='builtin-module')
  add('pathlib.PurePosixPath', lambda m: pathlib.PurePosixPath, 'never', shapes=[(('/a', 'b'), None)], kind='allowlist-real')
  add('overload-len_', lambda m: py_builtins.len_, 'allow-real', top=['len_'], shapes=[(([1, 2],), None), ((3,), {})],
      kind='builtin-overload')
  add('overload-sorted_', lambda m: py_builtins.sorted_, 'allow-real', top=['sorted_'],
      shapes=[(([3, 1, 2],), {'reverse': True}), (([3, 1],), None)], kind='builtin-overload')
  add('overload-range_', lambda m: py_builtins.range_, 'allow-real', top=['range_'], shapes=[((1, 7, 2), None), ((3,), {})],
      kind='builtin-overload')
  # builtins
  B = lambda name, f, shapes, kind='builtin': add('builtin-' + name, (lambda f: lambda m: f)(f), 'never', shapes=shapes,
                                                   kind=kind)
  B('len', len, [(([1, 2, 3],), None), (('abc',), {}), ((5,), None)])
  B('abs', abs, [((-3,), None), ((-2.5,), {}), (('x',), None)])
  B('int', int, [(('ff',), {'base': 16}), (('12',), None), ((), None), ((3.7,), {}), (('zz',), None), (('11', 2), None)])
  B('float', float, [(('1.5',), None), ((), {}), (('x',), None)])
  B('sorted', sorted, [(([3, 1, 2],), {'reverse': True}), (([[1, 2], [0]],), {'key': len}), (([3, 1],), None),
                       (([3, 'a'],), {})])
  B('range', range, [((3,), None), ((1, 7, 2), {}), ((1, 7, 0), None)])
  B('print', print, [(('a', 1), {'sep': '-', 'end': '!\n'}), ((), None), (('x',), {})])
  B('print-file', print, 'printfile')
  B('max', max, [((3, 1, 2), None), (([3, -4, 2],), {'key': abs}), (([],), {'default': 0}), (([],), None)])
  B('min', min, [((3, 1, 2), None), (([3, -4, 2],), {'key': abs})])
  B('sum', sum, [(([1, 2],), None), (([1, 2], 10), {}), (([1, 2],), {'start': 5})])
  B('isinstance', isinstance, [((1, int), None), ((1, 5), None)])
  B('dict', dict, [((), {'a': 1}), (([('a', 1)],), {'b': 2}), ((), None)])
  B('list', list, [(('ab',), None), ((), {})])
  B('tuple', tuple, [(([1, 2],), None)])
  B('str', str, [((5,), None), ((b'ab',), {'encoding': 'utf-8'}), ((), None)])
  B('zip', zip, [(([1, 2], 'ab'), None), ((), {}), (([1], [2, 3]), {'strict': True})])
  B('map', map, [((abs, [-1, 2]), None), ((pow, [2, 3], [2, 2]), {})])
  B('enumerate', enumerate, [((['a', 'b'],), None), ((['a'], 1), {}), ((['a'],), {'start': 3})])
  B('filter', filter, [((None, [0, 1, 2]), None), ((callable, [len, 1]), {})])
  B('getattr', getattr, [((1, 'real'), None), ((1, 'nope', 'dflt'), {}), ((1, 'nope'), None)])
  B('all', all, [(([1, 0],), None)])
  B('any', any, [(([0, 1],), {})])
  B('divmod', divmod, [((7, 2), None), ((7, 0), None)])
  B('pow', pow, [((2, 3), None), ((2, 3), {'mod': 5}), ((), {'base': 2, 'exp': 5})])
  B('round', round, [((2.567,), {'ndigits': 2}), ((2.5,), None)])
  B('type', type, [((1,), None)])
  B('bool', bool, [(([],), None), ((), None)])
  B('repr', repr, [(('x',), None)])
  B('callable', callable, [((len,), None)])
  B('hash', hash, [(((1, 2),), None), (([],), None)])
  B('iter-next', next, 'nextshape')
  B('bytes', bytes, [((3,), None), (('ab',), {'encoding': 'ascii'})])
  B('str.join', '-'.join, [((['a', 'b'],), None), ((5,), {})], kind='builtin-bound-method')
  B('dict.get', {'a': 1}.get, [(('a',), None), (('z', 5), {})], kind='builtin-bound-method')
  B('str.upper', str.upper, [(('ab',), None), ((5,), None)], kind='method-descriptor')
  B('dict.fromkeys', dict.fromkeys, [((['a'], 0), None)], kind='builtin-class-method')
  B('int.from_bytes', int.from_bytes, [((b'\x01\x00',), {'byteorder': 'big'})], kind='builtin-class-method')
  # C functions
  import math, operator
  B('math.sqrt', math.sqrt, [((4.0,), None), ((-1,), {}), (('x',), None)], kind='c-function')
  B('math.fsum', math.fsum, [(([0.1, 0.2],), None)], kind='c-function')
  B('math.log', math.log, [((8, 2), None), ((8,), {})], kind='c-function')
  B('operator.add', operator.add, [((1, 2), None), (('a', 1), {})], kind='c-function')
  B('operator.itemgetter', operator.itemgetter(1), [(([5, 6],), None), (([5],), {})], kind='c-callable-object')
  B('operator.methodcaller', operator.methodcaller('upper'), [(('ab',), None)], kind='c-callable-object')
  B('functools.reduce', functools.reduce, [((operator.add, [1, 2, 3]), None), ((operator.add, [1, 2], 10), {})],
    kind='c-function')
  # artifacts
  add('artifact-to_graph', lambda m: m.tg, 'never', kind='converted-artifact', prescoped=True)
  add('artifact-marked', lambda m: m.art, 'never', kind='converted-artifact')
  add('do_not_convert', lambda m: m.dnc, 'never', kind='do-not-convert')
  add('do_not_convert-method', lambda m: m.dnc_method, 'never', kind='do-not-convert')
  add('do_not_convert-outer', lambda m: m.dnc_outer, 'never', kind='do-not-convert')
  add('convert-wrapper', lambda m: m.cv, 'own-convert', top=['cv_fn'], kind='convert-decorator')
  add('unspecified-wrapper', lambda m: m.cwu, 'never', kind='converted-artifact')
  add('to_graph-outer', lambda m: m.tg_outer, 'never', always=['tg_conv_child'], kind='converted-artifact', prescoped=True)
  return E


class Fresh(object):
  """An argument that must be built anew for every call (mutable / consumable)."""

  def __init__(self, fn):
    self.fn = fn


def shapes_for(entry):
  s = entry.shapes
  if isinstance(s, list):
    return s
  if s == 'generic':
    out = [((1,), None), ((0,), {}), ((1, 3), None), ((1, 3, 4, 5), {}), ((1,), {'k': 7}), ((0,), {'b': 3, 'z': 9}),
           ((1, 2) + tuple([8, 9]), dict(k=1, **{'y': 2})), ((), {'a': 1}), ((), {'a': 0, 'b': 1, 'k': 2, 'w': 3}),
           ((), None), ((1, 2), {'b': 3}), ((), {})]
    if not entry.hashable_args:
      out.append(((Fresh(lambda: [1]),), {'z': Fresh(lambda: {'q': 1})}))
    return out
  if s == 'partial':
    return [((), None), ((), {}), ((5,), None), ((5, 6), {'k': 9}), ((), {'k': 0, 'z': 4, 'v': 1}), ((5,), {'y': 3}),
            (tuple([5]) + tuple([6, 7]), dict(**{'w': 1}))]
  if s == 'mutable':
    return [((Fresh(lambda: [1]),), None), ((Fresh(lambda: []), 3), {'z': Fresh(lambda: [9])}),
            ((Fresh(lambda: [1]),), {'k': 2, 'p': Fresh(lambda: []), 'q': Fresh(lambda: [0])})]
  if s == 'raiser':
    return [((i,), kw) for i, kw in zip(range(0, 7), [None, {}, {'b': 1}, None, {'z': 1}, None, {}, None])]
  if s == 'raiser2':
    return [((0,), None), ((1,), {}), ((2,), {'k': 3}), ((), None)]
  if s == 'meta':
    return [((), None), ((1,), {}), ((1, 2), {'z': 1}), ((), {'a': 4})]
  if s == 'printfile':
    return [(('a', 1), {'file': Fresh(io.StringIO)}), (('a',), {'file': Fresh(io.StringIO), 'end': '', 'flush': True})]
  if s == 'nextshape':
    return [((Fresh(lambda: iter([1, 2])),), None), ((Fresh(lambda: iter([])), 'd'), {}), ((Fresh(lambda: iter([])),), None)]
  raise ValueError(s)


def materialise(shape, entry, mod):
  args, kwargs = shape
  fresh = lambda v: v.fn() if isinstance(v, Fresh) else v
  args = tuple(fresh(a) for a in args)
  if entry.prefix:
    args = entry.prefix(mod) + args
  if kwargs is not None:
    kwargs = dict((k, fresh(v)) for k, v in kwargs.items())
  return args, kwargs


# ----------------------------------------------------------------------------------------------- observation

_ITER_TYPES = (types.GeneratorType, map, zip, enumerate, filter, type(iter([])), type(iter(())), type(iter('')))


def norm(v, depth=0):
  if depth > 6:
    return '...'
  if isinstance(v, _ITER_TYPES):
    out = []
    try:
      for i, x in enumerate(v):
        out.append(norm(x, depth + 1))
        if i > 50:
          break
    except Exception as e:      # pylint:disable=broad-except
      out.append(('raised', type(e).__name__))
    return ('iter:' + type(v).__name__, out)
  if hasattr(type(v), '_vp_state'):
    return (type(v).__name__, norm(v._vp_state(), depth + 1))
  if isinstance(v, io.StringIO):
    return ('StringIO', v.getvalue())
  if isinstance(v, (tuple, list)):
    return (type(v).__name__, [norm(x, depth + 1) for x in v])
  if isinstance(v, dict):
    return (type(v).__name__, sorted((repr(k), norm(x, depth + 1)) for k, x in v.items()))
  if isinstance(v, (types.FunctionType, types.BuiltinFunctionType, type)):
    return ('callable', getattr(v, '__qualname__', repr(v)))
  r = repr(v)
  if ' at 0x' in r:
    r = type(v).__name__
  return (type(v).__name__, r)


def run(thunk):
  out = io.StringIO()
  try:
    with contextlib.redirect_stdout(out):
      r = thunk()
      res = ('ok', norm(r))
  except Exception as e:      # pylint:disable=broad-except
    res = ('exc', type(e).__name__, None if isinstance(e, TypeError) else norm(e.args), e)
  return res, out.getvalue()


def same_outcome(a, b):
  return a[:3] == b[:3]


class Obs(object):
  """Process-wide instrumentation: warnings, conversion attempts / successes, executed function scopes."""

  def __init__(self):
    self.on = False
    self.depth = 0                    # > 0 while inside api._convert_actual (the conversion pipeline)
    self.reset()
    ag = api._TRANSPILER.get_extra_locals()['ag__']
    self.ag = ag
    real_ca = api._convert_actual
    real_fs = ag.FunctionScope
    real_wfs = ag.with_function_scope
    obs = self

    def convert_actual(entity, program_ctx):
      name = getattr(getattr(entity, '__code__', None), 'co_name', repr(entity))
      if obs.on:
        obs.attempts.append(name)
      obs.depth += 1
      try:
        r = real_ca(entity, program_ctx)
      finally:
        obs.depth -= 1
      if obs.on:
        obs.converted.append(name)
      return r

    def function_scope(function_name, scope_name, options):
      if obs.on:
        obs.scopes.append(function_name)
      return real_fs(function_name, scope_name, options)

    def with_function_scope(thunk, scope_name, options):
      if obs.on:
        obs.scopes.append('lambda_')
      return real_wfs(thunk, scope_name, options)

    def warning(msg, *args, **kwargs):
      if obs.on:
        try:
          obs.warnings.append((msg % args) if args else msg)
        except Exception:      # pylint:disable=broad-except
          obs.warnings.append(str(msg))

    api._convert_actual = convert_actual
    ag.FunctionScope = function_scope
    ag.with_function_scope = with_function_scope
    ag_logging.warning = warning
    self.real_fs = real_fs

  def reset(self):
    self.warnings, self.attempts, self.converted, self.scopes = [], [], [], []

  @contextlib.contextmanager
  def window(self):
    self.reset()
    self.on = True
    try:
      yield self
    finally:
      self.on = False


OBS = None


def obs():
  global OBS
  if OBS is None:
    OBS = Obs()
  return OBS


# ----------------------------------------------------------------------------------------------- configurations

STATUS = {'ENABLED': ag_ctx.Status.ENABLED, 'DISABLED': ag_ctx.Status.DISABLED, 'UNSPECIFIED': ag_ctx.Status.UNSPECIFIED,
          'NONE': None}


def configs(tier):
  out = []
  i = 0
  for recursive in (True, False):
    for user_requested in (True, False):
      for via in ('options', 'call_options', 'scope'):
        for status in ('ENABLED', 'DISABLED', 'UNSPECIFIED', 'NONE'):
          for strict in (False, True):
            if status == 'NONE' and (strict or via != 'options'):
              continue
            if tier == 'quick' and strict and via != 'options':
              continue
            feats = 'none' if i % 2 == 0 else 'most'
            i += 1
            out.append(dict(recursive=recursive, user_requested=user_requested, via=via, status=status, strict=strict,
                            feats=feats))
  return out


def cfg_name(c):
  return 'rec=%d,ur=%d,via=%s,ctx=%s,strict=%d,feats=%s' % (c['recursive'], c['user_requested'], c['via'], c['status'],
                                                           c['strict'], c['feats'])


def make_options(c):
  base = converter.ConversionOptions(recursive=c['recursive'], user_requested=c['user_requested'],
                                     optional_features=None if c['feats'] == 'none' else FEATS)
  if c['via'] == 'options':
    return base, dict(options=base)
  if c['via'] == 'call_options':
    eff = base.call_options()
    return eff, dict(options=eff)
  scope = obs().real_fs('caller', 'fscope', base)
  return scope.callopts, dict(caller_fn_scope=scope, options=None)


@contextlib.contextmanager
def environment(c):
  old = os.environ.get('AUTOGRAPH_STRICT_CONVERSION')
  if c['strict']:
    os.environ['AUTOGRAPH_STRICT_CONVERSION'] = '1'
  else:
    os.environ.pop('AUTOGRAPH_STRICT_CONVERSION', None)
  try:
    st = STATUS[c['status']]
    if st is None:
      yield
    else:
      with ag_ctx.ControlStatusCtx(status=st):
        yield
  finally:
    if old is None:
      os.environ.pop('AUTOGRAPH_STRICT_CONVERSION', None)
    else:
      os.environ['AUTOGRAPH_STRICT_CONVERSION'] = old


def expected_converted(entry, eff, status):
  """The documented policy (functions.md 'Function conversion rules', convert() docstring, property C13)."""
  enabled = status != 'DISABLED'
  own = eff.internal_convert_user_code          # False exactly for calls made from non-recursive converted code
  pol = entry.policy
  exp = set(entry.always)
  if pol in ('convert',):
    top = enabled and own
  elif pol in ('allow', 'allow-real'):
    top = enabled and own and eff.user_requested
  elif pol == 'own-convert':
    return exp | ((entry.top | entry.child) if enabled else set())
  else:
    top = False
  if top:
    exp |= entry.top
    if eff.recursive:
      exp |= entry.child
  return exp


# ----------------------------------------------------------------------------------------------- part 1: zoo

def check_zoo_config(item):
  ci, c, entry_filter = item
  o = obs()
  entries = build_entries()
  if entry_filter:
    entries = [e for e in entries if e.name in entry_filter]
  else:
    entries = [e for e in entries if not e.witness]
  res = dict(evaluated=0, nontrivial=set(), failures=[], samples=[], kinds=set(), notes={})
  mod, loaded = load_zoo()
  try:
    eff, call_kw = make_options(c)
    for entry in entries:
      warned = 0
      for si, shape in enumerate(shapes_for(entry)):
        try:
          f_case = one_zoo_case(o, mod, entry, shape, c, eff, call_kw, si, warned)
        except Exception as e:      # pylint:disable=broad-except
          f_case = dict(fail=[('harness-error', entry.name, '%s: %s' % (type(e).__name__, traceback.format_exc()[-400:]))],
                        nontrivial=False, warned=0, sample=None)
        warned += f_case['warned']
        res['evaluated'] += 1
        res['kinds'].add(entry.kind)
        if f_case['nontrivial']:
          res['nontrivial'].add((entry.name, si, c['recursive'], c['user_requested'], c['via'], c['status'] == 'DISABLED'))
        if f_case.get('sample') and len(res['samples']) < 2 and entry.kind.startswith('partial-nested'):
          res['samples'].append(f_case['sample'])
        for kind, sig, what in f_case['fail']:
          res['failures'].append(dict(kind=kind, sig=sig, what=what, entry=entry.name, callable_kind=entry.kind,
                                      shape=repr(shape_repr(shape)), config=cfg_name(c),
                                      program='converted_call(<%s>, *%s, options per config)' % (entry.name,
                                                                                                 repr(shape_repr(shape))),
                                      replay='c13_zoo.py 0 quick --no-inject --serial --entry %s --config "%s"' % (
                                          entry.name, cfg_name(c))))
  finally:
    unload_zoo(loaded)
  res['nontrivial'] = sorted(res['nontrivial'])
  res['kinds'] = sorted(res['kinds'])
  return res


def shape_repr(shape):
  a, k = shape
  f = lambda v: ('<fresh %r>' % (v.fn(),)) if isinstance(v, Fresh) else v
  return tuple(f(x) for x in a), (None if k is None else dict((n, f(v)) for n, v in k.items()))


def one_zoo_case(o, mod, entry, shape, c, eff, call_kw, si, warned_before):
  fails = []
  # reference: the direct call
  del mod.REC[:]
  f1 = entry.make(mod)
  a1, k1 = materialise(shape, entry, mod)
  if k1 is None:
    r1, out1 = run(lambda: f1(*a1))
  else:
    r1, out1 = run(lambda: f1(*a1, **k1))
  rec1 = norm(list(mod.REC))
  st1 = norm((a1, k1))
  # through the wrapper
  del mod.REC[:]
  f2 = entry.make(mod)
  a2, k2 = materialise(shape, entry, mod)
  k2_keys = None if k2 is None else sorted(k2)
  pk = partial_state(f2)
  remembered = conversion.is_in_allowlist_cache(f2, eff)      # real stdlib targets are shared between configurations
  with environment(c):
    with o.window():
      r2, out2 = run(lambda: api.converted_call(f2, a2, k2, **call_kw))
  rec2 = norm(list(mod.REC))
  st2 = norm((a2, k2))
  conv = set(o.converted)
  warnings = list(o.warnings)
  natural_failure = len(o.attempts) > len(o.converted)
  strict_raise = (c['strict'] and r2[0] == 'exc' and isinstance(r2[3], pyct_errors.PyCTError) and natural_failure)
  sig = entry.name
  if strict_raise:
    # strict mode turns a (natural) conversion failure into an error by design; the target must not have run
    if rec2 != norm([]):
      fails.append(('strict', sig, 'strict mode raised %s but the target ran: %r' % (r2[1], rec2)))
  else:
    if not same_outcome(r1, r2):
      fails.append(('transparency', sig + ':outcome', 'direct call gives %r, wrapper gives %r' % (r1[:3], r2[:3])))
    elif rec1 != rec2:
      fails.append(('transparency', sig + ':invocations', 'invocation records differ: direct %r, wrapper %r' % (rec1, rec2)))
    elif st1 != st2 or out1 != out2:
      fails.append(('transparency', sig + ':effects', 'argument state / output differ: direct %r %r, wrapper %r %r' % (
          st1, out1, st2, out2)))
    if (None if k2 is None else sorted(k2)) != k2_keys:
      fails.append(('transparency', sig + ':kwargs-mutated', 'the kwargs dict passed to the wrapper was mutated'))
    if partial_state(f2) != pk:
      fails.append(('transparency', sig + ':partial-mutated', 'the partial object was mutated: %r -> %r' % (pk, partial_state(f2))))
  # policy
  bound_ok = r1[0] == 'ok' or rec1 != norm([])      # the call reached the target (conversion happens before binding)
  exp = expected_converted(entry, eff, c['status'])
  if not bound_ok:
    exp -= entry.always             # converted only once the (already converted) body runs
  if entry.policy == 'any':
    pass
  elif entry.policy == 'allow-real' and remembered and not o.attempts:
    pass                            # an earlier (natural) conversion failure of this shared function was remembered
  elif entry.policy == 'allow-real' and natural_failure and not conv & entry.top:
    if not c['strict'] and len(warnings) != 1:
      fails.append(('fallback', sig + ':warnings', 'natural conversion failure with %d warnings' % len(warnings)))
  elif not strict_raise:
    if conv != exp:
      fails.append(('policy', sig + (':not-converted' if exp - conv else ':converted'),
                    'policy says converted=%s, _convert_actual succeeded for %s (attempts %s)' % (
                        sorted(exp), sorted(conv), o.attempts)))
    ran = set('<lambda>' if s == 'lambda_' else s for s in o.scopes)
    if bound_ok and not exp <= ran and r2[0] == 'ok':
      fails.append(('policy', sig + ':converted-code-not-run', 'converted %s but executed scopes were %s' % (sorted(exp), sorted(ran))))
    if not exp and ran and not entry.prescoped:
      fails.append(('policy', sig + ':ran-converted', 'nothing should be converted but converted scopes %s ran' % sorted(ran)))
  # warnings
  nwarn = len(warnings)
  if entry.policy == 'nosource' and c['status'] != 'DISABLED' and eff.internal_convert_user_code and not c['strict']:
    want = 1 if warned_before == 0 else 0
    if nwarn != want:
      fails.append(('fallback', sig + ':warnings', 'source-less function: %d warnings on call #%d, expected %d' % (nwarn, si, want)))
  elif entry.policy in ('convert', 'never', 'allow', 'own-convert') and nwarn and entry.name not in ('gen', 'partial-gen', 'callobj-gen'):
    fails.append(('policy', sig + ':unexpected-warning', 'unexpected warning: %s' % warnings[0][:160]))
  elif nwarn > 1:
    fails.append(('fallback', sig + ':warnings', '%d warnings for one call' % nwarn))
  nontrivial = bool(conv) or isinstance(f2, functools.partial) or entry.kind.startswith('builtin') or bool(warnings)
  sample = 'converted_call(%s, %r, %r) [%s] -> %r; converted=%s' % (entry.name, shape_repr(shape)[0], shape_repr(shape)[1],
                                                                  cfg_name(c), r2[:2], sorted(conv))
  return dict(fail=fails, nontrivial=nontrivial, warned=nwarn, sample=sample)


def partial_state(f):
  out = []
  while isinstance(f, functools.partial):
    out.append((norm(f.args), norm(dict(f.keywords))))
    f = f.func
  return out


# ----------------------------------------------------------------------------------------------- part 2: injection

class Boom(Exception):
  def __init__(self, a, b):
    Exception.__init__(self, a, b)


EXC_FACTORIES = [
    ('ValueError', lambda: ValueError('injected')),
    ('KeyError', lambda: KeyError('injected')),
    ('AssertionError', lambda: AssertionError('injected')),
    ('NotImplementedError', lambda: NotImplementedError('injected')),
    ('RuntimeError', lambda: RuntimeError('injected')),
    ('UnsupportedLanguageElementError', lambda: pyct_errors.UnsupportedLanguageElementError('injected')),
    ('InaccessibleSourceCodeError', lambda: pyct_errors.InaccessibleSourceCodeError('injected')),
    ('Boom', lambda: Boom('injected', 2)),
    ('SyntaxError', lambda: SyntaxError('injected')),
    ('RecursionError', lambda: RecursionError('injected')),
    ('OSError', lambda: OSError('injected')),
]


def stages():
  from malt.pyct import parser, origin_info, cfg, qual_names, loader, transpiler, inspect_utils
  from malt.pyct.static_analysis import activity, reaching_definitions
  from malt.core import unsupported_features_checker
  from malt.converters import (asserts, break_statements, call_trees, conditional_expressions, continue_statements,
                               control_flow, directives, functions, lists, logical_expressions, return_statements, slices,
                               variables)
  S = [
      ('source:inspect.findsource', inspect, 'findsource', 'OSError-only'),
      ('source:inspect.getsourcefile', inspect, 'getsourcefile', None),
      ('source:inspect_utils.getimmediatesource', inspect_utils, 'getimmediatesource', None),
      ('source:linecache.getlines', linecache, 'getlines', None),
      ('parse:parser.parse_entity', parser, 'parse_entity', None),
      ('parse:parser.parse', parser, 'parse', None),
      ('origin:origin_info.resolve_entity', origin_info, 'resolve_entity', None),
      ('check:unsupported_features_checker.verify', unsupported_features_checker, 'verify', None),
      ('analysis:cfg.build', cfg, 'build', None),
      ('analysis:qual_names.resolve', qual_names, 'resolve', None),
      ('analysis:activity.resolve', activity, 'resolve', None),
      ('analysis:reaching_definitions.resolve', reaching_definitions, 'resolve', None),
  ]
  for m in (functions, directives, break_statements, asserts, continue_statements, return_statements, lists, slices,
            call_trees, control_flow, conditional_expressions, logical_expressions, variables):
    S.append(('converter:%s.transform' % m.__name__.split('.')[-1], m, 'transform', None))
  S += [
      ('load:loader.load_ast', loader, 'load_ast', None),
      ('load:loader.load_source', loader, 'load_source', None),
      ('load:factory.instantiate', transpiler._PythonFnFactory, 'instantiate', None),
  ]
  return S


INJECT_TARGETS = ['plain', 'lam', 'bound', 'classm', 'static', 'callobj', 'partial-nested', 'partial-bound', 'wraps',
                  'class-meta', 'raiser', 'raiser-obj', 'nested']
INJECT_WITNESS_TARGETS = ['callobj-unhashable', 'callobj-slots']       # see WITNESSES


class Fault(object):
  """Replaces module.attr by a function that raises (every time, or only when an argument mentions `only`)."""

  def __init__(self, module, attr, make_exc, only=None):
    self.module, self.attr, self.make_exc, self.only = module, attr, make_exc, only
    self.real = getattr(module, attr)
    self.reached = 0
    self.raised = []
    self.active = False

  def _matches(self, args, kwargs):
    if self.only is None:
      return True
    import ast as _ast
    for v in list(args) + list(kwargs.values()):
      if getattr(getattr(v, '__code__', None), 'co_name', None) == self.only:
        return True
      nodes = v if isinstance(v, (list, tuple)) else [v]
      for n in nodes:
        if isinstance(n, _ast.AST):
          for x in _ast.walk(n):
            if isinstance(x, _ast.FunctionDef) and x.name in (self.only, 'ag__' + self.only):
              return True
    return False

  def install(self):
    fault = self

    def broken(*args, **kwargs):
      # faults are confined to the conversion pipeline: the policy predicates (is_allowlisted uses inspect.getmodule,
      # which may call getsourcefile) are not a stage of it
      if fault.active and obs().depth > 0 and fault._matches(args, kwargs):
        fault.reached += 1
        e = fault.make_exc()
        fault.raised.append(e)
        raise e
      return fault.real(*args, **kwargs)
    setattr(self.module, self.attr, broken)
    self.active = True

  def remove(self):
    self.active = False
    setattr(self.module, self.attr, self.real)


def check_injection(item):
  stage_name, exc_name, strict, target_filter = item
  o = obs()
  stage = [s for s in stages() if s[0] == stage_name][0]
  make_exc = dict(EXC_FACTORIES)[exc_name]
  entries = dict((e.name, e) for e in build_entries())
  res = dict(evaluated=0, nontrivial=set(), failures=[], samples=[], kinds=set(), notes={})
  targets = [t for t in INJECT_TARGETS + INJECT_WITNESS_TARGETS if t in target_filter] if target_filter else INJECT_TARGETS
  for ti, tname in enumerate(targets):
    mod, loaded = load_zoo()
    try:
      fails, reached, sample = one_injection_case(o, mod, entries, tname, stage, make_exc, exc_name, strict, ti)
    except Exception as e:      # pylint:disable=broad-except
      fails, reached, sample = [('harness-error', tname, traceback.format_exc()[-500:])], False, None
    finally:
      unload_zoo(loaded)
    res['evaluated'] += 1
    if reached:
      res['nontrivial'].add((stage_name, exc_name, strict, tname))
      if sample and len(res['samples']) < 1:
        res['samples'].append(sample)
    for kind, sig, what in fails:
      res['failures'].append(dict(kind=kind, sig=sig, what=what, entry=tname, stage=stage_name, exception=exc_name,
                                  strict=strict,
                                  program='converted_call(<%s>, ...) with %s raising %s' % (tname, stage_name, exc_name),
                                  replay='c13_zoo.py 0 quick --no-zoo --serial --stage "%s" --entry %s' % (stage_name, tname)))
  res['nontrivial'] = sorted(res['nontrivial'])
  return res


def one_injection_case(o, mod, entries, tname, stage, make_exc, exc_name, strict, ti):
  stage_name, module, attr, restriction = stage
  fails = []
  ur = bool(ti % 2)
  opts = converter.ConversionOptions(recursive=True, user_requested=ur, optional_features=FEATS)
  c = dict(strict=strict, status=['NONE', 'ENABLED', 'UNSPECIFIED'][ti % 3])
  nested = tname == 'nested'
  if nested:
    entry = Entry('nested', lambda m: m.nest_outer, 'convert', top=['nest_outer'], child=['nest_inner'])
    core = mod.nest_inner
    core_opts = opts.call_options()
    only = 'nest_inner'
    shape = ((1, 2, 3), {'k': 4, 'z': 5})
  else:
    entry = entries[tname]
    only = None
    core_opts = opts
    shape = {'raiser': ((2,), {'z': 1}), 'raiser-obj': ((3,), None), 'class-meta': ((1, 2), {'z': 1}),
             'partial-nested': ((5, 6), {'k': 9}), 'partial-bound': ((5,), {'k': 2})}.get(tname, ((1, 3, 4), {'k': 7, 'z': 9}))
  if restriction == 'OSError-only':
    make_exc = lambda: OSError('injected')

  def call(f, a, k):
    with environment(c):
      return run(lambda: api.converted_call(f, a, k, options=opts))

  # reference
  del mod.REC[:]
  f1 = entry.make(mod)
  a1, k1 = materialise(shape, entry, mod)
  r1, _ = run(lambda: f1(*a1, **(k1 or {})))
  rec1 = norm(list(mod.REC))
  f2 = entry.make(mod)
  if not nested:
    core = entry.core(mod, f2) if entry.core else f2
    while isinstance(core, functools.partial):
      core = core.func
  sig = '%s:%s' % (stage_name.split(':')[0], tname)
  fault = Fault(module, attr, make_exc, only)
  fault.install()
  try:
    # first call under the fault
    del mod.REC[:]
    a2, k2 = materialise(shape, entry, mod)
    with o.window():
      r2, _ = call(f2, a2, k2)
    rec2 = norm(list(mod.REC))
    reached = fault.reached > 0
    w1, att1 = list(o.warnings), list(o.attempts)
    if not reached:
      return [], False, None          # this stage is not on this target's path (e.g. findsource for lambdas)
    if strict:
      if not (r2[0] == 'exc' and any(r2[3] is e or r2[3].__cause__ is e or r2[3].__context__ is e or type(r2[3]).__name__ in
                                     ('InaccessibleSourceCodeError',) for e in fault.raised)):
        fails.append(('strict', sig + ':not-raised', 'strict mode: injected %s at %s did not surface, got %r' % (
            exc_name, stage_name, r2[:3])))
      want_rec = norm([]) if not nested else None
      if not nested and rec2 != want_rec:
        fails.append(('strict', sig + ':target-ran', 'strict mode: the target ran although conversion failed: %r' % (rec2,)))
      return fails, True, None
    if not same_outcome(r1, r2):
      fails.append(('fallback', sig + ':outcome', 'fault %s at %s: direct call gives %r, wrapper gives %r' % (
          exc_name, stage_name, r1[:3], r2[:3])))
    elif rec1 != rec2:
      fails.append(('fallback', sig + ':invocations', 'fault %s at %s: invocation records differ: direct %r, wrapper %r' % (
          exc_name, stage_name, rec1, rec2)))
    if len(w1) != 1:
      fails.append(('fallback', sig + ':warnings', 'fault %s at %s: %d warnings instead of exactly one %s' % (
          exc_name, stage_name, len(w1), [w[:80] for w in w1])))
    ran = set(o.scopes)
    failed_name = 'nest_inner' if nested else None
    if nested and ('nest_outer' not in ran or 'nest_inner' in ran):
      fails.append(('fallback', sig + ':scopes', 'nested fault: executed converted scopes %s' % sorted(ran)))
    if not nested and ran & (entry.top | entry.child):
      fails.append(('fallback', sig + ':scopes', 'converted code ran although conversion failed: %s' % sorted(ran)))
    if not conversion.is_in_allowlist_cache(core, core_opts):
      fails.append(('fallback', sig + ':not-remembered', 'after the fallback is_in_allowlist_cache(target, options) is False'))
    # second call, fault still present
    del mod.REC[:]
    a3, k3 = materialise(shape, entry, mod)
    with o.window():
      r3, _ = call(f2, a3, k3)
    rec3 = norm(list(mod.REC))
    again = [n for n in o.attempts if nested is False or n == 'nest_inner']
    if again or o.warnings:
      fails.append(('fallback', sig + ':retried', 'second call: %d new conversion attempts %s, %d new warnings' % (
          len(again), again, len(o.warnings))))
    if not same_outcome(r1, r3) or rec3 != rec1:
      fails.append(('fallback', sig + ':outcome-2', 'second call differs: %r %r' % (r3[:3], rec3)))
  finally:
    fault.remove()
  # third call, fault removed: must still be unconverted
  del mod.REC[:]
  a4, k4 = materialise(shape, entry, mod)
  with o.window():
    r4, _ = call(f2, a4, k4)
  rec4 = norm(list(mod.REC))
  again = [n for n in o.attempts if nested is False or n == 'nest_inner']
  if again or o.warnings:
    fails.append(('fallback', sig + ':retried-after-repair', 'third call (fault removed): conversion attempts %s, %d warnings' % (
        again, len(o.warnings))))
  if not same_outcome(r1, r4) or rec4 != rec1:
    fails.append(('fallback', sig + ':outcome-3', 'third call differs: %r %r' % (r4[:3], rec4)))
  sample = 'fault %s at %s, target %s: warning %r; outcome %r' % (exc_name, stage_name, tname, w1[0][:90] if w1 else None,
                                                                   r2[:2])
  return fails, True, sample


# ----------------------------------------------------------------------------------------------- witnesses

_HDR = ('from malt.impl import api; from malt.core import converter\n'
        'o = converter.ConversionOptions(recursive=True, optional_features=None)\n')
WITNESSES = [
    dict(sig='callable-object-call-descriptor-rebound', mode='zoo',
         entries=['callobj-static', 'callobj-classm', 'callobj-foreign-bound'],
         what=('callable object whose class defines __call__ as a staticmethod / classmethod / bound method of another '
               'object: converted_call converts type(f).__call__ and calls it with (f,) + args, so the instance arrives as '
               'the first user argument (staticmethod), as cls (classmethod) or as self of the foreign method; the direct '
               'call f(*args) does not rebind'),
         program=_HDR + ('class C(object):\n  @staticmethod\n  def __call__(a):\n    return a\n'
                         'assert C()(1) == 1\n'
                         'api.converted_call(C(), (1,), None, options=o)   # TypeError: takes 1 positional argument but 2 given\n')),
    dict(sig='typing-namedtuple-method-not-converted', mode='zoo', entries=['typing-namedtuple-method'],
         what=('a user method defined in the body of a typing.NamedTuple class is silently run unconverted (unless '
               'user_requested): conversion.is_allowlisted resolves the owner class, finds a named tuple without named-tuple '
               'bases and allow-lists its methods; not one of the documented non-converted categories and no warning'),
         program=_HDR + ('import typing\nclass TN(typing.NamedTuple):\n  x: int\n  def tm(self, a):\n    if a:\n      return 1\n'
                         '    return 2\n'
                         'api.converted_call(TN(1).tm, (1,), None, options=o)   # api._convert_actual is never called for tm\n')),
    dict(sig='fallback-not-remembered-uncacheable-callable-object', mode='inject',
         entries=['callobj-unhashable', 'callobj-slots'],
         what=('callable object that is unhashable (__hash__ = None) or not weak-referenceable (__slots__): after a '
               'conversion failure conversion.cache_allowlisted swallows the TypeError of the WeakKeyDictionary, so the '
               'failure is not remembered: every later call re-attempts the conversion and warns again'),
         program=_HDR + ('class C(object):\n  __slots__ = ()\n  def __call__(self, a):\n    while a:\n      a -= 1\n'
                         '    else:\n      pass\n    return a\n'
                         'c = C()\napi.converted_call(c, (1,), None, options=o)   # warning: while/else not supported, runs as-is\n'
                         'api.converted_call(c, (1,), None, options=o)   # warns and converts again\n')),
]


def run_witnesses():
  out = []
  base = dict(recursive=True, user_requested=False, via='options', status='NONE', strict=False, feats='none')
  for w in WITNESSES:
    if w['mode'] == 'zoo':
      r = check_zoo_config((0, base, set(w['entries'])))
    else:
      r = check_injection(('parse:parser.parse_entity', 'ValueError', False, set(w['entries'])))
    if r['failures']:
      first = r['failures'][0]
      out.append(dict(kind='witness', sig='C13-' + w['sig'], what=w['what'], program=w['program'],
                      observed='%s: %s' % (first['sig'], first['what'][:300]),
                      failing_entries=sorted(set(f['entry'] for f in r['failures'])),
                      replay='c13_zoo.py 0 quick --serial --entry %s' % ','.join(w['entries'])))
  return out

def feature_all_note():
  """Outside the quantifier (optional features are not a C13 dimension): recorded as a note, not a failure."""
  mod, loaded = load_zoo()
  try:
    r, _ = run(lambda: api.converted_call(mod.plain, (1,), None, options=converter.ConversionOptions(recursive=True)))
    if r[0] == 'exc':
      return ('ConversionOptions() defaults to optional_features=Feature.ALL, for which every converted call raises %s '
              '(FunctionScope asserts NAME_SCOPES unsupported); the zoo therefore uses None / all-but-those' % r[1])
  finally:
    unload_zoo(loaded)
  return None


# ----------------------------------------------------------------------------------------------- main

def merge(total, r):
  total['evaluated'] += r['evaluated']
  total['nontrivial'].update(tuple(x) for x in r['nontrivial'])
  total['kinds'].update(r.get('kinds', ()))
  for f in r['failures']:
    key = (f['kind'], f['sig'])
    if key in total['fail_index']:
      total['fail_index'][key]['count'] += 1
      if len(total['fail_index'][key]['also']) < 4:
        total['fail_index'][key]['also'].append(f.get('config') or '%s/%s/strict=%s' % (f.get('stage'), f.get('exception'),
                                                                                        f.get('strict')))
    else:
      f = dict(f, count=1, also=[])
      total['fail_index'][key] = f
  for s in r['samples']:
    if len(total['samples']) < 3:
      total['samples'].append(s)


def main():
  ap = argparse.ArgumentParser()
  ap.add_argument('seed', type=int)
  ap.add_argument('tier')
  ap.add_argument('--entry', default='')
  ap.add_argument('--config', default='')
  ap.add_argument('--stage', default='')
  ap.add_argument('--no-zoo', action='store_true')
  ap.add_argument('--no-inject', action='store_true')
  ap.add_argument('--serial', action='store_true')
  ap.add_argument('--maxfail', type=int, default=10)
  a = ap.parse_args()
  t0 = time.time()
  rnd = random.Random(a.seed)
  entry_filter = set(x for x in a.entry.split(',') if x)
  thorough = a.tier == 'thorough'
  total = dict(evaluated=0, nontrivial=set(), fail_index={}, samples=[], kinds=set())

  zoo_items = []
  if not a.no_zoo:
    cs = [c for c in configs(a.tier) if a.config in cfg_name(c)]
    rnd.shuffle(cs)
    zoo_items = [(i, c, entry_filter) for i, c in enumerate(cs)]
  inj_items = []
  if not a.no_inject:
    st = [s[0] for s in stages() if a.stage in s[0]]
    excs = [n for n, _ in EXC_FACTORIES]
    for si, s in enumerate(st):
      if thorough:
        chosen = excs
      else:
        # quick: the two exception classes with their own warning paths everywhere + a seeded rotation of the others
        others = [e for e in excs if e not in ('UnsupportedLanguageElementError', 'InaccessibleSourceCodeError')]
        k = (si + a.seed) % len(others)
        chosen = ['UnsupportedLanguageElementError', 'InaccessibleSourceCodeError', others[k], others[(k + 4) % len(others)]]
      for e in chosen:
        for strict in (False, True):
          inj_items.append((s, e, strict, entry_filter))
  n_zoo, n_inj = len(zoo_items), len(inj_items)

  def run_all(fn, items, chunk):
    if a.serial or len(items) <= 1:
      for it in items:
        yield fn(it)
    else:
      for r in harness.pool_map(fn, items, chunksize=chunk):
        yield r

  harness.scratch_dir()          # created before the pools fork, so that every worker shares (and main removes) it
  try:
    for r in run_all(check_zoo_config, zoo_items, 1):
      merge(total, r)
    zoo_eval = total['evaluated']
    for r in run_all(check_injection, inj_items, 2):
      merge(total, r)
    note = feature_all_note() if not entry_filter else None
    witnesses = run_witnesses() if not (entry_filter or a.config or a.stage) else []
  finally:
    shutil.rmtree(harness.scratch_dir(), ignore_errors=True)
  failures = sorted(total['fail_index'].values(), key=lambda f: (f['kind'], f['sig']))
  nfail = len(failures) + len(witnesses)
  failures = witnesses + failures[:max(0, a.maxfail - len(witnesses))]
  harness.emit(dict(
      evaluated=total['evaluated'], zoo_cases=zoo_eval, injection_cases=total['evaluated'] - zoo_eval,
      zoo_configurations=n_zoo, injection_items=n_inj, distinct_nontrivial=len(total['nontrivial']),
      callable_kinds=sorted(total['kinds']), distinct_failure_keys=nfail,
      rule=('zoo: %d callables of %d kinds x their argument shapes (kwargs None/{}/non-empty, star-args tuples, mis-bound '
            'lists) x options (recursive, user_requested, options direct / call_options() / via caller FunctionScope, '
            'features none / all-but-name-scopes) x context (ENABLED, DISABLED, UNSPECIFIED, none) x strict mode, fresh zoo '
            'module per configuration; injection: each of %d pipeline stages x exception classes (quick: 4 per stage, '
            'thorough: %d) x strict x %d targets (incl. a nested callee-only fault), three calls each (fault, fault, '
            'fault removed). Non-trivial: the wrapper converted something, unwrapped a partial, substituted a builtin '
            'overload, warned, or the injected stage was actually reached.' % (
                len(build_entries()), len(set(e.kind for e in build_entries())), len(stages()), len(EXC_FACTORIES),
                len(INJECT_TARGETS))),
      notes=[note] if note else [],
      samples=total['samples'], failures=failures, seconds=round(time.time() - t0, 1)))


if __name__ == '__main__':
  main()
