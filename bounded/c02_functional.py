"""C02 bounded stand-in: functional (tracing) operator back ends see complete state.

A side-effect-free *functional backend* is installed as `ag__.if_stmt / while_stmt / for_stmt` (the module
object `malt.impl.api._TRANSPILER.get_extra_locals()['ag__']`; generated code looks the operators up on it at
call time).  It touches the enclosing function's variables ONLY through get_state/set_state:

  if_stmt    s0 = get_state(); body(); sb = get_state(); set_state(s0); orelse(); so = get_state();
             keep the branch selected by `cond`; entries at index >= nouts are restored to s0
             (a staged backend does not pass non-outputs on);
  while_stmt the carried state is the only thing that survives between test/body calls: before every call the
             state variables are overwritten with poison sentinels and the carried state is re-injected; the
             body is additionally traced once out of band (also for zero iterations) and its result discarded;
  for_stmt   the same with extra_test() and body(target).

`ag__.Undefined` / `UndefinedReturnValue` entries are carried as they are.  The decision source `c()` of the
generated programs is a pure function of a counter that the backend carries next to the state (it plays the
role of an input stream of a staged program), so running both branches does not duplicate decisions.

Contract checked: for side-effect-free, total, definitely-assigned programs the converted function run under
this backend returns what the ORIGINAL returns (return value, final value of the mutable argument `a`, the
global cell G[0], number of decisions consumed).

Program space (own pure generator on top of progen.skeletons / progen.HEADER):
  if / elif / else, while (fuel bounded), for over range / list / slice / tuple targets, break / continue /
  return at any depth, try/finally and `with` wrappers (pure), nesting to depth 4, nested defs: pure closures
  (read enclosing variables, own locals, own control flow) defined and called anywhere (also deferred),
  `nonlocal`-mutating closures only called outside the enclosing function's control flow and before its first
  `return` (limitations.md: "modifications are not detected across functions"; code after a return is a
  lowered guard body), attribute / constant-key state o.v, d['k'], a[0], a[1], G[0] on attributes / keys that
  exist before the statement ("fixed structure").  Variables first assigned inside control flow are read
  either inside the same block or right after an if/else that assigns them in both jump-free branches
  (limitations.md "Undefined and None values").  raise/except is excluded (not total when both branches run).

Kept OUT of the default space by construction and covered by explicit witnesses (WITNESSES below), each
reported with its own stable kind:sig as long as it fails:
  known-D1              for-loop target that is also assigned before the loop and read after it (loop targets
                        are private to their loop in the default space);
  nouts-nonlocal        a conditional that reads and updates a nonlocal / global name that is not read later in
                        the same function gets the name as a non-output (mutating closures have no early
                        return and end in a read of every nonlocal name; no `global` statements);
  global-not-state      write-only global in a branch;
  getter-unbound-local  get_state() raises NameError for a block-local variable that has a reaching definition
                        from before the block (cannot be excluded syntactically: random hits are classified
                        under the same kind:sig as the witness).

usage: c02_functional.py <seed> <tier> [--k K] [--random N] [--maxlen L] [--no-oob] [--dump IDX]
"""
import argparse
import hashlib
import os
import random
import shutil
import sys
import tempfile
import traceback

sys.path.insert(0, os.path.dirname(os.path.abspath(__file__)))
import harness
import progen

import malt
from malt.impl import api as _api


# ====================================================================================== functional backend

class PoisonUse(Exception):
  pass


class BackendLoopGuard(Exception):
  pass


class StateShape(Exception):
  pass


def _boom(self, *a, **k):
  raise PoisonUse('a scrambled state variable (%s) was used: the operator callbacks relied on a Python variable '
                  'that was not re-injected from the carried state' % self.name)


class Poison(object):
  """Sentinel written into every state variable between two callback invocations."""

  def __init__(self, name):
    self.__dict__['name'] = name

  def __repr__(self):
    return '<POISON %s>' % self.name

  def __setitem__(self, k, v):     # `o, o.v = vars_` style setters must not crash while scrambling
    pass

  __bool__ = __call__ = __iter__ = __index__ = __int__ = __len__ = __neg__ = __getitem__ = _boom
  __add__ = __radd__ = __sub__ = __rsub__ = __mul__ = __rmul__ = __lt__ = __le__ = __gt__ = __ge__ = _boom
  __floordiv__ = __rfloordiv__ = __mod__ = __rmod__ = __iadd__ = __isub__ = __imul__ = _boom


class Ctx(object):
  c = None          # the current decision source (its counter is carried with the state)
  ops = 0           # operator calls of the current run
  oob = True        # trace while bodies once out of band
  max_iter = 200
  stats = {}        # what the operator calls of this process exercised (coverage evidence)


def _stat(key, n=1):
  Ctx.stats[key] = Ctx.stats.get(key, 0) + n


def _note_state(names, state):
  if any(not n.isidentifier() for n in names):
    _stat('ops_with_composite_state')
  if any(type(v).__name__ in ('Undefined', 'UndefinedReturnValue') for v in state):
    _stat('ops_carrying_undefined')


def _ag():
  return _api._TRANSPILER.get_extra_locals()['ag__']


def _ctr():
  return Ctx.c.i if Ctx.c is not None else 0


def _set_ctr(k):
  if Ctx.c is not None:
    Ctx.c.i = k


def _get(get_state, names):
  s = tuple(get_state())
  if len(s) != len(names):
    raise StateShape('get_state returned %d values for %d symbol names %r' % (len(s), len(names), names))
  return s


def _inject(set_state, names, state, k):
  """Scramble every state variable, then write the carried state (and the decision counter)."""
  set_state(tuple(Poison(n) for n in names))
  set_state(state)
  _set_ctr(k)


def f_if_stmt(cond, body, orelse, get_state, set_state, symbol_names, nouts):
  Ctx.ops += 1
  names = tuple(symbol_names)
  if not 0 <= nouts <= len(names):
    raise StateShape('nouts=%r with %d symbols' % (nouts, len(names)))
  s0, k0 = _get(get_state, names), _ctr()
  _stat('if_stmt')
  _note_state(names, s0)
  if nouts < len(names):
    _stat('if_stmt_with_restored_non_outputs')
  _inject(set_state, names, s0, k0)
  body()
  sb, kb = _get(get_state, names), _ctr()
  _inject(set_state, names, s0, k0)
  orelse()
  so, ko = _get(get_state, names), _ctr()
  sel, k = (sb, kb) if cond else (so, ko)
  final = tuple(sel[i] if i < nouts else s0[i] for i in range(len(names)))
  _inject(set_state, names, final, k)


def f_while_stmt(test, body, get_state, set_state, symbol_names, opts):
  Ctx.ops += 1
  names = tuple(symbol_names)
  state, k = _get(get_state, names), _ctr()
  _stat('while_stmt')
  _note_state(names, state)
  if Ctx.oob:
    # "loop body traced once even for zero iterations": the result of the trace is thrown away
    _inject(set_state, names, state, k)
    test()
    _inject(set_state, names, state, k)
    body()
    _get(get_state, names)
  n = 0
  while True:
    _inject(set_state, names, state, k)
    go = test()
    k = _ctr()
    if not go:
      break
    n += 1
    if n > Ctx.max_iter:
      raise BackendLoopGuard('while loop did not terminate under the functional backend (state %r)' % (names,))
    _inject(set_state, names, state, k)
    body()
    state, k = _get(get_state, names), _ctr()
  _inject(set_state, names, state, k)


def f_for_stmt(iter_, extra_test, body, get_state, set_state, symbol_names, opts):
  Ctx.ops += 1
  names = tuple(symbol_names)
  state, k = _get(get_state, names), _ctr()
  _stat('for_stmt')
  _note_state(names, state)
  n = 0
  for target in iter_:
    _inject(set_state, names, state, k)
    if extra_test is not None:
      go = extra_test()
      k = _ctr()
      if not go:
        break
    n += 1
    if n > Ctx.max_iter:
      raise BackendLoopGuard('for loop did not terminate under the functional backend')
    _inject(set_state, names, state, k)
    body(target)
    state, k = _get(get_state, names), _ctr()
  _inject(set_state, names, state, k)


class installed(object):
  """with installed(): the functional backend replaces the three control-flow operators."""

  def __enter__(self):
    ag = _ag()
    self.saved = (ag.if_stmt, ag.while_stmt, ag.for_stmt)
    ag.if_stmt, ag.while_stmt, ag.for_stmt = f_if_stmt, f_while_stmt, f_for_stmt
    return self

  def __exit__(self, *exc):
    ag = _ag()
    ag.if_stmt, ag.while_stmt, ag.for_stmt = self.saved
    return False


# ====================================================================================== observation

class PureDecisions(object):
  """c(): bit number `i` of a fixed vector (False beyond its end); `i` is the only state."""

  def __init__(self, bits):
    self.bits = tuple(bits)
    self.i = 0

  def __call__(self):
    i = self.i
    self.i = i + 1
    return self.bits[i] if i < len(self.bits) else False


def ident(k):
  return k


def observe(fn, mod, bits, functional, a0=(5, 7)):
  c = PureDecisions(bits)
  a = list(a0)
  mod.G[0] = 0
  Ctx.c, Ctx.ops = c, 0
  try:
    if functional:
      with installed():
        r = fn(ident, c, a)
    else:
      r = fn(ident, c, a)
    outcome = ('return', repr(r))
  except RecursionError:
    outcome = ('raise', 'RecursionError')
  except Exception as e:
    where = [fr.name for fr in traceback.extract_tb(e.__traceback__)][-4:]
    # the first exception of the chain (a `finally` block of the program may have replaced it)
    first = e
    while first.__context__ is not None:
      first = first.__context__
    fwhere = [fr.name for fr in traceback.extract_tb(first.__traceback__)][-1:]
    outcome = ('raise', '%s: %s' % (type(e).__name__, str(e)[:200]), where,
               '%s: %s' % (type(first).__name__, str(first)[:120]), fwhere)
  finally:
    Ctx.c = None
  return dict(outcome=outcome, a=repr(a), G=mod.G[0], used=c.i, ops=Ctx.ops)


# ====================================================================================== program space

PROLOGUE = ['  x = a[0]', '  y = 1', '  z = 0', '  o = Box()', '  o.v = a[1]', "  d = {'k': 2}"]
F_RET = "(x, y, z, o.v, d['k'], a[0], %s)"


def wrap(body_lines, final='0'):
  return (progen.HEADER + '\ndef f(t, c, a):\n' + '\n'.join(PROLOGUE + body_lines)
          + '\n  return ' + F_RET % final + '\n')


class Env(object):
  """Names a block works on.  comp: composite writes allowed; top: directly in f, outside control flow."""

  def __init__(self, x, y, z, comp, ret, top, infn=False, fns=()):
    self.x, self.y, self.z, self.comp, self.ret, self.top, self.infn = x, y, z, comp, ret, top, infn
    self.fns = tuple(fns)       # closures in scope: (name, None) pure, (name, [nonlocal names]) mutating

  def nested(self):
    return Env(self.x, self.y, self.z, self.comp, self.ret, False, self.infn, self.fns)

  def with_fns(self, fns):
    return Env(self.x, self.y, self.z, self.comp, self.ret, self.top, self.infn, fns)

  def pure_fns(self):
    return tuple(f for f in self.fns if f[1] is None)

  def fmt(self, s, n=0):
    return s.format(x=self.x, y=self.y, z=self.z, n=n)

  @property
  def vars(self):
    return [self.x, self.y, self.z]


F_ENV = Env('x', 'y', 'z', True, 'return ' + F_RET % '{n}', True)

# (needs composite write, template)
LEAVES = [
    (False, '{x} = {x} + {n}'),
    (False, '{y} = {x} * 2 + {n}'),
    (True, 'o.v = o.v + {x} + {n}'),
    (False, '{z} = {z} + {y} + {n}'),
    (True, 'a[1] = {n} + {z}'),
    (False, '{x}, {y} = {y}, {x} + {n}'),
    (True, "d['k'] = d['k'] * 2 + {y}"),
    (False, '{z} = h1({z}) + {n}'),
    (False, '{y} = {n} if c() else {y} + 1'),
    (False, '{x} = {x} + o.v'),
    (True, 'G[0] = G[0] + {x} + {n}'),
    (False, "{z} = {z} + d['k'] + a[1] + G[0]"),
    (True, 'a[0] = a[0] + {y}'),
    (True, 'o.v += {z}'),
]
PURE_ALT = ['{z} = {z} + o.v + {n}', "{y} = {y} + d['k'] + {n}", '{x} = {x} + a[1] + {n}', '{z} = {z} + G[0] + a[0]']
CONDS = ['c()', '{x} < 3 and c()', 'c() or {y} > 100', 'not c()', "c() and d['k'] > 0", '(o.v >= 0) == c()']
ITERS = ['range(2)', '[{x}, {y}]', 'a[:2]', '(1, {z})']


def has_kind(tree, kind):
  return any(n[0] == kind or any(has_kind(s, kind) for s in n[1:]) for n in tree)


class PureFiller(object):
  """Deterministic pure filling of a progen skeleton: every block is leaf; node; leaf; ...; leaf."""

  def __init__(self, offset=0):
    self.n = offset
    self.uid = 0
    self.f_returned = False   # a `return` of f was emitted: the rest of f's top level is a lowered guard body

  def leaf(self, env, ind):
    self.n += 1
    comp, tpl = LEAVES[self.n % len(LEAVES)]
    if comp and not env.comp:
      tpl = PURE_ALT[self.n % len(PURE_ALT)]
    return ind + env.fmt(tpl, self.n)

  def cond(self, env):
    self.n += 1
    return env.fmt(CONDS[self.n % len(CONDS)])

  def fill(self, tree, env, ind):
    out = [self.leaf(env, ind)]
    defs = []
    for node in tree:
      self.last_def = None
      out += self.node(node, env, ind)
      if node[0] == 'def':
        defs.append(self.last_def)
      out.append(self.leaf(env, ind))
    # deferred calls: the closure is called again after the control flow that followed its definition
    for name, mutating in defs:
      if not mutating:
        out.append('%s%s = %s(%s)' % (ind, env.y, name, env.z))
      elif env.top and not env.infn and not self.f_returned:
        # the nonlocal name is dead here except through the closure (D4 pattern): call, then overwrite it
        out += ['%s%s = %s(%s)' % (ind, env.y, name, env.z), '%s%s = %s + 1' % (ind, env.x, env.y)]
    return out

  def node(self, node, env, ind):
    k = node[0]
    ind2 = ind + '  '
    inner = env.nested()
    if k == 'ret':
      self.f_returned = self.f_returned or not env.infn
      return ['%sif c():' % ind, ind2 + env.fmt(env.ret, 900 + self.n)]
    if k == 'brk':
      return ['%sif c():' % ind, '%sbreak' % ind2]
    if k == 'cont':
      return ['%sif c():' % ind, '%scontinue' % ind2]
    if k == 'if':
      return ['%sif %s:' % (ind, self.cond(env))] + self.fill(node[1], inner, ind2)
    if k == 'ifelse':
      return (['%sif %s:' % (ind, self.cond(env))] + self.fill(node[1], inner, ind2)
              + ['%selse:' % ind] + self.fill(node[2], inner, ind2))
    if k == 'while':
      self.uid += 1
      fu = 'fuel_%d' % self.uid
      return (['%s%s = 0' % (ind, fu), '%swhile %s < 2 and c():' % (ind, fu), '%s%s += 1' % (ind2, fu)]
              + self.fill(node[1], inner, ind2))
    if k == 'for':
      self.uid += 1
      tgt = 'i_%d' % self.uid
      it = env.fmt(ITERS[self.uid % len(ITERS)])
      return (['%sfor %s in %s:' % (ind, tgt, it), '%s%s = %s + %s' % (ind2, env.z, env.z, tgt)]
              + self.fill(node[1], inner, ind2))
    if k == 'tryf':
      return ['%stry:' % ind] + self.fill(node[1], inner, ind2) + ['%sfinally:' % ind, self.leaf(inner, ind2)]
    if k == 'with':
      self.n += 1
      return (['%swith CM(t, %d) as w:' % (ind, self.n), '%s%s = %s + w' % (ind2, env.z, env.z)]
              + self.fill(node[1], inner, ind2))
    if k == 'def':
      self.uid += 1
      name = 'g_%d' % self.uid
      u = self.uid
      if env.top and not env.infn and not self.f_returned and u % 2 == 1 and not has_kind(node[1], 'ret'):
        # nonlocal-mutating closure, defined and called outside the control flow of f; no early return and
        # every nonlocal name is read by the final return (see the recorded nouts finding)
        genv = Env(env.x, 'q_%d' % u, env.z, True, None, True, True)
        head = ['%sdef %s(p):' % (ind, name), '%snonlocal %s, %s' % (ind2, env.x, env.z), '%s%s = p' % (ind2, genv.y)]
        tail = '%sreturn p + %s + %s + %s' % (ind2, genv.x, genv.y, genv.z)
      else:
        # pure closure: reads the enclosing variables, works on its own locals
        genv = Env('p', 'q_%d' % u, 'r_%d' % u, False, 'return p + {n}', True, True)
        head = ['%sdef %s(p):' % (ind, name), '%s%s = %s + 1' % (ind2, genv.y, env.x), '%s%s = %s' % (ind2, genv.z, env.y)]
        tail = '%sreturn p + %s + %s' % (ind2, genv.y, genv.z)
      mutating = genv.comp
      body = self.fill(node[1], genv, ind2)
      self.last_def = (name, mutating)
      return head + body + [tail, '%s%s = %s(%s)' % (ind, env.y, name, env.z)]
    raise AssertionError(k)


def skeleton_program(tree, offset=0):
  return wrap(PureFiller(offset).fill(tree, F_ENV, '  '))


class RGen(object):
  """Seeded random pure programs (larger than the skeletons, nesting to depth 4)."""

  def __init__(self, rnd, max_depth=4):
    self.rnd = rnd
    self.max_depth = max_depth
    self.uid = 0
    self.k = 0
    self.f_returned = False

  def num(self):
    self.k += 1
    return str(self.k % 7)

  def atom(self, env, extra=()):
    r = self.rnd.random()
    if r < 0.5:
      return self.rnd.choice(env.vars + list(extra))
    if r < 0.7:
      return self.num()
    return self.rnd.choice(['o.v', "d['k']", 'a[0]', 'a[1]', 'G[0]'])

  def expr(self, env, depth=0, extra=()):
    r = self.rnd.random()
    if depth > 1 or r < 0.3:
      return self.atom(env, extra)
    if r < 0.55:
      return '(%s %s %s)' % (self.expr(env, depth + 1, extra), self.rnd.choice(['+', '-']), self.expr(env, depth + 1, extra))
    if r < 0.62:
      return '(%s * %d)' % (self.expr(env, depth + 1, extra), self.rnd.randint(0, 3))
    if r < 0.7:
      return 'h1(%s)' % self.expr(env, depth + 1, extra)
    if r < 0.78:
      return '(%s if %s else %s)' % (self.expr(env, depth + 1, extra), self.cond(env, depth + 1), self.expr(env, depth + 1, extra))
    if r < 0.83:
      return 'h2(%s, k=%s)[0]' % (self.expr(env, depth + 1, extra), self.atom(env, extra))
    if r < 0.88:
      return '(lambda q: q + %s)(%s)' % (self.atom(env, extra), self.atom(env, extra))
    if r < 0.93:
      return 'sum([q + %s for q in range(%d)])' % (self.atom(env, extra), self.rnd.randint(0, 3))
    if r < 0.97:
      return 'abs(%s)' % self.expr(env, depth + 1, extra)
    return 'len(a)'

  def cond(self, env, depth=0):
    r = self.rnd.random()
    if r < 0.4:
      return 'c()'
    if r < 0.6:
      return '%s %s %s' % (self.expr(env, 2), self.rnd.choice(['<', '<=', '==', '!=', '>']), self.expr(env, 2))
    if r < 0.75 and depth < 2:
      return '(%s %s %s)' % (self.cond(env, depth + 1), self.rnd.choice(['and', 'or']), self.cond(env, depth + 1))
    if r < 0.85 and depth < 2:
      return '(not %s)' % self.cond(env, depth + 1)
    if r < 0.92:
      return '0 <= %s < %s' % (self.expr(env, 2), self.expr(env, 2))
    return 'c()'

  def comp_target(self):
    return self.rnd.choice(['o.v', "d['k']", 'a[0]', 'a[1]', 'G[0]'])

  def leaf(self, env, ind):
    r = self.rnd.random()
    v = self.rnd.choice(env.vars)
    if env.fns and self.rnd.random() < 0.15:
      # deferred call of a closure defined earlier in this or an enclosing block
      name, nl = self.rnd.choice(env.fns)
      if nl is None:
        return ['%s%s = %s(%s)' % (ind, v, name, self.atom(env))]
      if env.top and not env.infn and not self.f_returned:
        out = ['%s%s = %s(%s)' % (ind, v, name, self.atom(env))]
        if self.rnd.random() < 0.5:
          out.append('%s%s = %s' % (ind, nl[0], self.num()))   # the nonlocal name was live only through the closure
        return out
    if r < 0.3:
      return ['%s%s = %s' % (ind, v, self.expr(env))]
    if r < 0.42:
      return ['%s%s %s= %s' % (ind, v, self.rnd.choice(['+', '-']), self.expr(env))]
    if r < 0.5:
      v2 = self.rnd.choice(env.vars)
      return ['%s%s, %s = %s, %s' % (ind, v, v2, self.expr(env), self.expr(env))]
    if r < 0.66 and env.comp:
      return ['%s%s = %s' % (ind, self.comp_target(), self.expr(env))]
    if r < 0.76 and env.comp:
      return ['%s%s += %s' % (ind, self.comp_target(), self.expr(env))]
    if r < 0.9:
      # block-local temporary: assigned and read inside the same block
      self.uid += 1
      u = 'u_%d' % self.uid
      return ['%s%s = %s' % (ind, u, self.expr(env)), '%s%s = %s' % (ind, v, self.expr(env, 0, (u,)))]
    if r < 0.95:
      return ['%s%s = %s * 2 - 1' % (ind, v, v)]
    return ['%spass' % ind]

  def block(self, env, ind, depth, in_loop, budget, jumps='rl'):
    lines = []
    for _ in range(self.rnd.randint(1, 3)):
      if budget[0] > 0 and depth < self.max_depth and self.rnd.random() < 0.6:
        budget[0] -= 1
        self.new_def = None
        lines += self.compound(env, ind, depth, in_loop, budget, jumps)
        if self.new_def is not None:
          env = env.with_fns(env.fns + (self.new_def,))
          self.new_def = None
      else:
        lines += self.leaf(env, ind)
    self.new_def = None
    return lines

  def jump_tail(self, env, ind, in_loop, ret_ok):
    """a block may END in an unconditional jump"""
    kinds = (['ret'] if ret_ok else []) + (['brk', 'cont'] * 2 if in_loop else [])
    k = self.rnd.choice(kinds)
    if k == 'ret':
      self.f_returned = self.f_returned or not env.infn
      return [ind + env.fmt(env.ret, self.num())]
    return [ind + ('break' if k == 'brk' else 'continue')]

  def compound(self, env, ind, depth, in_loop, budget, jumps='rl'):
    ind2 = ind + '  '
    inner = env.nested()
    kinds = ['if', 'ifelse', 'ifelse', 'ifdef', 'while', 'for', 'for', 'tryf', 'with', 'def']
    if 'r' in jumps:
      kinds += ['ret', 'jumpif']
    if 'l' in jumps and in_loop:
      kinds += ['brk', 'cont', 'jumpif']
    k = self.rnd.choice(kinds)
    if k == 'if':
      return ['%sif %s:' % (ind, self.cond(env))] + self.block(inner, ind2, depth + 1, in_loop, budget, jumps)
    if k == 'ifelse':
      out = ['%sif %s:' % (ind, self.cond(env))] + self.block(inner, ind2, depth + 1, in_loop, budget, jumps)
      if self.rnd.random() < 0.35:
        out += ['%selif %s:' % (ind, self.cond(env))] + self.block(inner, ind2, depth + 1, in_loop, budget, jumps)
      return out + ['%selse:' % ind] + self.block(inner, ind2, depth + 1, in_loop, budget, jumps)
    if k == 'ifdef':
      # a variable first assigned in both (jump-free) branches and read right after the conditional
      self.uid += 1
      m = 'm_%d' % self.uid
      b1 = self.block(inner, ind2, depth + 1, in_loop, budget, '')
      b2 = self.block(inner, ind2, depth + 1, in_loop, budget, '')
      v = self.rnd.choice(env.vars)
      return (['%sif %s:' % (ind, self.cond(env))] + b1 + ['%s%s = %s' % (ind2, m, self.expr(env))]
              + ['%selse:' % ind] + ['%s%s = %s' % (ind2, m, self.expr(env))] + b2
              + ['%s%s = %s + %s' % (ind, v, m, self.atom(env))])
    if k == 'jumpif':
      return (['%sif %s:' % (ind, self.cond(env))] + self.leaf(inner, ind2)
              + self.jump_tail(inner, ind2, in_loop and 'l' in jumps, 'r' in jumps))
    if k == 'while':
      self.uid += 1
      fu = 'fuel_%d' % self.uid
      return (['%s%s = 0' % (ind, fu), '%swhile %s < %d and %s:' % (ind, fu, self.rnd.randint(1, 3), self.cond(env)),
               '%s%s += 1' % (ind2, fu)] + self.block(inner, ind2, depth + 1, True, budget, jumps))
    if k == 'for':
      self.uid += 1
      tgt = 'i_%d' % self.uid
      r = self.rnd.random()
      extra = (tgt,)
      if r < 0.4:
        header = 'for %s in range(%d):' % (tgt, self.rnd.randint(0, 3))
      elif r < 0.6:
        header = 'for %s in [%s, %s]:' % (tgt, self.atom(env), self.atom(env))
      elif r < 0.75:
        header = 'for %s in a[:2]:' % tgt
      elif r < 0.85:
        header = 'for %s in range(%s %% 3):' % (tgt, self.rnd.choice(env.vars))
      else:
        t2 = 'j_%d' % self.uid
        extra = (tgt, t2)
        header = 'for %s, %s in [(1, 2), (%s, 4)]:' % (tgt, t2, self.atom(env))
      v = self.rnd.choice(env.vars)
      use = '%s%s = %s' % (ind2, v, self.expr(env, 0, extra))
      return [ind + header, use] + self.block(inner, ind2, depth + 1, True, budget, jumps)
    if k == 'tryf':
      return (['%stry:' % ind] + self.block(inner, ind2, depth + 1, in_loop, budget, jumps)
              + ['%sfinally:' % ind] + self.leaf(inner, ind2))
    if k == 'with':
      self.uid += 1
      v = self.rnd.choice(env.vars)
      return (['%swith CM(t, %d) as w_%d:' % (ind, self.uid, self.uid), '%s%s = %s + w_%d' % (ind2, v, v, self.uid)]
              + self.block(inner, ind2, depth + 1, in_loop, budget, jumps))
    if k == 'def':
      self.uid += 1
      u = self.uid
      name = 'g_%d' % u
      if env.top and not env.infn and not self.f_returned and self.rnd.random() < 0.6:
        # nonlocal-mutating closure; no early return and every nonlocal name is read by the final return
        # (a conditional whose nonlocal update is not read later *inside g* is the recorded nouts finding)
        nl = self.rnd.sample(env.vars, self.rnd.randint(1, 2))
        rest = [v for v in env.vars if v not in nl]
        names = dict(zip('xyz', env.vars))
        for i, v in enumerate(rest):
          key = [kk for kk in 'xyz' if names[kk] == v][0]
          names[key] = 'q%d_%d' % (i, u)
        genv = Env(names['x'], names['y'], names['z'], True, None, True, True, env.pure_fns())
        head = (['%sdef %s(p):' % (ind, name), '%snonlocal %s' % (ind2, ', '.join(nl))]
                + ['%s%s = p + %s' % (ind2, names[kk], self.atom(env)) for kk in 'xyz' if names[kk] not in env.vars])
        body = self.block(genv, ind2, depth + 1, False, budget, 'l')
        tail = '%sreturn %s + %s' % (ind2, ' + '.join(nl), self.atom(genv))
      else:
        nl = None
        genv = Env('p', 'q_%d' % u, 'r_%d' % u, False, 'return p + {n}', True, True, env.pure_fns())
        head = ['%sdef %s(p):' % (ind, name), '%s%s = %s' % (ind2, genv.y, self.expr(env)),
                '%s%s = %s' % (ind2, genv.z, self.atom(env))]
        body = self.block(genv, ind2, depth + 1, False, budget, 'rl')
        tail = '%sreturn %s + %s' % (ind2, genv.x, self.atom(genv))
      v = self.rnd.choice(env.vars)
      self.new_def = (name, nl)
      return head + body + [tail, '%s%s = %s(%s)' % (ind, v, name, self.atom(env))]
    if k == 'ret':
      self.f_returned = self.f_returned or not env.infn
      return ['%sif %s:' % (ind, self.cond(env)), ind2 + env.fmt(env.ret, self.num())]
    if k == 'brk':
      return ['%sif %s:' % (ind, self.cond(env)), '%sbreak' % ind2]
    if k == 'cont':
      return ['%sif %s:' % (ind, self.cond(env)), '%scontinue' % ind2]
    raise AssertionError(k)

  def program(self, size):
    budget = [size]
    body = self.block(F_ENV, '  ', 0, False, budget)
    while budget[0] > 0 and len(body) < 60:
      body += self.block(F_ENV, '  ', 0, False, budget)   # (closures of the previous chunk are not called again)
    return wrap(body)


def random_program(seed, size):
  return RGen(random.Random(seed)).program(size)


# ====================================================================================== witnesses

D1_WITNESS = progen.HEADER + '''
def f(t, c, a):
  x = 0
  if c():
    x = 5
  for x in a[2:]:
    pass
  return (x,)
'''

NONLOCAL_WITNESS = progen.HEADER + '''
def f(t, c, a):
  y = 1
  def g():
    nonlocal y
    if c():
      y = y + 1
  g()
  return (y,)
'''

GLOBAL_RW_WITNESS = progen.HEADER + '''
gv = 1
def f(t, c, a):
  global gv
  gv = 1
  if c():
    gv = gv + 1
  return None
'''

GLOBAL_WO_WITNESS = progen.HEADER + '''
gv = 1
def f(t, c, a):
  global gv
  gv = 1
  if c():
    gv = 5
  return None
'''

GETTER_WITNESS = progen.HEADER + '''
def f(t, c, a):
  y = 1
  if c():
    if c():
      y = 3
    else:
      y = 4
    y = y + 1
    a[0] = y
  return (a[0],)
'''

GETTER_KIND, GETTER_SIG = 'getter-unbound-local', 'block-local-variable-defined-before-the-block'

# (kind, sig, source, decisions, what); the default program space keeps all of them out by construction
WITNESSES = [
    ('known-D1', 'for-target-killed-on-exit-edge', D1_WITNESS, (True,),
     'D1: for-loop target assigned before the loop and read after it: the conditional before the loop does not '
     'output x'),
    (GETTER_KIND, GETTER_SIG, GETTER_WITNESS, (True, True),
     'y is assigned before the outer conditional but is neither live into nor out of it, so it becomes a local '
     'of if_body; the inner conditional carries y as state, and because a definition of y reaches it (y = 1) no '
     '`y = ag__.Undefined(...)` is emitted: get_state() of the inner conditional raises NameError (free variable '
     'not bound) for any backend that calls it before running a branch'),
    ('nouts-nonlocal', 'nonlocal-update-not-an-output', NONLOCAL_WITNESS, (True,),
     'a conditional in a nested def that reads and updates a `nonlocal` name which is not read later in the same '
     'def gets nouts=0 (input_only = basic & live_in - live_out ignores nonlocals): a staging backend restores y '
     'and the update is lost for the enclosing function'),
    ('nouts-nonlocal', 'global-update-not-an-output', GLOBAL_RW_WITNESS, (True,),
     'same for a `global` name that the conditional reads and updates: nouts=0, the update of gv is dropped'),
    ('global-not-state', 'write-only-global-in-conditional', GLOBAL_WO_WITNESS, (True,),
     'a `global` name that is only written in a branch (not live in/out) is neither state nor declared global in '
     'the branch function: the assignment goes to a local of if_body (wrong with the Python fallback too)'),
]


def check_witnesses():
  out = []
  for n, (kind, sig, src, bits, what) in enumerate(WITNESSES):
    name = 'vp_c02_wit%d_%d' % (n, os.getpid())
    mod = harness.load_source(src, name)
    try:
      g = malt.to_graph(mod.f)
      gv = lambda: getattr(mod, 'gv', None)
      o1 = observe(mod.f, mod, bits, False)
      v1 = gv()
      o2 = observe(g, mod, bits, True)
      v2 = gv()
      if (o1['outcome'], o1['a'], v1) != (o2['outcome'], o2['a'], v2):
        out.append(dict(kind=kind, sig=sig, program=src[src.index('def f(t, c, a)'):], decisions=list(bits),
                        what='%s (original returns %s gv=%r, functional backend %s gv=%r)'
                             % (what, o1['outcome'][1], v1, o2['outcome'][1], v2)))
    except Exception as e:
      out.append(dict(kind=kind, sig=sig, program=src, what='witness raised %s: %s' % (type(e).__name__, str(e)[:200])))
    finally:
      harness.unload(name)
  return out


# ====================================================================================== driver

def _classify(o1, o2):
  """(kind, sig): short stable class of a difference"""
  out = o2['outcome']
  if out[0] == 'raise':
    if out[3].startswith('NameError: cannot access free variable') and out[4] and out[4][-1].startswith('get_state'):
      return GETTER_KIND, GETTER_SIG       # same class as the explicit witness
    return 'functional-difference', 'raise-' + out[1].split(':')[0]
  if o1['outcome'] != out:
    return 'functional-difference', 'result'
  if o1['a'] != o2['a'] or o1['G'] != o2['G']:
    return 'functional-difference', 'mutable-state'
  return 'functional-difference', 'decisions-consumed'


INPUTS = [(5, 7), (1, 2), (0, -3), (2, 0)]     # initial content of the mutable argument `a`


def check_program(item):
  idx, src, maxlen, cap = item
  a0 = INPUTS[idx % len(INPUTS)]
  name = 'vp_c02_%d_%d' % (os.getpid(), idx)
  res = dict(idx=idx, runs=0, nontrivial=False, failure=None, stats=None)
  Ctx.stats = {}
  try:
    mod = harness.load_source(src, name)
  except SyntaxError as e:
    res['failure'] = dict(kind='generator-bug', sig='syntax', what=str(e), program=src)
    return res
  try:
    try:
      g = malt.to_graph(mod.f, recursive=True)
    except Exception as e:
      res['failure'] = dict(kind='conversion-error', sig=type(e).__name__,
                            what='%s: %s' % (type(e).__name__, str(e)[:300]), program=src)
      return res

    def run(bits):
      o1 = observe(mod.f, mod, bits, False, a0)
      if o1['outcome'][0] != 'return':
        # the quantifier is over total programs: an original that raises is a generator bug
        if res['failure'] is None:
          res['failure'] = dict(kind='generator-bug', sig='original-raises', what=str(o1['outcome']),
                                program=src, decisions=list(bits))
        return o1['used']
      o2 = observe(g, mod, bits, True, a0)
      res['runs'] += 1
      if o2['ops'] >= 2:
        res['nontrivial'] = True
      same = (o1['outcome'], o1['a'], o1['G'], o1['used']) == (o2['outcome'], o2['a'], o2['G'], o2['used'])
      if not same and res['failure'] is None:
        kind, sig = _classify(o1, o2)
        res['failure'] = dict(kind=kind, sig=sig,
                              what='converted function under the functional backend differs from the original',
                              decisions=list(bits), a0=list(a0), original=o1, functional=o2, program=src)
      return o1['used']
    harness.adaptive_vectors(run, max_len=maxlen, cap=cap)
  finally:
    harness.unload(name)
    res['stats'] = Ctx.stats
  return res


def build_items(seed, K, nrand, offsets, maxlen, cap):
  items, nskel = [], 0
  for tree in progen.skeletons(K):
    if has_kind(tree, 'trye'):        # raise/except: not total under a backend that runs both branches
      continue
    for off in offsets:
      items.append((len(items), skeleton_program(tree, off), maxlen + 1, cap))
      nskel += 1
  for i in range(nrand):
    size = 2 + (i % 6)
    items.append((len(items), random_program(seed * 1000003 + i, size), maxlen, cap))
  return items, nskel


def main():
  ap = argparse.ArgumentParser()
  ap.add_argument('seed', type=int)
  ap.add_argument('tier')
  ap.add_argument('--k', type=int, default=None)
  ap.add_argument('--random', type=int, default=None)
  ap.add_argument('--maxlen', type=int, default=6)
  ap.add_argument('--cap', type=int, default=None)
  ap.add_argument('--maxfail', type=int, default=12)
  ap.add_argument('--no-oob', action='store_true', help='do not trace while bodies out of band')
  ap.add_argument('--dump', type=int, default=None, help='print program IDX and exit')
  a = ap.parse_args()
  thorough = a.tier == 'thorough'
  K = a.k if a.k is not None else (3 if thorough else 2)
  nrand = a.random if a.random is not None else (10000 if thorough else 1000)
  cap = a.cap if a.cap is not None else 48
  L = len(LEAVES)
  offsets = [a.seed % L] + ([(a.seed + 5) % L, (a.seed + 9) % L] if thorough else [])
  Ctx.oob = not a.no_oob
  items, nskel = build_items(a.seed, K, nrand, offsets, a.maxlen, cap)
  if a.dump is not None:
    print(items[a.dump][1])
    return
  # malt.pyct.loader leaves one generated file per conversion in the temp dir (forked workers never run its
  # atexit hook): point tempfile at our own scratch directory, which is removed at the end
  tempfile.tempdir = harness.scratch_dir()
  saved = (_ag().if_stmt, _ag().while_stmt, _ag().for_stmt)
  programs = runs = nontrivial = 0
  failures, samples, seen, sigs, stats = [], [], set(), {}, {}
  try:
    failures += check_witnesses()
    for r in harness.pool_map(check_program, items, chunksize=2):
      programs += 1
      runs += r['runs']
      for kk, vv in (r['stats'] or {}).items():
        stats[kk] = stats.get(kk, 0) + vv
      src = items[r['idx']][1]
      h = hashlib.sha1(src.encode()).hexdigest()
      if r['nontrivial'] and h not in seen:
        seen.add(h)
        nontrivial += 1
      f = r['failure']
      if f:
        key = f['kind'] + ':' + f['sig']
        sigs[key] = sigs.get(key, 0) + 1
        if sigs[key] <= 3 and len(failures) < a.maxfail:
          failures.append(f)
      if len(samples) < 2 and r['nontrivial'] and r['idx'] >= nskel and not f:
        samples.append(src[src.index('def f(t, c, a)'):][:700])
  finally:
    assert (_ag().if_stmt, _ag().while_stmt, _ag().for_stmt) == saved, 'operators not restored'
    shutil.rmtree(harness.scratch_dir(), ignore_errors=True)
  harness.emit(dict(
      evaluated=runs, distinct_nontrivial=nontrivial, programs=programs, skeleton_programs=nskel,
      random_programs=nrand, K=K, seed=a.seed, tier=a.tier, out_of_band_trace=Ctx.oob, failure_classes=sigs, operator_calls=stats,
      rule='programs = pure fillings of progen.skeletons(K) without raise/except (x%d leaf offsets) + seeded random '
           'pure programs, input a in %r (if/elif/else, while, for, break/continue/return, try/finally, with, nested defs, depth<=4, '
           'o.v / d[k] / a[i] / G[0] state); each run under all decision vectors up to length %d (adaptive, cap %d); '
           'a case = one (program, vector): original vs converted under the functional backend (both branches from '
           'the same state, non-outputs restored, loop state scrambled and re-injected before every test/body call, '
           'while body traced once out of band); non-trivial = the run made >= 2 operator calls'
           % (len(offsets), INPUTS, a.maxlen, cap),
      samples=samples, failures=failures))


if __name__ == '__main__':
  main()
