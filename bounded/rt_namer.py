"""Run-time evaluation of the Namer.new_symbol contract on small concrete inputs (replay hook)."""
import json
import random
import sys

from malt.pyct import naming, qual_names

ROOTS = ['x', 'do_return', 'get_state', 'x_1', 'loop_body_2', 'a_b']
POOL = ['x', 'x_1', 'x_2', 'do_return', 'do_return_1', 'get_state', 'get_state_1', 'loop_body', 'loop_body_1',
        'loop_body_2', 'loop_body_3', 'a', 'a_b', 'a_b_1', 'b']


def flat(reserved):
  out = set()
  for s in reserved:
    if isinstance(s, qual_names.QN):
      out.update(s.qn)
    else:
      out.add(s)
  return out


def main():
  seed = int(sys.argv[1]) if len(sys.argv) > 1 else 0
  n = 3000 if (len(sys.argv) < 3 or sys.argv[2] == 'quick') else 60000 if sys.argv[2] == 'thorough' else int(sys.argv[2])
  rnd = random.Random(seed)
  failures = []
  for i in range(n):
    ns = {k: 1 for k in POOL if rnd.random() < 0.3}
    nm = naming.Namer(ns)
    calls = []
    for _ in range(rnd.randint(1, 4)):
      reserved = set()
      for k in POOL:
        r = rnd.random()
        if r < 0.15:
          reserved.add(k)
        elif r < 0.25:
          reserved.add(qual_names.QN(k))
        elif r < 0.3:
          reserved.add(qual_names.QN(qual_names.QN(k), attr='f'))
      root = rnd.choice(ROOTS)
      before = set(nm.generated_names)
      got = nm.new_symbol(root, reserved)
      bad = []
      if got in ns:
        bad.append('result is a name of the namespace')
      if got in flat(reserved):
        bad.append('result is a reserved name (or a component of a reserved qualified name)')
      if got in before:
        bad.append('result was generated before')
      if nm.generated_names != before | {got}:
        bad.append('generated_names != old | {result}')
      calls.append((root, sorted(str(x) for x in reserved), got))
      if bad:
        failures.append(dict(kind='contract', sig=';'.join(bad)[:60], what='; '.join(bad), namespace=sorted(ns), calls=calls))
        break
    if len(failures) >= 3:
      break
  print(json.dumps(dict(evaluated=i + 1, distinct_nontrivial=i + 1, failures=failures,
                        rule='bounded: random namespaces / reserved sets (strings and QNs) over a 15-name pool built '
                             'from the converter vocabulary, 1-4 consecutive new_symbol calls per Namer',
                        samples=['new_symbol("do_return", {do_return, QN(get_state)}) with namespace {x, do_return_1}'])))


main()
