"""Run-time evaluation of the cache contracts (malt/pyct/cache.py: _TransformedFnCache.has / __getitem__, the
_get_key functions) over deterministic histories that include garbage collection of keys: entries die with their
code object, and a NEW function never finds an entry it did not store -- also when CPython gives its code object
the address of a collected one (replay hook / bounded stand-in)."""
import gc
import json
import sys
import types

from malt.pyct import cache as cache_lib


def make_fn(i, body='return x + %d'):
  ns = {}
  exec(compile('def f(x):\n  ' + (body % i) + '\n', '<rt_cache_%d>' % i, 'exec'), ns)
  return ns['f']


class _Obj(object):
  def m(self, x):
    return x


def main():
  tier = sys.argv[2] if len(sys.argv) > 2 else 'quick'
  rounds = 600 if tier == 'quick' else 20000
  failures, evaluated = [], 0

  def fail(sig, what):
    if len(failures) < 5:
      failures.append(dict(kind='contract', sig=sig, what=what))
  for cls in (cache_lib.CodeObjectCache, cache_lib.UnboundInstanceCache):
    c = cls()
    keep = []
    for i in range(rounds):
      f = make_fn(i)
      for sub in ('k1', ('opts', i % 3)):
        evaluated += 1
        if c.has(f, sub):
          fail('has-before-store', '%s.has(new function #%d, %r) is True although nothing was stored for it '
               '(an entry of a collected function is served)' % (cls.__name__, i, sub))
      bucket = c[f]
      evaluated += 1
      if len(bucket) != 0:
        fail('bucket-not-empty', '%s[new function #%d] is not an empty bucket: %r' % (cls.__name__, i, dict(bucket)))
      bucket['k1'] = i
      if not c.has(f, 'k1') or c[f]['k1'] != i or c.has(f, 'other'):
        fail('store-lookup', '%s: what was stored under (f, k1) is not found again / another sub-key is found' % cls.__name__)
      if cls is cache_lib.CodeObjectCache:
        g = types.FunctionType(f.__code__, {}, 'g')          # same code object: same bucket
        evaluated += 1
        if not c.has(g, 'k1') or c[g] is not c[f]:
          fail('shared-code', 'functions sharing a code object do not share the bucket')
      else:
        o = _Obj()
        evaluated += 1
        if c.has(o.m, 'k1') and not c.has(_Obj.m, 'k1'):
          fail('bound-method-key', 'a bound method is not keyed by its function')
      for h in keep[-3:]:         # functions that stay alive: their entries survive the collections
        evaluated += 1
        if not c.has(h, 'k1'):
          fail('live-entry-lost', 'the entry of a function that is still alive disappeared')
      if i % 7 == 0:
        keep.append(f)
      else:
        c.has(f, 'k1')            # the LAST lookup before the drop is for the function that is about to die
      del f, bucket
      g = o = None               # nothing may keep this round's code object alive (the next one may reuse its address)
      gc.collect()
  print(json.dumps(dict(evaluated=evaluated, distinct_nontrivial=2 * rounds, failures=failures,
                        rule='bounded: %d rounds per cache class of create-function / lookup / store / lookup / drop / '
                             'gc.collect(), every 7th function kept alive; a new function must never find an entry' % rounds,
                        samples=['round 3: f#2 collected, f#3 compiled (CPython may reuse the address of f#2\'s code object)'])))


main()
