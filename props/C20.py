"""C20 -- conversion options survive embedding and key the caches."""
import itertools
import json
import os

from vlib.report import Report, Finding, ROOT
from vlib import prop as P
from vlib import hooks

HELPER = os.path.join(ROOT, 'bounded', 'c20_roundtrip.py')


def run(tier, seed):
  rep = Report('C20', tier, seed, 'proof')
  P.vc_part(rep, 'C20', concrete_hooks=hooks.HOOKS)
  # exhaustive part: the finite domain of the quantifier, enumerated completely on the real code
  rc, out, err = P.run_child(HELPER, [])
  try:
    res = json.loads(out.strip().splitlines()[-1])
  except Exception:
    rep.error('c20_roundtrip helper failed: rc=%s %s %s' % (rc, out[-300:], err[-600:]))
    return rep.finish()
  cov = rep.coverage
  cov['exhaustive'] = True
  cov['evaluations'] = res['evaluated']
  cov['distinct_nontrivial'] = res['distinct_values']
  cov['rule'] = ('all 2^3 flag combinations x all 2^7 Feature subsets, each subset also spelled as None / a single '
                 'Feature / tuple / set / frozenset / list where applicable; non-trivial = distinct option values')
  cov['samples'] = cov.get('samples', []) + res['samples']
  cov['obligations'] += res['evaluated']
  cov['discharged'] += res['evaluated'] - len(res['failures'])
  cov['by_backend']['exhaustive-enumeration'] = res['evaluated'] - len(res['failures'])
  for f in res['failures']:
    rep.add_finding(Finding('C20', 'exhaustive:' + f['kind'], f['what'], replay=f, concrete=True))
  P.finish_proof_coverage(
      rep, './check C20 (pvc: AST->z3 VCs over malt/core/converter.py; exhaustive to_ast round trip)',
      ['z3 4.x/5.x SMT solver', 'pvc VC generator (/verif/pvc)', 'CPython ast.unparse/eval for the exhaustive part',
       'frozenset/tuple/enum hash and equality are value based'])
  cov['explanation'] = ('ConversionOptions.__init__/as_tuple/__eq__/__hash__/uses/call_options proved against '
                        'contracts for symbolic field values; three lemmas over those contracts; to_ast round trip '
                        'enumerated over the complete finite domain')
  return rep.finish()


