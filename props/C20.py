"""C20 -- conversion options survive embedding and key the caches."""
import itertools
import json
import os

from vlib.report import Report, Finding, ROOT
from vlib import prop as P
from vlib import hooks, witnesses

HELPER = os.path.join(ROOT, 'bounded', 'c20_roundtrip.py')


def run(tier, seed):
  rep = Report('C20', tier, seed, 'proof')
  P.vc_part(rep, 'C20', concrete_hooks=hooks.HOOKS)
  # exhaustive part: the finite domain of the quantifier, enumerated completely on the real code
  rc, out, err = P.run_child(HELPER, [])
  try:
    res = json.loads(out.strip().splitlines()[-1])
  except Exception:
    rep.error('c20_roundtrip helper failed: rc=%s %s %s' % (rc, out[-300:], err[-600:]))
    return rep.finish()
  cov = rep.coverage
  cov['exhaustive'] = True
  cov['evaluations'] = res['evaluated']
  cov['distinct_nontrivial'] = res['distinct_values']
  cov['rule'] = ('all 2^3 flag combinations x all 2^7 Feature subsets, each subset also spelled as None / a single '
                 'Feature / tuple / set / frozenset / list where applicable; non-trivial = distinct option values')
  cov['samples'] = cov.get('samples', []) + res['samples']
  cov['obligations'] += res['evaluated']
  cov['discharged'] += res['evaluated'] - len(res['failures'])
  cov['by_backend']['exhaustive-enumeration'] = res['evaluated'] - len(res['failures'])
  for f in res['failures']:
    rep.add_finding(Finding('C20', 'exhaustive:' + f['kind'], f['what'], replay=f, concrete=True))
  # run-time evaluation of the embedding contract on the real transpiler (bounded, never counted as proved)
  from props import _generic
  _generic.run_bounded(rep, 'C20', 'rt_embed.py', seed, tier,
                       'run-time evaluation of the embedding contract: options expressions in generated code evaluated')
  rep.assumptions.append('the rt_embed part is a bounded stand-in (NOT proved): it exercises the composition of the '
                         'visit_FunctionDef / visit_Lambda trace contracts with templates.replace and the module loader')
  # regression scenarios (witnesses of recorded findings, demonstrations of the seeded changes): run-time, not proof
  witnesses.run(rep, 'C20')
  P.finish_proof_coverage(
      rep, './check C20 (pvc: AST->z3 VCs over malt/core/converter.py and malt/converters/functions.py; exhaustive to_ast round trip)',
      ['z3 4.x/5.x SMT solver', 'pvc VC generator (/verif/pvc)', 'CPython ast.unparse/eval for the exhaustive part',
       'frozenset/tuple/enum hash and equality are value based'])
  cov['explanation'] = ('ConversionOptions.__init__/as_tuple/__eq__/__hash__/uses/call_options proved against '
                        'contracts for symbolic field values; the embedding site (FunctionTransformer.visit_FunctionDef / visit_Lambda, '
                        'event mode): the expression handed to the FunctionScope template is to_ast() of the REQUESTED options for the '
                        'top-level scope and of their call_options() for nested scopes, on every path; '
                        'three lemmas over those contracts; to_ast round trip '
                        'enumerated over the complete finite domain')
  return rep.finish()


