from props import _generic, _table


def run(tier, seed):
  t = _table.TABLE['C10']
  return _generic.standard('C10', t['level'], tier, seed, bounded=t['bounded'], explanation=t['explanation'])
