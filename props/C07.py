"""C07 -- liveness is sound: anything read later is reported live."""
from props import _generic


def run(tier, seed):
  return _generic.standard(
      'C07', 'other', tier, seed,
      bounded=[('rt_liveness.py', 'run-time evaluation of the visit_node contract on small concrete inputs'),
               ('rt_worklist.py', 'run-time evaluation of the worklist fixed-point contract on small graphs'),
               ('rt_fndefs.py', 'run-time evaluation of the reaching-function-definitions contracts'),
               ('c07_usebefore.py', 'use-before-overwrite oracle on executed programs')],
      explanation='proved: the liveness transfer function (visit_node) against the equation taken from the property '
                  '(including the nonlocal-closure clause), its refinement of the abstract visit_node contract, and '
                  'the worklist fixed point of cfg.GraphVisitor for all graphs and all iteration counts; the reaching-function-'
                  'definitions analysis that feeds the closure clause (its value type, its transfer function: what reaches a node '
                  'covers everything leaving a predecessor and the external definitions at the entry, a def adds itself; and its '
                  'refinement lemma); the mirror invariant of the graphs the builder produces (C05) and Scope.finalize (C08); assumed '
                  '(bounded stand-in): CFG path inclusion (C05) and read/modified sets cover actual reads/writes (C08); '
                  'end-to-end soundness exercised by the use-before-overwrite oracle')
