from props import _generic, _table
from vlib import scan
from vlib.report import Finding


def frame_scan(rep, tier):
  """Syntactic frame obligation (C06): `_NodeState.value` is written or mutated only inside _NodeState's own
  methods (on the object under construction), so a state is an immutable value once built -- the ghost
  predicates Defs / HasKey of the contracts are functions of the state object alone."""
  allowed = {'_NodeState.__init__', '_NodeState.__or__', '_NodeState.__sub__', '_NodeState.__eq__', '_NodeState.__ne__',
             '_NodeState.__repr__'}
  sites, bad = scan.attr_writers('malt.pyct.static_analysis.reaching_definitions', {'value'}, allowed)
  rep.coverage.setdefault('frame_scans', []).append(dict(
      obligation='frame-scan/rd-nodestate-value', backend='ast-scan', sites_checked=sites, holds=not bad,
      statement='in reaching_definitions.py, .value is assigned or mutated only inside _NodeState methods'))
  for b in bad:
    rep.add_finding(Finding('C06', 'scan:rd-nodestate-value:%s' % b['function'],
                            'frame-scan/rd-nodestate-value: %s in %s (line %d): a reaching-definitions state is mutated after '
                            'construction' % (b['what'], b['function'], b['line']), replay=b, concrete=False))


def run(tier, seed):
  t = _table.TABLE['C06']
  return _generic.standard('C06', t['level'], tier, seed, bounded=t['bounded'], explanation=t['explanation'],
                           shape=frame_scan)
