from props import _generic, _table
from vlib import scan
from vlib.report import Finding


def frame_scan(rep, tier):
  """Syntactic frame obligation (C05): the edge sets `next` / `prev` are written only by the primitives that
  are under contract (GraphBuilder._connect_nodes, Node.__init__, Node.freeze) and CFG nodes are created only
  by GraphBuilder._add_new_node -- so every other builder method preserves the mirror invariant because it
  can only reach the edge sets through those primitives."""
  sites, bad = scan.attr_writers('malt.pyct.cfg', {'next', 'prev'},
                                 {'Node.__init__', 'Node.freeze', 'GraphBuilder._connect_nodes'},
                                 ctor='Node', ctor_allowed={'GraphBuilder._add_new_node'})
  cov = rep.coverage
  cov.setdefault('frame_scans', []).append(dict(
      obligation='frame-scan/cfg-edge-sets', backend='ast-scan', sites_checked=sites, holds=not bad,
      statement='in malt/pyct/cfg.py, .next/.prev are assigned or mutated only in Node.__init__, Node.freeze and '
                'GraphBuilder._connect_nodes; Node(...) is constructed only in GraphBuilder._add_new_node'))
  for b in bad:
    rep.add_finding(Finding('C05', 'scan:cfg-edge-sets:%s' % b['function'],
                            'frame-scan/cfg-edge-sets: %s in %s (line %d): the edge sets are no longer written only by the '
                            'primitives under contract' % (b['what'], b['function'], b['line']), replay=b, concrete=False))


def run(tier, seed):
  t = _table.TABLE['C05']
  return _generic.standard('C05', t['level'], tier, seed, bounded=t['bounded'], explanation=t['explanation'],
                           shape=frame_scan)
