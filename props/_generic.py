"""Assembly of a property check from its parts: VC contracts + lemmas (Engine A), shape obligations
(Engine B), bounded stand-ins (scripts under /verif/bounded), witnesses of recorded findings."""
import json
import os

from vlib.report import Report, Finding, ROOT
from vlib import prop as P
from vlib import hooks, witnesses


def run_bounded(rep, prop, script, seed, tier, label, extra_args=(), timeout=None):
  """Run one stand-in script and merge its JSON result into the report."""
  path = os.path.join(ROOT, 'bounded', script)
  if not os.path.exists(path):
    return None
  timeout = timeout or (600 if tier == 'quick' else 3000)
  rc, out, err = P.run_child(path, [str(seed), tier] + list(extra_args), timeout=timeout)
  try:
    res = json.loads(out.strip().splitlines()[-1])
  except Exception:
    rep.error('%s failed rc=%s: %s | %s' % (script, rc, out[-300:], err[-800:]))
    return None
  cov = rep.coverage
  b = cov.setdefault('bounded_stand_ins', [])
  b.append(dict(script=script, label=label, evaluated=res.get('evaluated'),
                distinct_nontrivial=res.get('distinct_nontrivial'), rule=res.get('rule', ''),
                extra={k: v for k, v in res.items()
                       if k not in ('failures', 'samples', 'rule', 'evaluated', 'distinct_nontrivial')}))
  cov['evaluations'] = cov.get('evaluations', 0) + int(res.get('evaluated') or 0)
  cov['distinct_nontrivial'] = cov.get('distinct_nontrivial', 0) + int(res.get('distinct_nontrivial') or 0)
  cov['rule'] = (cov.get('rule', '') + ' | ' if cov.get('rule') else '') + '[%s] %s' % (label, res.get('rule', ''))
  cov.setdefault('samples', [])
  for s in (res.get('samples') or [])[:2]:
    cov['samples'].append(s if isinstance(s, str) else json.dumps(s)[:800])
  for f in res.get('failures') or []:
    key = 'bounded:%s:%s:%s' % (script.replace('.py', ''), f.get('kind', '?'), str(f.get('sig', ''))[:80])
    rep.add_finding(Finding(prop, key, '%s: %s' % (f.get('kind'), f.get('what', '')), replay=f, concrete=True))
  return res


def standard(prop, level, tier, seed, bounded=(), explanation='', checker_cmd=None, trusted=(), vc=True,
             shape=None, extra=None):
  rep = Report(prop, tier, seed, level)
  if vc:
    P.vc_part(rep, prop, concrete_hooks=hooks.HOOKS)
  if shape is not None:
    shape(rep, tier)
  for script, label in bounded:
    run_bounded(rep, prop, script, seed, tier, label)
  if extra is not None:
    extra(rep, tier, seed)
  witnesses.run(rep, prop)
  cov = rep.coverage
  cov['explanation'] = explanation
  if bounded:
    rep.assumptions.append('clauses served only by a bounded stand-in are NOT proved (bounds in coverage.rule)')
  if checker_cmd:
    P.finish_proof_coverage(rep, checker_cmd, list(trusted))
  cov.setdefault('samples', [])
  if not cov['samples']:
    cov['samples'] = ['(no sample)']
  return rep.finish()
