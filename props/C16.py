"""C16 -- conversion-status context is restored on every exit and isolated per thread."""
from props import _generic


def run(tier, seed):
  return _generic.standard(
      'C16', 'proof', tier, seed,
      bounded=[('c16_status_trees.py', 'random call trees x threads, identity of the status object before/after'),
               ('rt_ctx.py', 'run-time evaluation of the stack contracts on small stacks (same object several times)')],
      explanation='stack discipline of ag_ctx/FunctionScope and the with-rule of the api wrappers proved for all '
                  'callees that leave the stack as they found it (induction over call depth); per-thread isolation '
                  'by the ownership argument (the list is reachable only through a threading.local attribute)',
      checker_cmd='./check C16 (pvc: AST->z3 VCs over malt/core/ag_ctx.py, function_wrappers.py, api.py wrappers)',
      trusted=['z3', 'pvc VC generator', 'threading.local gives each thread its own attribute namespace',
               'with statement calls __enter__, the body, then __exit__ on every exit'])
