from props import _generic, _table


def run(tier, seed):
  t = _table.TABLE['C19']
  return _generic.standard('C19', t['level'], tier, seed, bounded=t['bounded'], explanation=t['explanation'])
